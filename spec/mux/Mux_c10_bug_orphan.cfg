SPECIFICATION Spec
CONSTANTS
  Callers <- C2
  MaxConns = 2
  IdxMod = 4
  MaxCalls = 1
  NoDeadline <- ND12
  Faults = TRUE
  Aborts = 0
  Dups = 0
  Strays = 0
  FixClosed = FALSE
  FixCancel = TRUE
  FixWrap = TRUE
INVARIANTS NoOrphan
CHECK_DEADLOCK FALSE
