------------------------------ MODULE MuxTrace ------------------------------
(* Trace validation of recorded client executions against MuxMonitor.      *)
EXTENDS TraceKit, FiniteSets
MM == INSTANCE MuxMonitor
VARIABLES l, poss, cur, failed, skip
MInit(e) == {MM!MMInit(e)}
MStep(s, e) == MM!MMStep(s, e)
NoOne(e) == ""
INSTANCE TraceLoop WITH InitStates <- MInit, Step <- MStep, One <- NoOne
=============================================================================
