--------------------------------- MODULE Mux ---------------------------------
(***************************************************************************)
(* Implementation-shaped model of the multiplexing client transports       *)
(* rpc/socket/transport.go, rpc/websocket/transport.go,                    *)
(* rpc/udp/transport.go (structurally identical; the index modulus is the  *)
(* constant IdxMod: 2^31, 2^31, 2^15 in the code, small here).             *)
(*                                                                         *)
(* One action per critical section of the Go code:                         *)
(*   callers   GetConn, Store, Sel1Ctx, Sel1Send, SelRes, Sel2Ctx          *)
(*   Send loop SendWrite, SendCtx, and the Exit path OnExit, CloseOnce,    *)
(*             CleanRound                                                  *)
(*   Receive   RecvResp (frame for a request the peer received), RecvDup   *)
(*             (a response that arrives twice), RecvStray (an index nobody *)
(*             waits for), RecvErr (read error / bad frame), RecvCtx, and  *)
(*             the same Exit path                                          *)
(*   client    Abort (core.Client.Abort: cancel the calls in flight, then  *)
(*             Transport.Abort: empty the pool and Close every connection) *)
(*   env       PeerClose, Deadline                                         *)
(*                                                                         *)
(* Two repairs are switchable so that the original code remains a negative *)
(* control for TLC: FixClosed (a connection remembers that it was closed   *)
(* and refuses to register a call afterwards) and FixCancel (onExit always *)
(* cancels the loops' context, also when Abort has already emptied the     *)
(* pool).  FixWrap makes Store skip an index that is still pending.        *)
(***************************************************************************)
EXTENDS Integers, Sequences, FiniteSets, TLC

CONSTANTS Callers,      \* caller ids (1..n)
          MaxConns,     \* connection generations
          IdxMod,       \* request index modulus
          MaxCalls,     \* calls per caller
          NoDeadline,   \* callers whose context never expires
          Faults,       \* BOOLEAN: may the peer close?
          Aborts,       \* 0 or 1: may the client Abort once?
          Dups, Strays, \* 0 or 1 each
          FixClosed, FixCancel, FixWrap

Conns == 1..MaxConns
None == [kind |-> "none"]
RespOf(c, n) == [kind |-> "resp", c |-> c, n |-> n]
ErrVal(e) == [kind |-> "err", e |-> e]

VARIABLES pool, nconns,
          results,     \* [Conns -> [0..IdxMod-1 -> caller or 0]]
          counter, closedFlag, sockClosed, sctx, peerDown,
          spc, rpc,    \* loop program counters: "none","loop","sending","onexit","close","clean","gone"
          serr, rerr,  \* the err value the loop exits with (TRUE = non-nil)
          sreq,        \* request taken by the Send loop and not yet written: <<>> or <<idx, c, n>>
          wire,        \* requests the peer has received and not answered
          answered,    \* requests the peer has answered (candidates for a duplicate)
          cpc, cconn, cidx, cchan, cres, ccalls, cctx,
          apc,         \* aborter: "idle" | "close" | "clean" | "done"
          aconn,       \* connection the aborter is closing
          dups, strays, aborts

vars == <<pool, nconns, results, counter, closedFlag, sockClosed, sctx, peerDown, spc, rpc, serr, rerr, sreq,
          wire, answered, cpc, cconn, cidx, cchan, cres, ccalls, cctx, apc, aconn, dups, strays, aborts>>

Init ==
    /\ pool = 0 /\ nconns = 0
    /\ results = [k \in Conns |-> [i \in 0..(IdxMod - 1) |-> 0]]
    /\ counter = [k \in Conns |-> 0]
    /\ closedFlag = [k \in Conns |-> FALSE] /\ sockClosed = [k \in Conns |-> FALSE]
    /\ sctx = [k \in Conns |-> FALSE] /\ peerDown = [k \in Conns |-> FALSE]
    /\ spc = [k \in Conns |-> "none"] /\ rpc = [k \in Conns |-> "none"]
    /\ serr = [k \in Conns |-> FALSE] /\ rerr = [k \in Conns |-> FALSE]
    /\ sreq = [k \in Conns |-> <<>>]
    /\ wire = [k \in Conns |-> {}] /\ answered = [k \in Conns |-> {}]
    /\ cpc = [c \in Callers |-> "idle"] /\ cconn = [c \in Callers |-> 0] /\ cidx = [c \in Callers |-> 0]
    /\ cchan = [c \in Callers |-> None] /\ cres = [c \in Callers |-> None]
    /\ ccalls = [c \in Callers |-> 0] /\ cctx = [c \in Callers |-> FALSE]
    /\ apc = "idle" /\ aconn = 0 /\ dups = 0 /\ strays = 0 /\ aborts = 0

---------------------------------------------------------------------------
(* callers *)

\* Transport.getConn: reuse the pooled connection or dial, pool it and start both loops
GetConn(c) ==
    /\ cpc[c] \in {"idle", "done"} /\ ccalls[c] < MaxCalls
    /\ \/ /\ pool # 0 /\ cconn' = [cconn EXCEPT ![c] = pool]
          /\ UNCHANGED <<pool, nconns, spc, rpc>>
       \/ /\ pool = 0 /\ nconns < MaxConns
          /\ nconns' = nconns + 1 /\ pool' = nconns + 1
          /\ cconn' = [cconn EXCEPT ![c] = nconns + 1]
          /\ spc' = [spc EXCEPT ![nconns + 1] = "loop"] /\ rpc' = [rpc EXCEPT ![nconns + 1] = "loop"]
    /\ cpc' = [cpc EXCEPT ![c] = "gotconn"]
    /\ ccalls' = [ccalls EXCEPT ![c] = @ + 1]
    /\ cchan' = [cchan EXCEPT ![c] = None] /\ cres' = [cres EXCEPT ![c] = None]
    /\ cctx' = [cctx EXCEPT ![c] = FALSE]
    /\ UNCHANGED <<results, counter, closedFlag, sockClosed, sctx, peerDown, serr, rerr, sreq, wire, answered,
                   cidx, apc, aconn, dups, strays, aborts>>

RECURSIVE FreeIdx(_, _, _)
FreeIdx(k, i, tries) == IF tries = 0 \/ results[k][i % IdxMod] = 0 THEN i ELSE FreeIdx(k, i + 1, tries - 1)

\* conn.Transport: index := counter+1 masked; results[index] = resultChan   (one lock section)
Store(c) ==
    /\ cpc[c] = "gotconn"
    /\ LET k == cconn[c]
           raw == counter[k] + 1
           cnt == IF FixWrap THEN FreeIdx(k, raw, IdxMod) ELSE raw
           i == cnt % IdxMod IN
       IF FixClosed /\ closedFlag[k]
       THEN /\ cres' = [cres EXCEPT ![c] = ErrVal("closed")] /\ cpc' = [cpc EXCEPT ![c] = "done"]
            /\ UNCHANGED <<results, counter, cidx>>
       ELSE /\ counter' = [counter EXCEPT ![k] = cnt]
            /\ results' = [results EXCEPT ![k][i] = c]
            /\ cidx' = [cidx EXCEPT ![c] = i]
            /\ cpc' = [cpc EXCEPT ![c] = "stored"]
            /\ UNCHANGED cres
    /\ UNCHANGED <<pool, nconns, closedFlag, sockClosed, sctx, peerDown, spc, rpc, serr, rerr, sreq, wire, answered,
                   cconn, cchan, ccalls, cctx, apc, aconn, dups, strays, aborts>>

\* both selects, <-ctx.Done(): c.delete(index) - by index, whatever is registered there
SelCtx(c) ==
    /\ cpc[c] \in {"stored", "sent"} /\ cctx[c]
    /\ results' = [results EXCEPT ![cconn[c]][cidx[c]] = 0]
    /\ cres' = [cres EXCEPT ![c] = ErrVal("ctx")] /\ cpc' = [cpc EXCEPT ![c] = "done"]
    /\ UNCHANGED <<pool, nconns, counter, closedFlag, sockClosed, sctx, peerDown, spc, rpc, serr, rerr, sreq, wire,
                   answered, cconn, cidx, cchan, ccalls, cctx, apc, aconn, dups, strays, aborts>>

\* first select, c.requests <- data: rendezvous with the Send loop
Sel1Send(c) ==
    /\ cpc[c] = "stored" /\ spc[cconn[c]] = "loop"
    /\ spc' = [spc EXCEPT ![cconn[c]] = "sending"]
    /\ sreq' = [sreq EXCEPT ![cconn[c]] = <<cidx[c], c, ccalls[c]>>]
    /\ cpc' = [cpc EXCEPT ![c] = "sent"]
    /\ UNCHANGED <<pool, nconns, results, counter, closedFlag, sockClosed, sctx, peerDown, rpc, serr, rerr, wire,
                   answered, cconn, cidx, cchan, cres, ccalls, cctx, apc, aconn, dups, strays, aborts>>

\* either select, res := <-resultChan
SelRes(c) ==
    /\ cpc[c] \in {"stored", "sent"} /\ cchan[c] # None
    /\ cres' = [cres EXCEPT ![c] = cchan[c]] /\ cpc' = [cpc EXCEPT ![c] = "done"]
    /\ UNCHANGED <<pool, nconns, results, counter, closedFlag, sockClosed, sctx, peerDown, spc, rpc, serr, rerr, sreq,
                   wire, answered, cconn, cidx, cchan, ccalls, cctx, apc, aconn, dups, strays, aborts>>

---------------------------------------------------------------------------
(* the loops *)

\* conn.send: the write fails once the socket is closed; towards a peer that is down it may fail or vanish
SendWrite(k, fails) ==
    /\ spc[k] = "sending"
    /\ fails => (sockClosed[k] \/ peerDown[k])
    /\ sockClosed[k] => fails
    /\ IF fails
       THEN /\ spc' = [spc EXCEPT ![k] = "onexit"] /\ serr' = [serr EXCEPT ![k] = TRUE] /\ UNCHANGED wire
       ELSE /\ spc' = [spc EXCEPT ![k] = "loop"] /\ UNCHANGED serr
            /\ wire' = [wire EXCEPT ![k] = IF peerDown[k] THEN @ ELSE @ \cup {sreq[k]}]
    /\ sreq' = [sreq EXCEPT ![k] = <<>>]
    /\ UNCHANGED <<pool, nconns, results, counter, closedFlag, sockClosed, sctx, peerDown, rpc, rerr, answered,
                   cpc, cconn, cidx, cchan, cres, ccalls, cctx, apc, aconn, dups, strays, aborts>>

SendCtx(k) ==
    /\ spc[k] = "loop" /\ sctx[k]
    /\ spc' = [spc EXCEPT ![k] = "onexit"] /\ serr' = [serr EXCEPT ![k] = FALSE]
    /\ UNCHANGED <<pool, nconns, results, counter, closedFlag, sockClosed, sctx, peerDown, rpc, rerr, sreq, wire,
                   answered, cpc, cconn, cidx, cchan, cres, ccalls, cctx, apc, aconn, dups, strays, aborts>>

Deliver(k, i, val) ==   \* loadAndDelete(index) and, if loaded, resultChan <- val
    LET c == results[k][i] IN
    /\ results' = [results EXCEPT ![k][i] = 0]
    /\ cchan' = IF c # 0 THEN [cchan EXCEPT ![c] = val] ELSE cchan

RecvResp(k, req) ==
    /\ rpc[k] = "loop" /\ ~sockClosed[k] /\ req \in wire[k]
    /\ wire' = [wire EXCEPT ![k] = @ \ {req}]
    /\ answered' = [answered EXCEPT ![k] = @ \cup {req}]
    /\ Deliver(k, req[1], RespOf(req[2], req[3]))
    /\ UNCHANGED <<pool, nconns, counter, closedFlag, sockClosed, sctx, peerDown, spc, rpc, serr, rerr, sreq,
                   cpc, cconn, cidx, cres, ccalls, cctx, apc, aconn, dups, strays, aborts>>

RecvDup(k, req) ==
    /\ rpc[k] = "loop" /\ ~sockClosed[k] /\ req \in answered[k] /\ dups < Dups
    /\ dups' = dups + 1
    /\ Deliver(k, req[1], RespOf(req[2], req[3]))
    /\ UNCHANGED <<pool, nconns, counter, closedFlag, sockClosed, sctx, peerDown, spc, rpc, serr, rerr, sreq, wire,
                   answered, cpc, cconn, cidx, cres, ccalls, cctx, apc, aconn, strays, aborts>>

\* a well-formed response whose index matches nothing the peer was ever sent
RecvStray(k, i) ==
    /\ rpc[k] = "loop" /\ ~sockClosed[k] /\ strays < Strays
    /\ results[k][i] = 0
    /\ strays' = strays + 1
    /\ UNCHANGED <<pool, nconns, results, counter, closedFlag, sockClosed, sctx, peerDown, spc, rpc, serr, rerr, sreq,
                   wire, answered, cpc, cconn, cidx, cchan, cres, ccalls, cctx, apc, aconn, dups, aborts>>

RecvErr(k) ==
    /\ rpc[k] = "loop" /\ (peerDown[k] \/ sockClosed[k])
    /\ rpc' = [rpc EXCEPT ![k] = "onexit"] /\ rerr' = [rerr EXCEPT ![k] = TRUE]
    /\ UNCHANGED <<pool, nconns, results, counter, closedFlag, sockClosed, sctx, peerDown, spc, serr, sreq, wire,
                   answered, cpc, cconn, cidx, cchan, cres, ccalls, cctx, apc, aconn, dups, strays, aborts>>

\* the exit path, executed by the Send loop (who = "s") or the Receive loop (who = "r")
PcOf(who) == IF who = "s" THEN spc ELSE rpc
ErrOf(who) == IF who = "s" THEN serr ELSE rerr
SetPc(who, k, v) == IF who = "s" THEN spc' = [spc EXCEPT ![k] = v] /\ UNCHANGED rpc
                    ELSE rpc' = [rpc EXCEPT ![k] = v] /\ UNCHANGED spc

OnExit(who, k) ==
    /\ PcOf(who)[k] = "onexit"
    /\ pool' = IF pool = k THEN 0 ELSE pool
    /\ sctx' = [sctx EXCEPT ![k] = IF pool = k \/ FixCancel THEN TRUE ELSE @]
    /\ SetPc(who, k, IF ErrOf(who)[k] THEN "close" ELSE "gone")
    /\ UNCHANGED <<nconns, results, counter, closedFlag, sockClosed, peerDown, serr, rerr, sreq, wire, answered,
                   cpc, cconn, cidx, cchan, cres, ccalls, cctx, apc, aconn, dups, strays, aborts>>

CloseOnce(who, k) ==
    /\ PcOf(who)[k] = "close"
    /\ sockClosed' = [sockClosed EXCEPT ![k] = TRUE]
    /\ closedFlag' = [closedFlag EXCEPT ![k] = TRUE]
    /\ SetPc(who, k, "clean")
    /\ UNCHANGED <<pool, nconns, results, counter, sctx, peerDown, serr, rerr, sreq, wire, answered,
                   cpc, cconn, cidx, cchan, cres, ccalls, cctx, apc, aconn, dups, strays, aborts>>

Pending(k) == {i \in 0..(IdxMod - 1) : results[k][i] # 0}

\* one pass of rangeAndClean: take the table, fail every call in it; repeated while the table is non-empty
CleanBody(k) ==
    /\ results' = [results EXCEPT ![k] = [i \in 0..(IdxMod - 1) |-> 0]]
    /\ cchan' = [c \in Callers |-> IF \E i \in Pending(k) : results[k][i] = c THEN ErrVal("closed") ELSE cchan[c]]

CleanRound(who, k) ==
    /\ PcOf(who)[k] = "clean"
    /\ IF Pending(k) = {}
       THEN SetPc(who, k, "gone") /\ UNCHANGED <<results, cchan>>
       ELSE CleanBody(k) /\ UNCHANGED <<spc, rpc>>
    /\ UNCHANGED <<pool, nconns, counter, closedFlag, sockClosed, sctx, peerDown, serr, rerr, sreq, wire, answered,
                   cpc, cconn, cidx, cres, ccalls, cctx, apc, aconn, dups, strays, aborts>>

---------------------------------------------------------------------------
(* client and environment *)

\* core.Client.Abort: cancel every call in flight, then Transport.Abort
AbortBegin ==
    /\ apc = "idle" /\ aborts < Aborts
    /\ aborts' = aborts + 1
    /\ cctx' = [c \in Callers |-> IF cpc[c] \in {"gotconn", "stored", "sent"} THEN TRUE ELSE cctx[c]]
    /\ aconn' = pool /\ pool' = 0
    /\ apc' = IF pool = 0 THEN "done" ELSE "close"
    /\ UNCHANGED <<nconns, results, counter, closedFlag, sockClosed, sctx, peerDown, spc, rpc, serr, rerr, sreq, wire,
                   answered, cpc, cconn, cidx, cchan, cres, ccalls, dups, strays>>

AbortClose ==
    /\ apc = "close"
    /\ sockClosed' = [sockClosed EXCEPT ![aconn] = TRUE]
    /\ closedFlag' = [closedFlag EXCEPT ![aconn] = TRUE]
    /\ apc' = "clean"
    /\ UNCHANGED <<pool, nconns, results, counter, sctx, peerDown, spc, rpc, serr, rerr, sreq, wire, answered,
                   cpc, cconn, cidx, cchan, cres, ccalls, cctx, aconn, dups, strays, aborts>>

AbortClean ==
    /\ apc = "clean"
    /\ IF Pending(aconn) = {}
       THEN apc' = "done" /\ UNCHANGED <<results, cchan>>
       ELSE CleanBody(aconn) /\ UNCHANGED apc
    /\ UNCHANGED <<pool, nconns, counter, closedFlag, sockClosed, sctx, peerDown, spc, rpc, serr, rerr, sreq, wire,
                   answered, cpc, cconn, cidx, cres, ccalls, cctx, aconn, dups, strays, aborts>>

PeerClose(k) ==
    /\ Faults /\ k <= nconns /\ ~peerDown[k]
    /\ peerDown' = [peerDown EXCEPT ![k] = TRUE]
    /\ UNCHANGED <<pool, nconns, results, counter, closedFlag, sockClosed, sctx, spc, rpc, serr, rerr, sreq, wire,
                   answered, cpc, cconn, cidx, cchan, cres, ccalls, cctx, apc, aconn, dups, strays, aborts>>

Deadline(c) ==
    /\ c \notin NoDeadline /\ cpc[c] \in {"gotconn", "stored", "sent"} /\ ~cctx[c]
    /\ cctx' = [cctx EXCEPT ![c] = TRUE]
    /\ UNCHANGED <<pool, nconns, results, counter, closedFlag, sockClosed, sctx, peerDown, spc, rpc, serr, rerr, sreq,
                   wire, answered, cpc, cconn, cidx, cchan, cres, ccalls, apc, aconn, dups, strays, aborts>>

CodeStep ==
    \/ \E c \in Callers : GetConn(c) \/ Store(c) \/ SelCtx(c) \/ Sel1Send(c) \/ SelRes(c)
    \/ \E k \in Conns : SendWrite(k, TRUE) \/ SendWrite(k, FALSE) \/ SendCtx(k) \/ RecvErr(k)
    \/ \E k \in Conns, who \in {"s", "r"} : OnExit(who, k) \/ CloseOnce(who, k) \/ CleanRound(who, k)
    \/ AbortClose \/ AbortClean

EnvStep ==
    \/ \E k \in Conns : \E req \in wire[k] : RecvResp(k, req)
    \/ \E k \in Conns : \E req \in answered[k] : RecvDup(k, req)
    \/ \E k \in Conns, i \in 0..(IdxMod - 1) : RecvStray(k, i)
    \/ \E k \in Conns : PeerClose(k)
    \/ \E c \in Callers : Deadline(c)
    \/ AbortBegin

Next == CodeStep \/ EnvStep
Spec == Init /\ [][Next]_vars

---------------------------------------------------------------------------
(* properties *)

\* C09: a caller that returns a response returns the response to its own request
OwnResponse == \A c \in Callers : cres[c].kind = "resp" => (cres[c].c = c /\ cres[c].n = ccalls[c])

ConnDead(k) == spc[k] = "gone" /\ rpc[k] = "gone" /\ apc # "clean" /\ apc # "close"
Waiting(c) == cpc[c] \in {"stored", "sent"}

\* C10 (safety form): no caller is left waiting on a connection whose loops have both ended and whose
\* cleaning is over, with nothing in its channel and no deadline to save it
NoOrphan == \A c \in Callers :
               (Waiting(c) /\ c \in NoDeadline /\ ~cctx[c] /\ ConnDead(cconn[c])) => cchan[c] # None

\* C10: after a connection is closed its Send loop is not left running for ever
NoLeakedSender == \A k \in Conns :
                     (sockClosed[k] /\ rpc[k] = "gone" /\ pool # k /\ apc \in {"idle", "done"} /\ spc[k] = "loop") => sctx[k]

\* C10: no pending-table entry survives its connection
CleanAtQuiescence == \A k \in Conns :
                        (ConnDead(k) /\ \A c \in Callers : cpc[c] \in {"idle", "done"}) => Pending(k) = {}

\* a failed connection never stays in the pool
ReusableAfterFailure == \A k \in Conns : (rpc[k] = "gone" /\ spc[k] = "gone") => pool # k

\* liveness (checked under fairness of the code's own steps): every call returns
Fairness ==
    /\ \A c \in Callers : WF_vars(Store(c)) /\ WF_vars(SelRes(c)) /\ WF_vars(SelCtx(c)) /\ WF_vars(Sel1Send(c))
    /\ \A k \in Conns : /\ WF_vars(SendWrite(k, TRUE) \/ SendWrite(k, FALSE)) /\ WF_vars(SendCtx(k)) /\ WF_vars(RecvErr(k))
                        /\ \A who \in {"s", "r"} : WF_vars(OnExit(who, k)) /\ WF_vars(CloseOnce(who, k)) /\ WF_vars(CleanRound(who, k))
    /\ WF_vars(AbortClose) /\ WF_vars(AbortClean)
LiveSpec == Spec /\ Fairness
\* when the peer is down or the call has a deadline that fires, the call ends
LostLeadsToReturn == \A c \in Callers :
                        (Waiting(c) /\ (peerDown[cconn[c]] \/ cctx[c])) ~> (cpc[c] \in {"idle", "done"})
=============================================================================
