SPECIFICATION Spec
CONSTANTS
  Polls <- R3
  Calls <- I2
  FixIdle = TRUE
  FixStop = FALSE
  FixOrder = TRUE
  FixWake = TRUE
  CallTimeouts = TRUE
INVARIANTS ProviderPolls
CHECK_DEADLOCK FALSE
