------------------------------- MODULE Reverse -------------------------------
(***************************************************************************)
(* Implementation-shaped model of reverse calls (rpc/plugins/reverse) for  *)
(* one provider id: a service (Caller) queues calls, the provider fetches  *)
(* them with a long poll ("!" = Caller.begin), executes them and reports   *)
(* the results ("=" = Caller.end); the caller matches results by index.    *)
(*   begin()         a poll:  PopOld (stop); Take; Put (own channel) |     *)
(*                   Register; [Recheck]; Wait | Timeout                   *)
(*   InvokeContext() a call:  Append + results.Set; response(): Pop; Take; *)
(*                   Put | ReRegister; await result | Timeout              *)
(*   Provider.Listen polls one after the other; null ends it; calls are    *)
(*                   executed and reported with end()                      *)
(* Responders are one-slot channels.  `reg` is c.responders[id].           *)
(*                                                                         *)
(* Three repairs are switchable, FALSE being the code as it was pinned:    *)
(*  FixIdle  at the poll's idle time-out the original writes the empty     *)
(*           answer into its own channel and leaves the responder          *)
(*           registered; the repaired poll removes its responder only if   *)
(*           it is still the registered one, and otherwise waits for what  *)
(*           the Invoke that has taken it does with it.                    *)
(*  FixStop  the provider took the empty list of an idle time-out for the  *)
(*           null that ends the polling (an empty list decodes into a nil  *)
(*           slice); repaired, only null ends it.                          *)
(*  FixWake  a call queued between the empty check (of a poll, or of an    *)
(*           Invoke's response()) and the (re-)registration of the         *)
(*           responder finds no responder and is not handed over until     *)
(*           something else wakes the poll; repaired, whoever registers a  *)
(*           responder looks at the queue again afterwards.                *)
(*  FixOrder the Invoke queued its call (calls.Append) before it had put    *)
(*           its result channel into the table (results.Set): a provider   *)
(*           that fetches, executes and reports the call in between finds  *)
(*           no channel for the index, the result is dropped and the       *)
(*           caller waits until its time-out (found in the real code by    *)
(*           the first-calls driver, then reproduced here); repaired, the  *)
(*           channel is in the table before the call can be fetched.       *)
(*                                                                         *)
(* Checked: NoDeadLetter (no queued call ends in the channel of a poll     *)
(* that has returned), NoStuckPoll (no poll blocks for ever writing its    *)
(* own answer), Conservation, OwnResult (C09: a call returns the result of *)
(* its own index only, and only after the provider produced it),           *)
(* ProviderPolls (only null stops the provider), NoSleepingCall (no call   *)
(* stays queued while a registered poll waits and nobody is about to hand  *)
(* it over), NothingLost, and liveness of the handshake.                   *)
(***************************************************************************)
EXTENDS Integers, Sequences, FiniteSets, TLC

CONSTANTS Polls,      \* poll instances of the provider, issued one after the other (1..n)
          Calls,      \* call indexes; Invoke i queues call i
          FixIdle, FixStop, FixWake, FixOrder,
          CallTimeouts  \* whether an Invoke may give up (its Timeout fires)

None == <<>>
Nil == <<"nil">>
Batch(s) == <<"calls", s>>

VARIABLES cache,      \* calls[id].c: queued call indexes
          reg,        \* responders[id]: 0 or a poll
          chan,       \* per poll: None | Nil | Batch(seq)   (capacity 1)
          ppc, phand, presp,   \* poll: program counter, what Take returned, responder popped by the recheck
          upc, uhand, uresp,   \* invoke: program counter, what Take returned, responder popped
          pending,    \* results[id]: indexes with a result channel
          result,     \* per call: 0 or the index whose result was put into its channel
          outcome,    \* per call: "" | "resp" | "timeout"
          fetched,    \* sequence of call indexes the provider has received
          executed,   \* set of call indexes executed by the provider and not yet reported
          reported,   \* set of call indexes whose result the provider has reported with end()
          cur,        \* number of polls started
          stopped     \* why the provider has left Listen: "" (it has not) | "nil" | "empty"
vars == <<cache, reg, chan, ppc, phand, presp, upc, uhand, uresp, pending, result, outcome, fetched, executed, reported, cur, stopped>>

Init == /\ cache = <<>> /\ reg = 0
        /\ chan = [r \in Polls |-> None]
        /\ ppc = [r \in Polls |-> "idle"] /\ phand = [r \in Polls |-> <<>>] /\ presp = [r \in Polls |-> 0]
        /\ upc = [i \in Calls |-> "idle"] /\ uhand = [i \in Calls |-> <<>>] /\ uresp = [i \in Calls |-> 0]
        /\ pending = {} /\ result = [i \in Calls |-> 0] /\ outcome = [i \in Calls |-> ""]
        /\ fetched = <<>> /\ executed = {} /\ reported = {} /\ cur = 0 /\ stopped = ""

Range(s) == {s[i] : i \in DOMAIN s}

\* ---- the provider's polls: poll r+1 is issued only after poll r has returned, and not after a stop
PStart(r) == /\ ppc[r] = "idle" /\ cur = r - 1 /\ (r > 1 => ppc[r - 1] = "done") /\ stopped = ""
             /\ cur' = r /\ ppc' = [ppc EXCEPT ![r] = "popold"]
             /\ UNCHANGED <<cache, reg, chan, phand, presp, upc, uhand, uresp, pending, result, outcome, fetched, executed, reported, stopped>>

\* c.stop: responders.Pop(id) and `<- nil` to it
PPopOld(r) == /\ ppc[r] = "popold"
              /\ IF reg # 0 THEN /\ chan[reg] = None
                                 /\ chan' = [chan EXCEPT ![reg] = Nil] /\ reg' = 0
                 ELSE UNCHANGED <<chan, reg>>
              /\ ppc' = [ppc EXCEPT ![r] = "take"]
              /\ UNCHANGED <<cache, phand, presp, upc, uhand, uresp, pending, result, outcome, fetched, executed, reported, cur, stopped>>

\* send(): calls.Take()
PTake(r) == /\ ppc[r] = "take"
            /\ phand' = [phand EXCEPT ![r] = cache] /\ cache' = <<>>
            /\ ppc' = [ppc EXCEPT ![r] = IF cache = <<>> THEN "register" ELSE "put"]
            /\ UNCHANGED <<reg, chan, presp, upc, uhand, uresp, pending, result, outcome, fetched, executed, reported, cur, stopped>>

PPut(r) == /\ ppc[r] = "put" /\ chan[r] = None
           /\ chan' = [chan EXCEPT ![r] = Batch(phand[r])] /\ phand' = [phand EXCEPT ![r] = <<>>]
           /\ ppc' = [ppc EXCEPT ![r] = "wait"]
           /\ UNCHANGED <<cache, reg, presp, upc, uhand, uresp, pending, result, outcome, fetched, executed, reported, cur, stopped>>

\* responders.Upsert(id, responder, kick the one already there)
PRegister(r) == /\ ppc[r] = "register"
                /\ IF reg # 0 THEN chan[reg] = None /\ chan' = [chan EXCEPT ![reg] = Nil] ELSE UNCHANGED chan
                /\ reg' = r /\ ppc' = [ppc EXCEPT ![r] = IF FixWake THEN "check" ELSE "wait"]
                /\ UNCHANGED <<cache, phand, presp, upc, uhand, uresp, pending, result, outcome, fetched, executed, reported, cur, stopped>>

\* repaired: once the responder is registered (again), look at the queue again; a call queued since the
\* Take found no responder to wake
PCheck(r) == /\ ppc[r] = "check"
             /\ ppc' = [ppc EXCEPT ![r] = IF cache # <<>> THEN "rpop" ELSE "wait"]
             /\ UNCHANGED <<cache, reg, chan, phand, presp, upc, uhand, uresp, pending, result, outcome, fetched, executed, reported, cur, stopped>>

\* response(id) by the poll itself
PRPop(r) == /\ ppc[r] = "rpop"
            /\ IF reg # 0 THEN presp' = [presp EXCEPT ![r] = reg] /\ reg' = 0 /\ ppc' = [ppc EXCEPT ![r] = "rtake"]
               ELSE ppc' = [ppc EXCEPT ![r] = "wait"] /\ UNCHANGED <<presp, reg>>
            /\ UNCHANGED <<cache, chan, phand, upc, uhand, uresp, pending, result, outcome, fetched, executed, reported, cur, stopped>>
PRTake(r) == /\ ppc[r] = "rtake"
             /\ phand' = [phand EXCEPT ![r] = cache] /\ cache' = <<>>
             /\ ppc' = [ppc EXCEPT ![r] = IF cache = <<>> THEN "rrereg" ELSE "rput"]
             /\ UNCHANGED <<reg, chan, presp, upc, uhand, uresp, pending, result, outcome, fetched, executed, reported, cur, stopped>>
PRPut(r) == /\ ppc[r] = "rput" /\ chan[presp[r]] = None
            /\ chan' = [chan EXCEPT ![presp[r]] = Batch(phand[r])] /\ phand' = [phand EXCEPT ![r] = <<>>]
            /\ ppc' = [ppc EXCEPT ![r] = "wait"]
            /\ UNCHANGED <<cache, reg, presp, upc, uhand, uresp, pending, result, outcome, fetched, executed, reported, cur, stopped>>
PRRereg(r) == /\ ppc[r] = "rrereg"
              /\ IF reg = 0 THEN reg' = presp[r] /\ UNCHANGED chan /\ ppc' = [ppc EXCEPT ![r] = "check"]
                 ELSE chan[presp[r]] = None /\ chan' = [chan EXCEPT ![presp[r]] = Nil] /\ UNCHANGED reg
                      /\ ppc' = [ppc EXCEPT ![r] = "wait"]
              /\ UNCHANGED <<cache, phand, presp, upc, uhand, uresp, pending, result, outcome, fetched, executed, reported, cur, stopped>>

\* the poll returns v to the provider: calls are fetched; null stops the provider; so does an empty list
\* unless FixStop
Return(r, v) == /\ fetched' = IF v[1] = "calls" THEN fetched \o v[2] ELSE fetched
                /\ stopped' = IF stopped # "" THEN stopped
                               ELSE IF v = Nil THEN "nil"
                               ELSE IF ~FixStop /\ v = Batch(<<>>) THEN "empty" ELSE ""
                /\ ppc' = [ppc EXCEPT ![r] = "done"]

PWait(r) == /\ ppc[r] \in {"wait", "timedout", "gaveup"} /\ chan[r] # None
            /\ Return(r, chan[r]) /\ chan' = [chan EXCEPT ![r] = None]
            /\ UNCHANGED <<cache, reg, phand, presp, upc, uhand, uresp, pending, result, outcome, executed, reported, cur>>

\* <-ctx.Done() of the idle time-out
PTimeout(r) == /\ ppc[r] = "wait"
               /\ ppc' = [ppc EXCEPT ![r] = IF FixIdle THEN "timedout" ELSE "giveup"]
               /\ UNCHANGED <<cache, reg, chan, phand, presp, upc, uhand, uresp, pending, result, outcome, fetched, executed, reported, cur, stopped>>

\* original: `responder <- emptyCall` (blocks while the slot is taken), then `return <-responder`
PGiveUp(r) == /\ ppc[r] = "giveup" /\ chan[r] = None
              /\ chan' = [chan EXCEPT ![r] = Batch(<<>>)] /\ ppc' = [ppc EXCEPT ![r] = "gaveup"]
              /\ UNCHANGED <<cache, reg, phand, presp, upc, uhand, uresp, pending, result, outcome, fetched, executed, reported, cur, stopped>>

\* repaired: remove the responder only if it is still the registered one
PAbandon(r) == /\ ppc[r] = "timedout" /\ reg = r
               /\ reg' = 0 /\ Return(r, Batch(<<>>))
               /\ UNCHANGED <<cache, chan, phand, presp, upc, uhand, uresp, pending, result, outcome, executed, reported, cur>>

\* ---- the provider executes what it fetched and reports it: end() puts the result into the channel of
\* ---- the index if it is still pending
PExecute(i) == /\ i \in Range(fetched) /\ i \notin executed \cup reported
               /\ executed' = executed \cup {i}
               /\ UNCHANGED <<cache, reg, chan, ppc, phand, presp, upc, uhand, uresp, pending, result, outcome, fetched, reported, cur, stopped>>
PEnd(i) == /\ i \in executed
           /\ executed' = executed \ {i} /\ reported' = reported \cup {i}
           /\ IF i \in pending THEN result' = [result EXCEPT ![i] = i] /\ pending' = pending \ {i}
              ELSE UNCHANGED <<result, pending>>
           /\ UNCHANGED <<cache, reg, chan, ppc, phand, presp, upc, uhand, uresp, outcome, fetched, cur, stopped>>

\* ---- Invoke
\* calls.Append and results.Set are two steps; FixOrder decides which comes first
UAppend(i) == /\ upc[i] = (IF FixOrder THEN "append" ELSE "idle")
              /\ cache' = Append(cache, i)
              /\ upc' = [upc EXCEPT ![i] = IF FixOrder THEN "pop" ELSE "setres"]
              /\ UNCHANGED <<reg, chan, ppc, phand, presp, uhand, uresp, pending, result, outcome, fetched, executed, reported, cur, stopped>>
USetRes(i) == /\ upc[i] = (IF FixOrder THEN "idle" ELSE "setres")
              /\ pending' = pending \cup {i}
              /\ upc' = [upc EXCEPT ![i] = IF FixOrder THEN "append" ELSE "pop"]
              /\ UNCHANGED <<cache, reg, chan, ppc, phand, presp, uhand, uresp, result, outcome, fetched, executed, reported, cur, stopped>>

UPop(i) == /\ upc[i] = "pop"
           /\ IF reg # 0 THEN uresp' = [uresp EXCEPT ![i] = reg] /\ reg' = 0 /\ upc' = [upc EXCEPT ![i] = "take"]
              ELSE upc' = [upc EXCEPT ![i] = "await"] /\ UNCHANGED <<uresp, reg>>
           /\ UNCHANGED <<cache, chan, ppc, phand, presp, uhand, pending, result, outcome, fetched, executed, reported, cur, stopped>>

UTake(i) == /\ upc[i] = "take"
            /\ uhand' = [uhand EXCEPT ![i] = cache] /\ cache' = <<>>
            /\ upc' = [upc EXCEPT ![i] = IF cache = <<>> THEN "rereg" ELSE "put"]
            /\ UNCHANGED <<reg, chan, ppc, phand, presp, uresp, pending, result, outcome, fetched, executed, reported, cur, stopped>>

UPut(i) == /\ upc[i] = "put" /\ chan[uresp[i]] = None
           /\ chan' = [chan EXCEPT ![uresp[i]] = Batch(uhand[i])] /\ uhand' = [uhand EXCEPT ![i] = <<>>]
           /\ upc' = [upc EXCEPT ![i] = "await"]
           /\ UNCHANGED <<cache, reg, ppc, phand, presp, uresp, pending, result, outcome, fetched, executed, reported, cur, stopped>>

URereg(i) == /\ upc[i] = "rereg"
             /\ IF reg = 0 THEN reg' = uresp[i] /\ UNCHANGED chan
                                 /\ upc' = [upc EXCEPT ![i] = IF FixWake THEN "check" ELSE "await"]
                ELSE chan[uresp[i]] = None /\ chan' = [chan EXCEPT ![uresp[i]] = Nil] /\ UNCHANGED reg
                     /\ upc' = [upc EXCEPT ![i] = "await"]
             /\ UNCHANGED <<cache, ppc, phand, presp, uhand, uresp, pending, result, outcome, fetched, executed, reported, cur, stopped>>

UCheck(i) == /\ upc[i] = "check"
             /\ upc' = [upc EXCEPT ![i] = IF cache # <<>> THEN "pop" ELSE "await"]
             /\ UNCHANGED <<cache, reg, chan, ppc, phand, presp, uhand, uresp, pending, result, outcome, fetched, executed, reported, cur, stopped>>

URecv(i) == /\ upc[i] = "await" /\ result[i] # 0
            /\ outcome' = [outcome EXCEPT ![i] = "resp"] /\ upc' = [upc EXCEPT ![i] = "done"]
            /\ UNCHANGED <<cache, reg, chan, ppc, phand, presp, uhand, uresp, pending, result, fetched, executed, reported, cur, stopped>>

\* the call's own Timeout: calls.Delete(index); results.Delete(index)
UTimeout(i) == /\ CallTimeouts /\ upc[i] = "await" /\ result[i] = 0
               /\ cache' = SelectSeq(cache, LAMBDA x : x # i) /\ pending' = pending \ {i}
               /\ outcome' = [outcome EXCEPT ![i] = "timeout"] /\ upc' = [upc EXCEPT ![i] = "done"]
               /\ UNCHANGED <<reg, chan, ppc, phand, presp, uhand, uresp, result, fetched, executed, reported, cur, stopped>>

PollStep(r) == PStart(r) \/ PPopOld(r) \/ PTake(r) \/ PPut(r) \/ PRegister(r) \/ PCheck(r) \/ PRPop(r) \/ PRTake(r) \/ PRPut(r)
               \/ PRRereg(r) \/ PWait(r) \/ PGiveUp(r) \/ PAbandon(r)
CallStep(i) == UAppend(i) \/ USetRes(i) \/ UPop(i) \/ UTake(i) \/ UPut(i) \/ URereg(i) \/ UCheck(i) \/ URecv(i)
ProvStep(i) == PExecute(i) \/ PEnd(i)
Next == (\E r \in Polls : PollStep(r) \/ PTimeout(r)) \/ (\E i \in Calls : CallStep(i) \/ ProvStep(i) \/ UTimeout(i))
Spec == Init /\ [][Next]_vars

---------------------------------------------------------------------------
InChan(r) == IF chan[r] # None /\ chan[r][1] = "calls" THEN chan[r][2] ELSE <<>>

\* a queued call never ends in the channel of a poll that has returned
NoDeadLetter == \A r \in Polls : ppc[r] = "done" => InChan(r) = <<>>

\* a poll never blocks writing its own answer: its slot is free when it gives up
NoStuckPoll == \A r \in Polls : ppc[r] = "giveup" => chan[r] = None

\* every call that has been queued and not given up is in exactly one place
Holders(i) == (IF i \in Range(cache) THEN 1 ELSE 0) + (IF i \in Range(fetched) THEN 1 ELSE 0)
              + Cardinality({r \in Polls : i \in Range(phand[r]) \/ i \in Range(InChan(r))})
              + Cardinality({j \in Calls : i \in Range(uhand[j])})
Conservation == \A i \in Calls : upc[i] \notin {"idle", "append"} /\ outcome[i] # "timeout" => Holders(i) = 1

\* C09: a call returns the result of its own index, produced by the provider for a call it fetched
OwnResult == \A i \in Calls : /\ result[i] \in {0, i}
                              /\ (result[i] # 0 => i \in Range(fetched))
                              /\ (outcome[i] = "resp" => result[i] = i)

\* a result the provider has reported reaches the caller that has not given up
NoLostResult == \A i \in Calls : (i \in reported /\ outcome[i] # "timeout") => result[i] = i

\* only null stops the provider: an idle time-out does not
ProviderPolls == stopped # "empty"

\* no call stays queued while a registered poll waits and nobody is about to hand it over
Busy == (\E i \in Calls : upc[i] \in {"append", "setres", "pop", "take", "put", "rereg", "check"})
        \/ (\E r \in Polls : ppc[r] \in {"popold", "take", "put", "register", "check", "rpop", "rtake", "rput", "rrereg"})
NoSleepingCall == (~Busy /\ reg # 0 /\ ppc[reg] = "wait") => cache = <<>>

\* when everything has run to completion, every call that did not give up has been fetched or is still queued
AllDone == (\A r \in Polls : ppc[r] = "done") /\ (\A i \in Calls : upc[i] \in {"await", "done"})
NothingLost == AllDone => \A i \in Calls : outcome[i] # "timeout" => i \in Range(fetched) \cup Range(cache)

\* liveness: a timed-out poll never spins for ever; a poll whose slot is filled returns; a fetched call returns
LiveSpec == Spec /\ (\A r \in Polls : WF_vars(PollStep(r))) /\ (\A i \in Calls : WF_vars(CallStep(i)) /\ WF_vars(ProvStep(i)))
TimedOutReturns == \A r \in Polls : (ppc[r] = "timedout") ~> (ppc[r] = "done")
WaitingIsServed == \A r \in Polls : (ppc[r] = "wait" /\ chan[r] # None) ~> (ppc[r] = "done")
FetchedReturns == \A i \in Calls : (i \in Range(fetched) /\ upc[i] = "await") ~> (upc[i] = "done")
=============================================================================
