SPECIFICATION LiveSpec
CONSTANTS
  Polls <- R3
  Calls <- I2
  FixIdle = TRUE
  FixStop = TRUE
  FixOrder = TRUE
  FixWake = TRUE
  CallTimeouts = FALSE
PROPERTIES TimedOutReturns WaitingIsServed FetchedReturns
CHECK_DEADLOCK FALSE
