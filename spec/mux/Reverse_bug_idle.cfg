SPECIFICATION Spec
CONSTANTS
  Polls <- R3
  Calls <- I2
  FixIdle = FALSE
  FixStop = TRUE
  FixOrder = TRUE
  FixWake = TRUE
  CallTimeouts = TRUE
INVARIANTS NoDeadLetter NoStuckPoll NothingLost
CHECK_DEADLOCK FALSE
