SPECIFICATION Spec
CONSTANTS
  Callers <- C2
  MaxConns = 2
  IdxMod = 4
  MaxCalls = 1
  NoDeadline <- ND12
  Faults = FALSE
  Aborts = 1
  Dups = 0
  Strays = 0
  FixClosed = TRUE
  FixCancel = FALSE
  FixWrap = TRUE
INVARIANTS NoLeakedSender
CHECK_DEADLOCK FALSE
