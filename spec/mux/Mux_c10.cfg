SPECIFICATION Spec
CONSTANTS
  Callers <- C2
  MaxConns = 2
  IdxMod = 4
  MaxCalls = 1
  NoDeadline <- ND1
  Faults = TRUE
  Aborts = 1
  Dups = 0
  Strays = 0
  FixClosed = TRUE
  FixCancel = TRUE
  FixWrap = TRUE
INVARIANTS OwnResponse NoOrphan NoLeakedSender CleanAtQuiescence ReusableAfterFailure
CHECK_DEADLOCK FALSE
