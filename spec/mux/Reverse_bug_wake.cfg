SPECIFICATION Spec
CONSTANTS
  Polls <- R3
  Calls <- I2
  FixIdle = TRUE
  FixStop = TRUE
  FixOrder = TRUE
  FixWake = FALSE
  CallTimeouts = TRUE
INVARIANTS NoSleepingCall
CHECK_DEADLOCK FALSE
