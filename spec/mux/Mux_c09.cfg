SPECIFICATION Spec
CONSTANTS
  Callers <- C3
  MaxConns = 1
  IdxMod = 4
  MaxCalls = 1
  NoDeadline <- ND123
  Faults = FALSE
  Aborts = 0
  Dups = 1
  Strays = 1
  FixClosed = TRUE
  FixCancel = TRUE
  FixWrap = TRUE
INVARIANTS OwnResponse NoOrphan NoLeakedSender CleanAtQuiescence ReusableAfterFailure
CHECK_DEADLOCK FALSE
