----------------------------- MODULE MuxMonitor -----------------------------
(***************************************************************************)
(* Properties C09 and C10 over the observable alphabet of a client:        *)
(*   callB(c, n)            caller c issues its n-th call; the request     *)
(*                          payload names (c, n)                           *)
(*   answer(c, n)           the peer sent a response to the request that   *)
(*                          names (c, n) (logged before it is written)     *)
(*   ret(c, n, kind, rc, rn, ms, bound)                                    *)
(*                          the call returned after ms milliseconds; kind  *)
(*                          "resp": a response whose payload names         *)
(*                          (rc, rn); kind "err": an error                 *)
(*   hang(c, n)             the call had not returned when the harness     *)
(*                          stopped waiting (two orders of magnitude above *)
(*                          the normal latency)                            *)
(*   quiesce(pending, leak, pooled)  all calls have returned: pending-table*)
(*                          entries over all connections seen, goroutines  *)
(*                          above the baseline, pooled connections         *)
(*   fresh(ok)              a later call on the same client to a healthy   *)
(*                          server succeeded                               *)
(* C09: ret(resp) only with (rc, rn) = (c, n) and only after answer(c, n); *)
(* with a healthy peer every call returns its response.                    *)
(* C10: no hang; ms <= bound (bound is the call's deadline plus slack, or  *)
(* the prompt-return allowance after a lost connection / Abort); nothing   *)
(* accumulates at quiescence; the client stays usable.                     *)
(***************************************************************************)
EXTENDS Integers, Sequences, FiniteSets, TLC

\* healthy: the peer answers every request and no fault is injected (and the
\* transport does not lose datagrams): then every call gets its response, an
\* error return is a lost call - unless the caller itself set a deadline shorter than the peer's scripted
\* delay (ret.expected).
MMInit(e) == [active |-> {}, answered |-> {}, mustfail |-> e.mustfail,
              healthy |-> IF "healthy" \in DOMAIN e THEN e.healthy ELSE FALSE]

MMStep(s, e) ==
    CASE e.ev = "callB" ->
            IF <<e.c, e.n>> \in s.active THEN {} ELSE {[s EXCEPT !.active = @ \cup {<<e.c, e.n>>}]}
      [] e.ev = "answer" -> {[s EXCEPT !.answered = @ \cup {<<e.c, e.n>>}]}
      [] e.ev = "ret" ->
            IF <<e.c, e.n>> \notin s.active \/ e.ms > e.bound THEN {}
            ELSE IF e.kind = "resp"
                 THEN IF e.rc = e.c /\ e.rn = e.n /\ <<e.c, e.n>> \in s.answered
                      THEN {[s EXCEPT !.active = @ \ {<<e.c, e.n>>}]} ELSE {}
                 ELSE IF s.healthy /\ ~("expected" \in DOMAIN e /\ e.expected) THEN {}
                 ELSE {[s EXCEPT !.active = @ \ {<<e.c, e.n>>}]}
      [] e.ev = "quiesce" ->
            IF s.active = {} /\ e.pending = 0 /\ e.leak <= 0 THEN {s} ELSE {}
      [] e.ev = "fresh" -> IF e.ok THEN {s} ELSE {}
      [] OTHER -> {}   \* hang, and anything unknown
=============================================================================
