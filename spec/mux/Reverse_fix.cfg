SPECIFICATION Spec
CONSTANTS
  Polls <- R3
  Calls <- I2
  FixIdle = TRUE
  FixStop = TRUE
  FixOrder = TRUE
  FixWake = TRUE
  CallTimeouts = TRUE
INVARIANTS NoDeadLetter NoStuckPoll Conservation OwnResult ProviderPolls NoSleepingCall NothingLost NoLostResult
CHECK_DEADLOCK FALSE
