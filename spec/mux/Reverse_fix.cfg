SPECIFICATION Spec
CONSTANTS
  Polls <- R3
  Calls <- I2
  FixIdle = TRUE
  FixStop = TRUE
  FixWake = TRUE
  CallTimeouts = TRUE
INVARIANTS NoDeadLetter NoStuckPoll Conservation OwnResult ProviderPolls NoSleepingCall NothingLost
CHECK_DEADLOCK FALSE
