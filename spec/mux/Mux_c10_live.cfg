SPECIFICATION LiveSpec
CONSTANTS
  Callers <- C2
  MaxConns = 2
  IdxMod = 4
  MaxCalls = 1
  NoDeadline <- ND1
  Faults = TRUE
  Aborts = 1
  Dups = 0
  Strays = 0
  FixClosed = TRUE
  FixCancel = TRUE
  FixWrap = TRUE
PROPERTY LostLeadsToReturn
CHECK_DEADLOCK FALSE
