SPECIFICATION Spec
CONSTANTS
  Polls <- R4
  Calls <- I3
  FixIdle = TRUE
  FixStop = TRUE
  FixWake = TRUE
  CallTimeouts = TRUE
INVARIANTS NoDeadLetter NoStuckPoll Conservation OwnResult ProviderPolls NoSleepingCall NothingLost
CHECK_DEADLOCK FALSE
