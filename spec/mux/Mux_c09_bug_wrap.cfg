SPECIFICATION Spec
CONSTANTS
  Callers <- C3
  MaxConns = 1
  IdxMod = 3
  MaxCalls = 2
  NoDeadline <- ND123
  Faults = FALSE
  Aborts = 0
  Dups = 0
  Strays = 0
  FixClosed = TRUE
  FixCancel = TRUE
  FixWrap = FALSE
INVARIANTS OwnResponse
CHECK_DEADLOCK FALSE
