----------------------------- MODULE PushMonitor -----------------------------
(***************************************************************************)
(* Property C19: every message the broker accepts for a subscribed client  *)
(* and topic is handed to that client exactly once and in acceptance order *)
(* per topic, and to nobody else.                                          *)
(*                                                                         *)
(* The monitor is the atomic broker: a publish of message m to client id   *)
(* takes effect at one instant between its pubB and its pubE (unit         *)
(* <<m, id, topic>>; a multicast or broadcast is one unit per target, as   *)
(* the broker loops over the targets); at that instant the unit is         *)
(* accepted iff id is subscribed to the topic, and accepted messages queue *)
(* up per (id, topic).  The instant is not observable, so before every     *)
(* observed event the monitor closes its state set under "some pending     *)
(* unit takes effect now" (LinClosure).                                    *)
(*   sub / unsub(id, topic, ok)   ok says whether the subscription changed *)
(*   subB(id, topic) / subE(id, topic, ok)   a subscribe whose instant is   *)
(*                                somewhere inside the call (something is  *)
(*                                published to the topic meanwhile, e.g.   *)
(*                                by the broker's OnSubscribe callback)    *)
(*   settled(id, topic)           the harness has waited for the callbacks *)
(*                                of everything accepted for (id, topic)   *)
(*   pubB(m, topic, ids)          a publish of m to the listed ids begins  *)
(*   pubE(m, okids)               it returned; okids = ids reported true   *)
(*   pollE(id, res)               a poll of id returned res: topic -> msgs *)
(*   lapse(id)                    the client id did not poll for longer    *)
(*                                than the heart beat                      *)
(*   drain(id)                    the harness has polled id until two      *)
(*                                consecutive polls came back empty, with  *)
(*                                no publish in flight                     *)
(* k(id, topic) = id \o "|" \o topic keys the queues.                      *)
(***************************************************************************)
EXTENDS Integers, Sequences, FiniteSets, TLC

Key(id, topic) == id \o "|" \o topic

PMInit(e) == [subs |-> {}, acc |-> <<>>, del |-> <<>>, open |-> {}, lin |-> {}, osub |-> {}, lsub |-> {}]
\* osub: subscribes begun that have not taken effect; lsub: <<id, topic, changed?>> taken effect, call not yet returned
\* lin: set of <<m, id, accepted?>> units that have taken effect

LinUnit(s, u) ==   \* u = <<m, id, topic>>
    LET k == Key(u[2], u[3]) IN
    IF k \in s.subs
    THEN [s EXCEPT !.open = @ \ {u}, !.lin = @ \cup {<<u[1], u[2], TRUE>>}, !.acc[k] = Append(@, u[1])]
    ELSE [s EXCEPT !.open = @ \ {u}, !.lin = @ \cup {<<u[1], u[2], FALSE>>}]

LinSub(s, p) ==    \* p = <<id, topic>>
    LET k == Key(p[1], p[2]) IN
    IF k \in s.subs
    THEN [s EXCEPT !.osub = @ \ {p}, !.lsub = @ \cup {<<p[1], p[2], FALSE>>}]
    ELSE [s EXCEPT !.osub = @ \ {p}, !.lsub = @ \cup {<<p[1], p[2], TRUE>>},
                   !.subs = @ \cup {k}, !.acc = (k :> <<>>) @@ @, !.del = (k :> 0) @@ @]

RECURSIVE LinClosure(_)
LinClosure(S) ==
    LET T2 == S \cup UNION {{LinUnit(s, u) : u \in s.open} : s \in S}
                 \cup UNION {{LinSub(s, p) : p \in s.osub} : s \in S} IN
    IF T2 = S THEN S ELSE LinClosure(T2)

Apply(s, e) ==
    CASE e.ev = "sub" ->
            LET k == Key(e.id, e.topic) IN
            IF e.ok # (k \notin s.subs) THEN {}
            ELSE IF e.ok THEN {[s EXCEPT !.subs = @ \cup {k}, !.acc = (k :> <<>>) @@ @, !.del = (k :> 0) @@ @]}
                 ELSE {s}
      [] e.ev = "unsub" ->
            LET k == Key(e.id, e.topic) IN
            IF e.ok # (k \in s.subs) THEN {}
            ELSE IF e.ok THEN {[s EXCEPT !.subs = @ \ {k},
                                         !.acc = [x \in (DOMAIN s.acc) \ {k} |-> s.acc[x]],
                                         !.del = [x \in (DOMAIN s.del) \ {k} |-> s.del[x]]]}
                 ELSE {s}
      [] e.ev = "subB" -> {[s EXCEPT !.osub = @ \cup {<<e.id, e.topic>>}]}
      [] e.ev = "subE" ->
            IF <<e.id, e.topic>> \in s.osub \/ <<e.id, e.topic, e.ok>> \notin s.lsub THEN {}
            ELSE {[s EXCEPT !.lsub = @ \ {<<e.id, e.topic, e.ok>>}]}
      [] e.ev = "settled" ->
            LET k == Key(e.id, e.topic) IN
            IF (\E u \in s.open : u[2] = e.id /\ u[3] = e.topic) THEN {}
            ELSE IF k \in s.subs => s.del[k] = Len(s.acc[k]) THEN {s} ELSE {}
      [] e.ev = "pubB" ->
            {[s EXCEPT !.open = @ \cup {<<e.m, e.ids[i], e.topic>> : i \in DOMAIN e.ids}]}
      [] e.ev = "pubE" ->
            \* every unit of m has taken effect, and the reported result is what happened
            IF \E u \in s.open : u[1] = e.m THEN {}
            ELSE LET okset == {e.okids[i] : i \in DOMAIN e.okids}
                     mine == {u \in s.lin : u[1] = e.m} IN
                 IF {u[2] : u \in {v \in mine : v[3]}} = okset THEN {s} ELSE {}
      [] e.ev = "pollE" ->
            LET ts == DOMAIN e.res
                good(t) == LET k == Key(e.id, t)
                               n == Len(e.res[t]) IN
                           /\ k \in s.subs
                           /\ s.del[k] + n <= Len(s.acc[k])
                           /\ \A i \in 1..n : e.res[t][i] = s.acc[k][s.del[k] + i] IN
            IF \A t \in ts : good(t)
            THEN {[s EXCEPT !.del = [k \in DOMAIN s.del |->
                        IF \E t \in ts : k = Key(e.id, t)
                        THEN s.del[k] + Len(e.res[CHOOSE t \in ts : k = Key(e.id, t)])
                        ELSE s.del[k]]]}
            ELSE {}
      [] e.ev = "lapse" ->
            \* the client let the heart beat pass: the broker may have taken it offline (all its
            \* subscriptions, with what was queued for them), or not (the heart beat only runs after a
            \* delivery); later events tell
            LET ks == {k \in s.subs : \E t \in {"t", "u"} : k = Key(e.id, t)} IN
            {s, [s EXCEPT !.subs = @ \ ks,
                          !.acc = [x \in (DOMAIN s.acc) \ ks |-> s.acc[x]],
                          !.del = [x \in (DOMAIN s.del) \ ks |-> s.del[x]]]}
      [] e.ev = "drain" ->
            IF s.open = {} /\ \A k \in s.subs : (\E t \in {e.topics[i] : i \in DOMAIN e.topics} : k = Key(e.id, t))
                                                    => s.del[k] = Len(s.acc[k])
            THEN {s} ELSE {}
      [] OTHER -> {}

PMStep(s, e) == UNION {Apply(t, e) : t \in LinClosure({s})}
=============================================================================
