--------------------------------- MODULE Push ---------------------------------
(***************************************************************************)
(* Implementation-shaped model of the long-poll hand-over in               *)
(* rpc/plugins/push/broker.go for one client id and one topic (the maps    *)
(* are keyed by id and by topic and the code paths never mix keys):        *)
(*   message()   a poll:  PopOld; Take; Put (own channel) | Register;      *)
(*               Wait | Timeout                                            *)
(*   Unicast()   a publish: Append; response(): Pop; Take; Put | ReRegister*)
(* Responders are one-slot channels.  `reg` is b.responders[id].           *)
(*                                                                         *)
(* Fix = FALSE is the original poll time-out: return {} and leave the      *)
(* responder registered.  Fix = TRUE is the repaired one: at the time-out  *)
(* the poll removes its responder only if it is still the registered one;  *)
(* when a publisher has taken it, the poll waits for what that publisher   *)
(* does with it (a result, nil, or registering it again).                  *)
(*                                                                         *)
(* FixHB = FALSE is the original heart beat, whose timer derives from the  *)
(* context of the request that caused the delivery (the poll's or the      *)
(* publisher's) and so fires when that request or its connection ends;     *)
(* FixHB = TRUE: it runs on its own timer.                                 *)
(*                                                                         *)
(* Checked: StaysOnline (a client that polls in time is never taken        *)
(* offline), NoDeadLetter (no accepted message ends in the channel of a     *)
(* poll that has returned), Conservation (every accepted message is in the *)
(* cache, in a hand, in a channel or delivered - exactly once), InOrder    *)
(* (what has been delivered is a prefix of what was accepted, when polls   *)
(* of the id do not overlap), and liveness: with polling continuing,       *)
(* every accepted message is eventually delivered.                         *)
(***************************************************************************)
EXTENDS Integers, Sequences, FiniteSets, TLC

CONSTANTS Polls,      \* poll instances, issued one after the other (1..n)
          Pubs,       \* publisher ids; publisher p publishes message p
          Fix,
          FixHB       \* the heart beat timer does not derive from the context of the request that started it

None == <<>>
VARIABLES cache, reg, chan, ppc, phand, upc, uhand, uresp, accepted, delivered, cur,
          hb,         \* the pending heart beat of the client: 0 none | BG (its own timer only) | the poll or
                      \* publisher whose request context it was started with
          gone,       \* polls and publishers whose request context has been cancelled (the request has
                      \* ended, or the connection has been closed)
          online      \* the client is subscribed (FALSE once the heart beat has taken it offline)
vars == <<cache, reg, chan, ppc, phand, upc, uhand, uresp, accepted, delivered, cur, hb, gone, online>>
BG == -1
\* doHeartBeat(ctx, id) started by w (a poll or a publisher)
StartHB(w) == hb' = IF FixHB THEN BG ELSE w

Init == /\ cache = <<>> /\ reg = 0
        /\ chan = [r \in Polls |-> None]          \* None | <<"nil">> | <<"msgs", seq>>
        /\ ppc = [r \in Polls |-> "idle"] /\ phand = [r \in Polls |-> <<>>]
        /\ upc = [p \in Pubs |-> "idle"] /\ uhand = [p \in Pubs |-> <<>>] /\ uresp = [p \in Pubs |-> 0]
        /\ accepted = <<>> /\ delivered = <<>> /\ cur = 0
        /\ hb = 0 /\ gone = {} /\ online = TRUE

Nil == <<"nil">>
Msgs(s) == <<"msgs", s>>

\* ---- polls: the client issues poll r+1 only after poll r has returned
PStart(r) == /\ ppc[r] = "idle" /\ cur = r - 1 /\ (r > 1 => ppc[r - 1] = "done")
             /\ cur' = r /\ ppc' = [ppc EXCEPT ![r] = "popold"]
             /\ UNCHANGED <<cache, reg, chan, phand, upc, uhand, uresp, accepted, delivered, hb, gone, online>>

\* responders.Pop(id) and `<- nil` to it (its channel is empty: only a popped responder is written to)
PPopOld(r) == /\ ppc[r] = "popold"
              /\ IF reg # 0 THEN /\ chan[reg] = None
                                 /\ chan' = [chan EXCEPT ![reg] = Nil] /\ reg' = 0
                 ELSE UNCHANGED <<chan, reg>>
              /\ ppc' = [ppc EXCEPT ![r] = "take"]
              /\ hb' = 0       \* signals.Pop(id): a new poll ends the pending heart beat
              /\ UNCHANGED <<cache, phand, upc, uhand, uresp, accepted, delivered, cur, gone, online>>

\* send(): cache.Take()
PTake(r) == /\ ppc[r] = "take"
            /\ phand' = [phand EXCEPT ![r] = cache] /\ cache' = <<>>
            /\ ppc' = [ppc EXCEPT ![r] = IF cache = <<>> THEN "register" ELSE "put"]
            /\ UNCHANGED <<reg, chan, upc, uhand, uresp, accepted, delivered, cur, hb, gone, online>>

PPut(r) == /\ ppc[r] = "put" /\ chan[r] = None
           /\ chan' = [chan EXCEPT ![r] = Msgs(phand[r])] /\ phand' = [phand EXCEPT ![r] = <<>>]
           /\ ppc' = [ppc EXCEPT ![r] = "wait"]
           /\ StartHB(r)
           /\ UNCHANGED <<cache, reg, upc, uhand, uresp, accepted, delivered, cur, gone, online>>

\* responders.Upsert(id, responder, kick the one already there)
PRegister(r) == /\ ppc[r] = "register"
                /\ IF reg # 0 THEN chan[reg] = None /\ chan' = [chan EXCEPT ![reg] = Nil] ELSE UNCHANGED chan
                /\ reg' = r /\ ppc' = [ppc EXCEPT ![r] = "wait"]
                /\ UNCHANGED <<cache, phand, upc, uhand, uresp, accepted, delivered, cur, hb, gone, online>>

Return(r, v) == /\ delivered' = IF v[1] = "msgs" THEN delivered \o v[2] ELSE delivered
                /\ ppc' = [ppc EXCEPT ![r] = "done"]

PWait(r) == /\ ppc[r] \in {"wait", "timedout"} /\ chan[r] # None
            /\ Return(r, chan[r]) /\ chan' = [chan EXCEPT ![r] = None]
            /\ UNCHANGED <<cache, reg, phand, upc, uhand, uresp, accepted, cur, hb, gone, online>>

\* <-ctx.Done()
PTimeout(r) == /\ ppc[r] = "wait"
               /\ IF Fix
                  THEN ppc' = [ppc EXCEPT ![r] = "timedout"] /\ UNCHANGED <<delivered, hb>>
                  ELSE Return(r, Nil) /\ hb' = BG
               /\ UNCHANGED <<cache, reg, chan, phand, upc, uhand, uresp, accepted, cur, gone, online>>

\* repaired time-out: remove the responder only if it is still the registered one
PAbandon(r) == /\ ppc[r] = "timedout" /\ reg = r
               /\ reg' = 0 /\ Return(r, Nil)
               /\ hb' = BG      \* go doHeartBeat(context.Background(), id)
               /\ UNCHANGED <<cache, chan, phand, upc, uhand, uresp, accepted, cur, gone, online>>

\* ---- publishers
UAppend(p) == /\ upc[p] = "idle"
              /\ IF online THEN /\ cache' = Append(cache, p) /\ accepted' = Append(accepted, p)
                                /\ upc' = [upc EXCEPT ![p] = "pop"]
                 ELSE /\ UNCHANGED <<cache, accepted>>           \* not subscribed: the publish reports false
                      /\ upc' = [upc EXCEPT ![p] = "done"]
              /\ UNCHANGED <<reg, chan, ppc, phand, uhand, uresp, delivered, cur, hb, gone, online>>

UPop(p) == /\ upc[p] = "pop"
           /\ IF reg # 0 THEN uresp' = [uresp EXCEPT ![p] = reg] /\ reg' = 0 /\ upc' = [upc EXCEPT ![p] = "take"]
              ELSE upc' = [upc EXCEPT ![p] = "done"] /\ UNCHANGED <<uresp, reg>>
           /\ UNCHANGED <<cache, chan, ppc, phand, uhand, accepted, delivered, cur, hb, gone, online>>

UTake(p) == /\ upc[p] = "take"
            /\ uhand' = [uhand EXCEPT ![p] = cache] /\ cache' = <<>>
            /\ upc' = [upc EXCEPT ![p] = IF cache = <<>> THEN "rereg" ELSE "put"]
            /\ UNCHANGED <<reg, chan, ppc, phand, uresp, accepted, delivered, cur, hb, gone, online>>

UPut(p) == /\ upc[p] = "put" /\ chan[uresp[p]] = None
           /\ chan' = [chan EXCEPT ![uresp[p]] = Msgs(uhand[p])] /\ uhand' = [uhand EXCEPT ![p] = <<>>]
           /\ upc' = [upc EXCEPT ![p] = "done"]
           /\ StartHB(p)
           /\ UNCHANGED <<cache, reg, ppc, phand, uresp, accepted, delivered, cur, gone, online>>

\* nothing to send: responders.SetIfAbsent(id, responder), else `<- nil`
URereg(p) == /\ upc[p] = "rereg"
             /\ IF reg = 0 THEN reg' = uresp[p] /\ UNCHANGED chan
                ELSE chan[uresp[p]] = None /\ chan' = [chan EXCEPT ![uresp[p]] = Nil] /\ UNCHANGED reg
             /\ upc' = [upc EXCEPT ![p] = "done"]
             /\ UNCHANGED <<cache, ppc, phand, uhand, uresp, accepted, delivered, cur, hb, gone, online>>

\* ---- contexts and the heart beat.  The client polls back to back, well within the heart beat, so the
\* ---- heart beat's own timer never fires; a heart beat started with a request's context also fires
\* ---- when that context is cancelled: when the request has ended (mock transport) or when the
\* ---- connection it came over is closed (a publisher may disconnect any time after its publish)
CtxCancel(w) == /\ w \notin gone
                /\ \/ w \in Polls /\ ppc[w] = "done"
                   \/ w \in Pubs /\ upc[w] = "done"
                /\ gone' = gone \cup {w}
                /\ UNCHANGED <<cache, reg, chan, ppc, phand, upc, uhand, uresp, accepted, delivered, cur, hb, online>>

\* <-ctx.Done() in doHeartBeat: the client is taken offline, what is queued for it is dropped
HBFire == /\ hb \notin {0, BG} /\ hb \in gone
          /\ online' = FALSE /\ cache' = <<>> /\ hb' = 0
          /\ UNCHANGED <<reg, chan, ppc, phand, upc, uhand, uresp, accepted, delivered, cur, gone>>

PollStep(r) == PStart(r) \/ PPopOld(r) \/ PTake(r) \/ PPut(r) \/ PRegister(r) \/ PWait(r) \/ PAbandon(r)
PubStep(p) == UAppend(p) \/ UPop(p) \/ UTake(p) \/ UPut(p) \/ URereg(p)
Next == (\E r \in Polls : PollStep(r) \/ PTimeout(r)) \/ (\E p \in Pubs : PubStep(p))
        \/ (\E w \in Polls \cup Pubs : CtxCancel(w)) \/ HBFire
Spec == Init /\ [][Next]_vars

---------------------------------------------------------------------------
InChan(r) == IF chan[r] # None /\ chan[r][1] = "msgs" THEN chan[r][2] ELSE <<>>
Range(s) == {s[i] : i \in DOMAIN s}

\* an accepted message never ends in the channel of a poll that has returned
NoDeadLetter == \A r \in Polls : ppc[r] = "done" => InChan(r) = <<>>

Holders(m) == (IF m \in Range(cache) THEN 1 ELSE 0) + (IF m \in Range(delivered) THEN 1 ELSE 0)
              + Cardinality({r \in Polls : m \in Range(phand[r]) \/ m \in Range(InChan(r))})
              + Cardinality({p \in Pubs : m \in Range(uhand[p])})
Conservation == \A m \in Range(accepted) : Holders(m) = 1

IsPrefix(s, t) == Len(s) <= Len(t) /\ \A i \in 1..Len(s) : s[i] = t[i]
InOrder == IsPrefix(delivered, accepted)

\* a client that polls within the heart beat is never taken offline
StaysOnline == online

\* liveness: under fairness of every code step, once all publishers are done and a poll starts afterwards,
\* everything accepted is delivered - stated on the last poll: when it is done, nothing is left undelivered
\* unless the cache still holds it for the next poll
AllDone == (\A r \in Polls : ppc[r] = "done") /\ (\A p \in Pubs : upc[p] = "done")
NothingLost == AllDone => Range(accepted) = Range(delivered) \cup Range(cache)

\* a timed-out poll never spins for ever: the publisher that holds its responder finishes its hand-over
LiveSpec == Spec /\ (\A r \in Polls : WF_vars(PollStep(r))) /\ (\A p \in Pubs : WF_vars(PubStep(p)))
TimedOutReturns == \A r \in Polls : (ppc[r] = "timedout") ~> (ppc[r] = "done")
WaitingIsServed == \A r \in Polls : (ppc[r] = "wait" /\ chan[r] # None) ~> (ppc[r] = "done")
=============================================================================
