SPECIFICATION Spec
CONSTANTS
  Loops <- L1
  Msgs = 3
  OneLoop = FALSE
  Dispatch = "async"
INVARIANTS InOrder ExactlyOnce
CHECK_DEADLOCK FALSE
