SPECIFICATION Spec
CONSTANTS
  Loops <- L1
  Msgs = 4
  OneLoop = FALSE
  Dispatch = "queue"
INVARIANTS InOrder ExactlyOnce
CHECK_DEADLOCK FALSE
