------------------------------ MODULE Prosumer ------------------------------
(***************************************************************************)
(* The client side of push (rpc/plugins/push/prosumer.go): poll loops and  *)
(* the hand-over of what they receive to the application's callbacks, for  *)
(* one client id and one topic.                                            *)
(*                                                                         *)
(* The broker is the atomic one of PushMonitor: accepted messages queue up *)
(* in acceptance order; a poll takes everything queued (a batch), or waits *)
(* if there is nothing; a poll that arrives while another poll of the id   *)
(* waits makes that one return nil.  Every Subscribe starts a poll loop    *)
(* (`go p.message()`); a loop ends when its poll returns nil.  So loops    *)
(* overlap for a while after a second Subscribe.                           *)
(*                                                                         *)
(* A loop: Poll (send the request) ; Receive (a batch or nil) ; hand the   *)
(* batch over ; again.  Dispatch selects the hand-over:                    *)
(*   "async"  the original: every batch in a goroutine of its own - the    *)
(*            messages of two batches reach the callback in any merge      *)
(*   "queue"  the repair (commit d7945ec): batches are queued in the order *)
(*            the loops hand them over and dispatched one after the other  *)
(*                                                                         *)
(* OneLoop = FALSE is the original loop per Subscribe; OneLoop = TRUE the   *)
(* second repair (commit d399bc2): a Subscribe starts a loop only if none  *)
(* is running.                                                             *)
(*                                                                         *)
(* Checked: InOrder - the callback sees the messages in acceptance order - *)
(* and ExactlyOnce.  With one loop "queue" has them and "async" does not   *)
(* (negative control).  With a loop per Subscribe (two alive at once after *)
(* a second Subscribe during traffic) even "queue" is overtaken between a  *)
(* loop's Receive and its hand-over: TLC shows that window in 8 steps      *)
(* (Prosumer_two_loops, negative control); it was then found in the real   *)
(* code by the driver's subscribe-during-traffic scenario (1 run in 8) and *)
(* closed by OneLoop.                                                      *)
(***************************************************************************)
EXTENDS Integers, Sequences, FiniteSets, TLC

CONSTANTS Loops,        \* poll loops that are started (1: one Subscribe; 2: a second Subscribe during traffic)
          Msgs,         \* number of messages published (1..Msgs in acceptance order)
          Dispatch,     \* "async" | "queue"
          OneLoop       \* a Subscribe starts a loop only if none is running

VARIABLES published,    \* how many messages have been accepted so far
          pending,      \* broker: accepted and not yet handed to a poll
          waiting,      \* broker: the loop whose poll waits (0: none)
          lpc,          \* loop: "off" | "idle" | "polling" | "got" | "ended"
          lbatch,       \* loop: what its poll returned (a sequence; <<>> stands for nil when kicked)
          lkicked,      \* loop: its waiting poll was kicked
          queue,        \* "queue": batches handed over, not yet dispatched
          running,      \* "async": batches being dispatched concurrently (each a sequence of remaining messages)
          seen          \* what the callback has seen
vars == <<published, pending, waiting, lpc, lbatch, lkicked, queue, running, seen>>

Init == /\ published = 0 /\ pending = <<>> /\ waiting = 0
        /\ lpc = [l \in Loops |-> IF l = 1 THEN "idle" ELSE "off"]
        /\ lbatch = [l \in Loops |-> <<>>] /\ lkicked = [l \in Loops |-> FALSE]
        /\ queue = <<>> /\ running = {} /\ seen = <<>>

Publish == /\ published < Msgs
           /\ published' = published + 1
           /\ IF waiting # 0
              THEN \* the waiting poll is answered at once
                   /\ lbatch' = [lbatch EXCEPT ![waiting] = <<published + 1>>]
                   /\ lpc' = [lpc EXCEPT ![waiting] = "got"] /\ waiting' = 0 /\ UNCHANGED pending
              ELSE pending' = Append(pending, published + 1) /\ UNCHANGED <<waiting, lpc, lbatch>>
           /\ UNCHANGED <<lkicked, queue, running, seen>>

\* a second Subscribe starts another loop
StartLoop(l) == /\ lpc[l] = "off"
                /\ (OneLoop => \A k \in Loops : lpc[k] \in {"off", "ended"})
                /\ lpc' = [lpc EXCEPT ![l] = "idle"]
                /\ UNCHANGED <<published, pending, waiting, lbatch, lkicked, queue, running, seen>>

\* the poll reaches the broker: a waiting poll of the same id is kicked; queued messages are taken, else wait
Poll(l) == /\ lpc[l] = "idle"
           /\ LET kick == waiting # 0 /\ waiting # l IN
              /\ lkicked' = IF kick THEN [lkicked EXCEPT ![waiting] = TRUE] ELSE lkicked
              /\ IF pending # <<>>
                 THEN /\ lbatch' = [lbatch EXCEPT ![l] = pending] /\ pending' = <<>>
                      /\ lpc' = IF kick THEN [lpc EXCEPT ![l] = "got", ![waiting] = "got"] ELSE [lpc EXCEPT ![l] = "got"]
                      /\ waiting' = 0
                 ELSE /\ lpc' = IF kick THEN [lpc EXCEPT ![l] = "polling", ![waiting] = "got"] ELSE [lpc EXCEPT ![l] = "polling"]
                      /\ waiting' = l /\ UNCHANGED <<lbatch, pending>>
           /\ UNCHANGED <<published, queue, running, seen>>

\* the loop has its poll's answer: nil ends it, a batch is handed over
HandOver(l) == /\ lpc[l] = "got"
               /\ IF lkicked[l] /\ lbatch[l] = <<>>
                  THEN /\ lpc' = [lpc EXCEPT ![l] = "ended"] /\ UNCHANGED <<queue, running>>
                  ELSE /\ lpc' = [lpc EXCEPT ![l] = "idle"]
                       /\ IF Dispatch = "queue" THEN queue' = Append(queue, lbatch[l]) /\ UNCHANGED running
                          ELSE running' = running \cup {lbatch[l]} /\ UNCHANGED queue
               /\ lbatch' = [lbatch EXCEPT ![l] = <<>>] /\ lkicked' = [lkicked EXCEPT ![l] = FALSE]
               /\ UNCHANGED <<published, pending, waiting, seen>>

\* the dispatcher: "queue" - the head batch, message by message; "async" - any running batch's next message
DispatchQueue == /\ Dispatch = "queue" /\ queue # <<>>
                 /\ seen' = Append(seen, Head(queue)[1])
                 /\ queue' = IF Len(Head(queue)) = 1 THEN Tail(queue) ELSE <<Tail(Head(queue))>> \o Tail(queue)
                 /\ UNCHANGED <<published, pending, waiting, lpc, lbatch, lkicked, running>>
DispatchAsync == /\ Dispatch = "async"
                 /\ \E b \in running :
                        /\ seen' = Append(seen, b[1])
                        /\ running' = (running \ {b}) \cup (IF Len(b) = 1 THEN {} ELSE {Tail(b)})
                 /\ UNCHANGED <<published, pending, waiting, lpc, lbatch, lkicked, queue>>

Next == Publish \/ DispatchQueue \/ DispatchAsync \/ (\E l \in Loops : StartLoop(l) \/ Poll(l) \/ HandOver(l))
Spec == Init /\ [][Next]_vars

\* the callback sees the messages of the topic in acceptance order
InOrder == \A i \in 1..Len(seen) : seen[i] = i
\* nothing is lost or duplicated on the way: every accepted message is in exactly one place
Places(m) == (IF \E i \in 1..Len(pending) : pending[i] = m THEN 1 ELSE 0)
             + Cardinality({l \in Loops : \E i \in 1..Len(lbatch[l]) : lbatch[l][i] = m})
             + Cardinality({j \in 1..Len(queue) : \E i \in 1..Len(queue[j]) : queue[j][i] = m})
             + Cardinality({b \in running : \E i \in 1..Len(b) : b[i] = m})
             + Cardinality({i \in 1..Len(seen) : seen[i] = m})
ExactlyOnce == \A m \in 1..published : Places(m) = 1
=============================================================================
