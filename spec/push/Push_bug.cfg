SPECIFICATION Spec
CONSTANTS
  Polls <- R3
  Pubs <- U2
  Fix = FALSE
  FixHB = TRUE
INVARIANTS StaysOnline NoDeadLetter Conservation InOrder NothingLost
CHECK_DEADLOCK FALSE
