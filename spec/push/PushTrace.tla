------------------------------ MODULE PushTrace ------------------------------
(* Trace validation of recorded broker executions against PushMonitor.     *)
EXTENDS TraceKit, FiniteSets
PM == INSTANCE PushMonitor
VARIABLES l, poss, cur, failed, skip
MInit(e) == {PM!PMInit(e)}
MStep(s, e) == PM!PMStep(s, e)
NoOne(e) == ""
INSTANCE TraceLoop WITH InitStates <- MInit, Step <- MStep, One <- NoOne
=============================================================================
