SPECIFICATION Spec
CONSTANTS
  Polls <- R3
  Pubs <- U2
  Fix = TRUE
INVARIANTS NoDeadLetter Conservation InOrder NothingLost
CHECK_DEADLOCK FALSE
