SPECIFICATION Spec
CONSTANTS
  Loops <- L2
  Msgs = 4
  OneLoop = TRUE
  Dispatch = "queue"
INVARIANTS InOrder ExactlyOnce
CHECK_DEADLOCK FALSE
