SPECIFICATION Spec
CONSTANTS
  Polls <- R3
  Pubs <- U2
  Fix = TRUE
  FixHB = FALSE
INVARIANTS StaysOnline NothingLost
CHECK_DEADLOCK FALSE
