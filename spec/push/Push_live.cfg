SPECIFICATION LiveSpec
CONSTANTS
  Polls <- R3
  Pubs <- U2
  Fix = TRUE
  FixHB = TRUE
PROPERTIES TimedOutReturns WaitingIsServed
CHECK_DEADLOCK FALSE
