SPECIFICATION Spec
CONSTANTS
  Loops <- L2
  Msgs = 3
  OneLoop = FALSE
  Dispatch = "queue"
INVARIANTS InOrder ExactlyOnce
CHECK_DEADLOCK FALSE
