SPECIFICATION Spec
CONSTANTS
  Polls <- R3
  Pubs <- U3
  Fix = TRUE
INVARIANTS NoDeadLetter Conservation InOrder NothingLost
CHECK_DEADLOCK FALSE
