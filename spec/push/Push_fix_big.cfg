SPECIFICATION Spec
CONSTANTS
  Polls <- R3
  Pubs <- U3
  Fix = TRUE
  FixHB = TRUE
INVARIANTS StaysOnline NoDeadLetter Conservation InOrder NothingLost
CHECK_DEADLOCK FALSE
