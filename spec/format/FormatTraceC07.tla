--------------------------- MODULE FormatTraceC07 ---------------------------
(* C07: every recorded RPC codec exchange is judged by RpcCodec!C07Why, or *)
(* by RpcCodec!JsonWhy for the JSON-RPC codec.                            *)
EXTENDS TraceKit, FiniteSets
RC == INSTANCE RpcCodec
VARIABLES l, poss, cur, failed, skip
NoInit(e) == {0}
NoStep(s, e) == {s}
Judge(e) == RC!C07Judge(e)
INSTANCE TraceLoop WITH InitStates <- NoInit, Step <- NoStep, One <- Judge
=============================================================================
