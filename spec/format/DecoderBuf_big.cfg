SPECIFICATION Spec
CONSTANTS
  MaxChars = 5
  Pats <- PatsBig
  Variant = "fixed"
INVARIANT Correct
CHECK_DEADLOCK FALSE
