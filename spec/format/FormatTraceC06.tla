--------------------------- MODULE FormatTraceC06 ---------------------------
(* C06: recorded conversions judged by FormatConv.                         *)
EXTENDS TraceKit, FiniteSets
FC == INSTANCE FormatConv
VARIABLES l, poss, cur, failed, skip
MInit(e) == FC!CInit(e)
MStep(s, e) == FC!CStep(s, e)
NoOne(e) == ""
INSTANCE TraceLoop WITH InitStates <- MInit, Step <- MStep, One <- NoOne
=============================================================================
