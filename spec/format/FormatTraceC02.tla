--------------------------- MODULE FormatTraceC02 ---------------------------
(* C02: every recorded round trip is judged by HproseFormat!C02OK.         *)
EXTENDS TraceKit, FiniteSets
HF == INSTANCE HproseFormat
VARIABLES l, poss, cur, failed, skip
NoInit(e) == {0}
NoStep(s, e) == {s}
Judge(e) == HF!C02Why(e)
INSTANCE TraceLoop WITH InitStates <- NoInit, Step <- NoStep, One <- Judge
=============================================================================
