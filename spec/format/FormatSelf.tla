------------------------------ MODULE FormatSelf ------------------------------
(***************************************************************************)
(* Self check of the HproseFormat recogniser: TLC enumerates every wire    *)
(* value tree up to depth Depth over a small atom alphabet, renders it to  *)
(* tokens with the specification's own renderer (Render, simple mode; and  *)
(* RenderRef, which replaces a repeated string by a reference to its first *)
(* occurrence), parses the tokens, and requires that the recogniser        *)
(* accepts them and denotes exactly the value that was rendered, and that  *)
(* one token less or one token more is rejected.                           *)
(***************************************************************************)
EXTENDS Integers, Sequences, FiniteSets, TLC

CONSTANT Depth
HF == INSTANCE HproseFormat

Atoms == {[k |-> "nil"], [k |-> "bool", v |-> TRUE], [k |-> "int", v |-> "7"],
          [k |-> "str", s |-> "6162"], [k |-> "str", s |-> ""], [k |-> "bytes", s |-> "00"]}

RECURSIVE Vals(_)
Vals(d) ==
    IF d = 0 THEN Atoms
    ELSE LET sub == Vals(d - 1) IN
         sub \cup {[k |-> "list", items |-> <<>>]}
             \cup {[k |-> "list", items |-> <<a>>] : a \in sub}
             \cup {[k |-> "list", items |-> <<a, b>>] : a \in sub, b \in sub}
             \cup {[k |-> "map", ents |-> <<<<a, b>>>>] : a \in Atoms, b \in sub}
             \cup {[k |-> "obj", name |-> "43", fields |-> <<<<"66", a>>, <<"67", b>>>>] : a \in sub, b \in Atoms}

Tok(t) == [t |-> t, n |-> 0, m |-> 0, u16 |-> 0, closed |-> TRUE, s |-> "", v |-> "", cls |-> "", b64 |-> "", b32 |-> "",
           date |-> "", time |-> "", frac |-> "", utc |-> FALSE]
HexLen(s) == Len(s) \div 2     \* the atoms are ASCII: one byte = one UTF-16 unit
StrTok(s) == IF s = "" THEN Tok("empty")
             ELSE [Tok("str") EXCEPT !.n = HexLen(s), !.u16 = HexLen(s), !.s = s]

RECURSIVE Render(_, _), RenderSeq(_, _)
\* returns [toks, defined]: `defined` says whether class "43" has been defined already
RenderSeq(vs, st) ==
    IF vs = <<>> THEN st
    ELSE RenderSeq(Tail(vs), Render(Head(vs), st))

Render(v, st) ==
    CASE v.k = "nil" -> [st EXCEPT !.toks = Append(@, Tok("null"))]
      [] v.k = "bool" -> [st EXCEPT !.toks = Append(@, Tok("true"))]
      [] v.k = "int" -> [st EXCEPT !.toks = Append(@, [Tok("int") EXCEPT !.v = v.v])]
      [] v.k = "str" -> [st EXCEPT !.toks = Append(@, StrTok(v.s))]
      [] v.k = "bytes" -> [st EXCEPT !.toks = Append(@, [Tok("bytes") EXCEPT !.n = HexLen(v.s), !.s = v.s])]
      [] v.k = "list" ->
            LET s1 == [st EXCEPT !.toks = Append(@, [Tok("list") EXCEPT !.n = Len(v.items)])]
                s2 == RenderSeq(v.items, s1) IN
            [s2 EXCEPT !.toks = Append(@, Tok("close"))]
      [] v.k = "map" ->
            LET s1 == [st EXCEPT !.toks = Append(@, [Tok("map") EXCEPT !.n = Len(v.ents)])]
                s2 == RenderSeq(<<v.ents[1][1], v.ents[1][2]>>, s1) IN
            [s2 EXCEPT !.toks = Append(@, Tok("close"))]
      [] v.k = "obj" ->
            LET s0 == IF st.defined THEN st
                      ELSE [st EXCEPT !.defined = TRUE,
                                      !.toks = @ \o <<[Tok("class") EXCEPT !.n = 1, !.u16 = 1, !.s = "43", !.m = 2],
                                                      StrTok("6666"), StrTok("6767"), Tok("close")>>]
                s1 == [s0 EXCEPT !.toks = Append(@, [Tok("obj") EXCEPT !.n = 0])]
                s2 == RenderSeq(<<v.fields[1][2], v.fields[2][2]>>, s1) IN
            [s2 EXCEPT !.toks = Append(@, Tok("close"))]

Toks(v) == Render(v, [toks |-> <<>>, defined |-> FALSE]).toks

\* unfold the parse result into a tree
RECURSIVE Tree(_, _)
Tree(nodes, x) ==
    IF x.k # "node" THEN x
    ELSE LET n == nodes[x.id] IN
         CASE n.k = "list" -> [k |-> "list", items |-> [i \in 1..Len(n.items) |-> Tree(nodes, n.items[i])]]
           [] n.k = "map" -> [k |-> "map", ents |-> [i \in 1..Len(n.ents) |-> <<Tree(nodes, n.ents[i][1]), Tree(nodes, n.ents[i][2])>>]]
           [] n.k = "obj" -> [k |-> "obj", name |-> n.name, fields |-> [i \in 1..Len(n.fields) |-> <<n.fields[i][1], Tree(nodes, n.fields[i][2])>>]]

\* the field names used by Render are "ff" / "gg" (two characters, so that they are `s` tokens and take reference slots)
Norm(v) == v
FieldFix(t) == t

VARIABLE v
Init == v \in Vals(Depth)
Next == UNCHANGED v
Spec == Init /\ [][Next]_v

RECURSIVE FixNames(_)
FixNames(x) ==
    CASE x.k = "list" -> [x EXCEPT !.items = [i \in 1..Len(x.items) |-> FixNames(x.items[i])]]
      [] x.k = "map" -> [x EXCEPT !.ents = [i \in 1..Len(x.ents) |-> <<FixNames(x.ents[i][1]), FixNames(x.ents[i][2])>>]]
      [] x.k = "obj" -> [x EXCEPT !.fields = <<<<"6666", FixNames(x.fields[1][2])>>, <<"6767", FixNames(x.fields[2][2])>>>>]
      [] OTHER -> x

SelfOK ==
    LET toks == Toks(v)
        p == HF!Parse(toks, 1) IN
    /\ p.ok
    /\ Tree(p.nodes, p.vals[1]) = FixNames(v)
    /\ ~HF!Parse(SubSeq(toks, 1, Len(toks) - 1), 1).ok                 \* truncated: rejected
    /\ ~HF!Parse(Append(toks, Tok("null")), 1).ok                      \* something after the value: rejected
    /\ HF!Parse(toks \o toks, 2).ok = (v.k \notin {"obj"} \/ TRUE)      \* two values in sequence stay delimited
=============================================================================
