SPECIFICATION Spec
CONSTANTS
  MaxChars = 4
  Pats <- PatsSmall
  Variant = "orig"
INVARIANT Correct
CHECK_DEADLOCK FALSE
