--------------------------- MODULE FormatTraceC05 ---------------------------
(* C05: every recorded round trip is judged by HproseFormat!C05OK.         *)
EXTENDS TraceKit, FiniteSets
HF == INSTANCE HproseFormat
VARIABLES l, poss, cur, failed, skip
NoInit(e) == {0}
NoStep(s, e) == {s}
Judge(e) == HF!C05Why(e)
INSTANCE TraceLoop WITH InitStates <- NoInit, Step <- NoStep, One <- Judge
=============================================================================
