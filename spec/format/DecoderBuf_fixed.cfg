SPECIFICATION Spec
CONSTANTS
  MaxChars = 4
  Pats <- PatsSmall
  Variant = "fixed"
INVARIANT Correct
CHECK_DEADLOCK FALSE
