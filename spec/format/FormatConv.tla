----------------------------- MODULE FormatConv -----------------------------
(***************************************************************************)
(* Property C06: the conversion matrix of the decoder.                     *)
(*                                                                         *)
(* A case is a cell (token form, destination type); its events are the     *)
(* positions the form was decoded at (top level, Decoder.Read, struct      *)
(* field, pointer field, slice element, map value, behind one and two      *)
(* pointers).  The form is parsed with the HproseFormat recogniser; from   *)
(* its denotation w, the destination and the facts the harness computed    *)
(* about the token independently of the library (does the integer fit      *)
(* which width, is it exactly representable as float32 / float64, is the   *)
(* text a decimal integer ...) Expect says what the destination must hold: *)
(*   "value"  the denoted value, exactly (ValueOK)                         *)
(*   "error"  the destination cannot represent it: the decoder must report *)
(*            an error - not a wrapped, truncated or zero value            *)
(*   "unspec" a lossy-by-design or library-specific conversion the         *)
(*            property does not pin down (anything -> bool, a fraction ->  *)
(*            integer, text -> float, null -> zero value ...)              *)
(* Always: no panic, no wild pointer, the canary words around the          *)
(* destination untouched, and the same outcome class at every position.    *)
(***************************************************************************)
EXTENDS Integers, Sequences, FiniteSets, TLC

HF == INSTANCE HproseFormat

DInt == {"int8", "int16", "int32", "int64", "int", "uint8", "uint16", "uint32", "uint64", "uint", "myint"}
DFloat == {"float32", "float64"}
DStr == {"string", "mystring"}
DIface == {"iface", "iface_opts"}     \* iface_opts: interface{} with ListTypeSlice and StructTypeValue
DSlice == {"slice_int", "slice_string", "slice_iface", "array2_int"}
DMap == {"map_string_int", "map_string_iface"}
DMapIdx == {"map_int_slice_int", "map_int_map_string_int"}   \* a list decodes into an int-keyed map: index -> element
DPlain == {"plain", "ptr_plain"}
DCont == DSlice \cup DMap \cup DMapIdx \cup DPlain

CInit(e) == LET p == HF!Parse(e.toks, 1) IN
            {[ok |-> p.ok, w |-> IF p.ok THEN p.vals[1] ELSE [k |-> "none"], nodes |-> p.nodes,
              facts |-> e.facts, dest |-> e.dest, first |-> ""]}

NodeOf(s, v) == s.nodes[v.id]
AllItems(s, v, kind) == \A i \in 1..Len(NodeOf(s, v).items) : NodeOf(s, v).items[i].k = kind
ItemsAre(s, v, P(_)) == \A i \in 1..Len(NodeOf(s, v).items) : P(NodeOf(s, v).items[i])
IntList(s, v) == v.k = "node" /\ NodeOf(s, v).k = "list" /\ AllItems(s, v, "int")
KeysStr(s, v) == \A i \in 1..Len(NodeOf(s, v).ents) : NodeOf(s, v).ents[i][1].k = "str"
ValsInt(s, v) == \A i \in 1..Len(NodeOf(s, v).ents) : NodeOf(s, v).ents[i][2].k = "int"
WK(s) == IF s.w.k = "node" THEN NodeOf(s, s.w).k ELSE s.w.k

PlainName == "506c61696e"
\* do the named values have the kinds of Plain's fields (a: int, b: string, c: real)?
NaturalPlain(s) ==
    LET n == NodeOf(s, s.w)
        ok(name, v) == (name = "61" => v.k = "int") /\ (name = "62" => v.k = "str") /\ (name = "63" => v.k = "real") IN
    IF n.k = "obj" THEN \A i \in 1..Len(n.fields) : ok(n.fields[i][1], n.fields[i][2])
    ELSE \A i \in 1..Len(n.ents) : ok(n.ents[i][1].s, n.ents[i][2])

Expect(s) ==
    LET d == s.dest
        f == s.facts
        fitsd == d \in DOMAIN f.fits /\ f.fits[d]
        k == WK(s) IN
    CASE k = "int" ->
            IF d \in DInt THEN (IF fitsd THEN "value" ELSE "error")
            ELSE IF d = "float32" THEN (IF f.f32exact THEN "value" ELSE "unspec")
            ELSE IF d = "float64" THEN (IF f.f64exact THEN "value" ELSE "unspec")
            ELSE IF d \in DStr \cup {"bigint", "bigrat"} THEN "value"
            ELSE IF d \in DIface THEN (IF f.fits["int"] THEN "value" ELSE "unspec")
            ELSE IF d \in {"bytes", "guid"} \cup DCont THEN "error"
            ELSE "unspec"        \* incl. time: the library reads a number as nanoseconds since the epoch
      [] k = "real" ->
            IF s.w.cls = "fin"
            THEN IF d = "float64" \/ d \in DIface THEN "value"
                 ELSE IF d = "float32" THEN (IF f.f32exact THEN "value" ELSE "unspec")
                 ELSE IF d \in DInt THEN (IF f.integral THEN (IF fitsd THEN "value" ELSE "error") ELSE "unspec")
                 ELSE IF d \in {"bytes", "guid"} \cup DCont THEN "error"
                 ELSE "unspec"
            ELSE IF d \in DFloat \cup DIface THEN "value"
                 ELSE IF d \in {"bytes", "guid"} \cup DCont THEN "error" ELSE "unspec"
      [] k = "bool" -> IF d \in {"bool"} \cup DIface THEN "value"
                       ELSE IF d \in {"bytes", "guid"} \cup DCont THEN "error" ELSE "unspec"
      [] k = "nil" -> IF d \in DIface THEN "value" ELSE "unspec"
      [] k = "str" ->
            IF d \in DStr \cup {"bytes"} \cup DIface THEN "value"
            ELSE IF s.w.s = "" THEN "unspec"      \* the empty string reads as the zero value of any type
            ELSE IF d \in DInt THEN (IF f.dec # "" THEN (IF fitsd THEN "value" ELSE "error") ELSE "error")
            ELSE IF d = "bigint" THEN (IF f.dec # "" THEN "value" ELSE "error")
            ELSE IF d = "guid" THEN (IF f.isguid THEN "unspec" ELSE "error")
            ELSE IF d \in DMap \cup DPlain THEN "error"
            ELSE "unspec"
      [] k = "bytes" ->
            IF d \in {"bytes"} \cup DIface THEN "value"
            ELSE IF d \in DStr THEN (IF f.validutf8 THEN "value" ELSE "unspec")
            ELSE IF d \in DMap \cup DPlain THEN "error"
            ELSE "unspec"
      [] k = "dt" -> IF d = "time" THEN "value" ELSE IF d \in DCont THEN "error" ELSE "unspec"
      [] k = "guid" -> IF d \in {"guid"} \cup DIface THEN "value" ELSE IF d \in DCont THEN "error" ELSE "unspec"
      [] k = "list" ->
            IF d \in {"slice_iface"} \cup DIface THEN "value"
            ELSE IF d = "slice_int" THEN (IF AllItems(s, s.w, "int") THEN "value" ELSE "unspec")
            ELSE IF d = "slice_string" THEN (IF AllItems(s, s.w, "str") THEN "value" ELSE "unspec")
            ELSE IF d = "array2_int" THEN (IF AllItems(s, s.w, "int") /\ Len(NodeOf(s, s.w).items) = 2 THEN "value" ELSE "unspec")
            ELSE IF d = "map_int_slice_int"
                 THEN (IF \A i \in 1..Len(NodeOf(s, s.w).items) : IntList(s, NodeOf(s, s.w).items[i]) THEN "value" ELSE "unspec")
            ELSE IF d = "map_int_map_string_int"
                 THEN (IF \A i \in 1..Len(NodeOf(s, s.w).items) :
                              LET it == NodeOf(s, s.w).items[i] IN
                              it.k = "node" /\ NodeOf(s, it).k = "map" /\ KeysStr(s, it) /\ ValsInt(s, it)
                       THEN "value" ELSE "unspec")
            ELSE IF d \in DMap \cup {"bytes", "complex128"} THEN "unspec"   \* a 2-list is how a complex number travels
            ELSE "error"
      [] k = "map" ->
            IF d \in DIface THEN "value"
            ELSE IF d = "map_string_iface" THEN (IF KeysStr(s, s.w) THEN "value" ELSE "unspec")
            ELSE IF d = "map_string_int" THEN (IF KeysStr(s, s.w) /\ ValsInt(s, s.w) THEN "value" ELSE "unspec")
            ELSE IF d \in DPlain THEN (IF KeysStr(s, s.w) /\ NaturalPlain(s) THEN "value" ELSE "unspec")
            ELSE IF d \in DSlice \cup DMapIdx THEN "unspec"
            ELSE "error"
      [] k = "obj" ->
            IF d \in DPlain THEN (IF NodeOf(s, s.w).name = PlainName /\ NaturalPlain(s) THEN "value" ELSE "unspec")
            ELSE IF d = "map_string_iface" THEN "value"
            ELSE IF d \in {"map_string_int"} \cup DIface \cup DSlice \cup DMapIdx THEN "unspec"
            ELSE "error"
      [] OTHER -> "unspec"

---------------------------------------------------------------------------
\* the wire graph as an abstract Go value graph (natural types)
RECURSIVE AsGoV(_)
AsGoV(v) ==
    CASE v.k = "node" -> [k |-> "node", id |-> v.id - 1]
      [] v.k = "real" -> [k |-> "real", w |-> 64, cls |-> v.cls, b |-> IF v.cls = "nan" THEN "nan" ELSE v.b64, b64s |-> v.b64]
      [] v.k = "str" -> [k |-> "str", s |-> v.s, valid |-> TRUE, u16 |-> 0]
      [] OTHER -> v
AsGoNode(n) ==
    CASE n.k = "list" -> [k |-> "list", items |-> [i \in 1..Len(n.items) |-> AsGoV(n.items[i])], isnil |-> FALSE]
      [] n.k = "map" -> [k |-> "map", ents |-> [i \in 1..Len(n.ents) |-> <<AsGoV(n.ents[i][1]), AsGoV(n.ents[i][2])>>], isnil |-> FALSE]
      [] n.k = "obj" -> [k |-> "struct", name |-> n.name, hname |-> n.name,
                         fields |-> [i \in 1..Len(n.fields) |-> <<n.fields[i][1], AsGoV(n.fields[i][2])>>]]
AsGoNodes(nodes) == [i \in 1..Len(nodes) |-> AsGoNode(nodes[i])]

\* Plain{A int; B string; C float64} from named values (an object's fields or a map's string keys)
Named(s) == LET n == NodeOf(s, s.w) IN
            IF n.k = "obj" THEN [i \in 1..Len(n.fields) |-> <<n.fields[i][1], n.fields[i][2]>>]
            ELSE [i \in 1..Len(n.ents) |-> <<n.ents[i][1].s, n.ents[i][2]>>]
Pick(named, name, zero) ==
    LET I == {i \in DOMAIN named : named[i][1] = name} IN
    IF I = {} THEN zero ELSE AsGoV(named[CHOOSE i \in I : TRUE][2])
PlainNode(s) ==
    [k |-> "struct", name |-> "Plain", hname |-> PlainName,
     fields |-> <<<<"61", Pick(Named(s), "61", [k |-> "int", v |-> "0"])>>,
                  <<"62", Pick(Named(s), "62", [k |-> "str", s |-> "", valid |-> TRUE, u16 |-> 0])>>,
                  <<"63", Pick(Named(s), "63", [k |-> "real", w |-> 64, cls |-> "fin", b |-> "0000000000000000", b64s |-> "0000000000000000"])>>>>]

PadNs(frac) == IF Len(frac) = 0 THEN "000000000" ELSE IF Len(frac) = 3 THEN frac \o "000000"
               ELSE IF Len(frac) = 6 THEN frac \o "000" ELSE frac

ValueOK(s, out) ==
    LET d == s.dest
        f == s.facts
        w == s.w
        r == out.root
        k == WK(s) IN
    IF d \in DInt THEN r.k = "int" /\ r.v = f.dec
    ELSE IF d = "float64" THEN r.k = "real" /\ (IF k = "real" THEN r.cls = w.cls /\ (w.cls = "fin" => r.b = w.b64) ELSE r.cls = "fin" /\ r.b = f.f64bits)
    ELSE IF d = "float32" THEN r.k = "real" /\ (IF k = "real" THEN r.cls = w.cls /\ (w.cls = "fin" => r.b = w.b32) ELSE r.cls = "fin" /\ r.b = f.f32bits)
    ELSE IF d \in DStr THEN r.k = "str" /\ (IF k = "int" THEN r.s = f.dechex ELSE r.s = w.s)
    ELSE IF d = "bytes" THEN (r.k = "bytes" /\ r.s = w.s)
    ELSE IF d = "bigint" THEN r.k = "bigint" /\ r.v = f.dec
    ELSE IF d = "bigrat" THEN r.k = "bigrat" /\ r.num = f.dec /\ r.den = "1"
    ELSE IF d = "bool" THEN r.k = "bool" /\ r.v = w.v
    ELSE IF d = "guid" THEN r.k = "guid" /\ r.v = w.v
    ELSE IF d = "time" THEN
            /\ r.k = "time" /\ r.utc = w.utc /\ r.ns = PadNs(w.frac)
            /\ LET dd == IF w.date = "" THEN "19700101" ELSE w.date
                   tt == IF w.time = "" THEN "000000" ELSE w.time IN
               IF w.utc THEN r.date = dd /\ r.time = tt ELSE r.local /\ r.ldate = dd /\ r.ltime = tt
    ELSE IF d \in DPlain THEN
            /\ r.k = "node"
            /\ HF!SV(<<PlainNode(s)>> \o AsGoNodes(s.nodes), [k |-> "node", id |-> 0], out.nodes, r, {}, {})
    ELSE IF d \in DMapIdx THEN    \* a list into an int-keyed map: element i under key i - 1
            LET g == AsGoNodes(s.nodes)
                ln == g[w.id]
                mn == [k |-> "map", isnil |-> FALSE,
                       ents |-> [i \in 1..Len(ln.items) |-> <<[k |-> "int", v |-> ToString(i - 1)], ln.items[i]>>]] IN
            r.k = "node" /\ HF!SV([g EXCEPT ![w.id] = mn], AsGoV(w), out.nodes, r, {}, {})
    ELSE \* interface{} and the container destinations: the natural Go value of the wire value
         IF k = "dt" THEN r.k = "time"
         ELSE HF!SV(AsGoNodes(s.nodes), AsGoV(w), out.nodes, r, {}, {})

CStep(s, e) ==
    IF ~s.ok THEN {}
    ELSE LET cls == IF e.panic # "none" THEN "panic" ELSE IF e.err # "none" THEN "error" ELSE "value"
             x == Expect(s) IN
         IF /\ e.panic = "none" /\ e.fault = "none" /\ e.canary
            /\ (x = "error" => cls = "error")
            /\ (x = "value" => cls = "value" /\ e.out.root.k # "absent" /\ ValueOK(s, e.out))
            \* the same outcome at every position (null at a pointer position is the nil pointer, whatever the type)
            /\ (s.first = "" \/ s.first = cls \/ (s.w.k = "nil" /\ e.pos \in {"ptrfield", "ptr", "ptrptr"}))
         THEN {[s EXCEPT !.first = IF s.w.k = "nil" /\ e.pos \in {"ptrfield", "ptr", "ptrptr"} THEN @ ELSE cls]}
         ELSE {}
=============================================================================
