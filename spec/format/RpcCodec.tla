------------------------------ MODULE RpcCodec ------------------------------
(***************************************************************************)
(* Property C07: the RPC codecs (rpc/core/client_codec.go,                 *)
(* service_codec.go).                                                      *)
(*                                                                         *)
(* A request is   [H <map>] C <string> [<list>] z                          *)
(* a response is  [H <map>] ( R <value> | E <string> ) z                   *)
(* and every segment (header map, method name, argument list, result) is   *)
(* its own reference scope: the encoder resets its reference and class     *)
(* tables between them and the decoder does the same, so a back-reference  *)
(* never crosses a segment.  The header "simple" is present (true) exactly *)
(* when the encoding side wrote without references, and it is the only     *)
(* header the codec adds.                                                  *)
(*                                                                         *)
(* RpcParse recognises a message with the HproseFormat recogniser started  *)
(* afresh for every segment.  C07Why judges one recorded exchange: the     *)
(* request is a well-formed request that denotes (name, arguments,         *)
(* headers); the service codec decoded the same method, equal headers      *)
(* (apart from "simple") and equal arguments; the response is a            *)
(* well-formed response that denotes the result or carries the error       *)
(* message; the client codec decoded an equal result in the declared       *)
(* return types, or an error with the same message.                        *)
(***************************************************************************)
EXTENDS Integers, Sequences, FiniteSets, TLC

HF == INSTANCE HproseFormat

Seg(toks, from) ==   \* one value in a fresh scope, starting at token index `from`
    LET r == HF!ParseVal(toks, [HF!St0 EXCEPT !.pos = from]) IN
    [ok |-> r.st.ok, why |-> r.st.why, val |-> r.val, nodes |-> r.st.nodes, next |-> r.st.pos]

TokAt(toks, i) == IF i <= Len(toks) THEN toks[i].t ELSE "eof"

\* [ok, why, hdr (segment or absent), name, args (segment or absent), kind, body]
RpcParseReq(toks) ==
    LET hasH == TokAt(toks, 1) = "hdr"
        h == IF hasH THEN Seg(toks, 2) ELSE [ok |-> TRUE, why |-> "", val |-> [k |-> "none"], nodes |-> <<>>, next |-> 1]
        c == h.next IN
    IF ~h.ok THEN [ok |-> FALSE, why |-> "header: " \o h.why]
    ELSE IF hasH /\ ~(h.val.k = "node" /\ h.nodes[h.val.id].k = "map") THEN [ok |-> FALSE, why |-> "header is not a map"]
    ELSE IF TokAt(toks, c) # "call" THEN [ok |-> FALSE, why |-> "no call tag"]
    ELSE LET n == Seg(toks, c + 1) IN
         IF ~n.ok \/ n.val.k # "str" THEN [ok |-> FALSE, why |-> "method name is not a string"]
         ELSE LET hasA == TokAt(toks, n.next) # "end"
                  a == IF hasA THEN Seg(toks, n.next) ELSE [ok |-> TRUE, why |-> "", val |-> [k |-> "none"], nodes |-> <<>>, next |-> n.next] IN
              IF ~a.ok THEN [ok |-> FALSE, why |-> "arguments: " \o a.why]
              ELSE IF hasA /\ ~(a.val.k = "node" /\ a.nodes[a.val.id].k = "list") THEN [ok |-> FALSE, why |-> "arguments are not a list"]
              ELSE IF TokAt(toks, a.next) # "end" \/ a.next # Len(toks) THEN [ok |-> FALSE, why |-> "no end tag where the message ends"]
              ELSE [ok |-> TRUE, why |-> "", hasH |-> hasH, hdr |-> h, name |-> n.val.s, hasA |-> hasA, args |-> a]

RpcParseResp(toks) ==
    LET hasH == TokAt(toks, 1) = "hdr"
        h == IF hasH THEN Seg(toks, 2) ELSE [ok |-> TRUE, why |-> "", val |-> [k |-> "none"], nodes |-> <<>>, next |-> 1]
        c == h.next IN
    IF ~h.ok THEN [ok |-> FALSE, why |-> "header: " \o h.why]
    ELSE IF TokAt(toks, c) = "result"
    THEN LET r == Seg(toks, c + 1) IN
         IF ~r.ok THEN [ok |-> FALSE, why |-> "result: " \o r.why]
         ELSE IF TokAt(toks, r.next) # "end" \/ r.next # Len(toks) THEN [ok |-> FALSE, why |-> "no end tag where the message ends"]
         ELSE [ok |-> TRUE, why |-> "", hasH |-> hasH, hdr |-> h, kind |-> "result", body |-> r]
    ELSE IF TokAt(toks, c) = "err"
    THEN LET r == Seg(toks, c + 1) IN
         IF ~r.ok \/ r.val.k # "str" THEN [ok |-> FALSE, why |-> "error message is not a string"]
         ELSE IF TokAt(toks, r.next) # "end" \/ r.next # Len(toks) THEN [ok |-> FALSE, why |-> "no end tag where the message ends"]
         ELSE [ok |-> TRUE, why |-> "", hasH |-> hasH, hdr |-> h, kind |-> "error", body |-> r]
    ELSE [ok |-> FALSE, why |-> "neither result nor error"]

\* is "simple" -> true among the entries of the header map segment?
SimpleHex == "73696d706c65"
HasSimple(p) ==
    p.hasH /\ \E i \in 1..Len(p.hdr.nodes[p.hdr.val.id].ents) :
                 LET en == p.hdr.nodes[p.hdr.val.id].ents[i] IN
                 en[1].k = "str" /\ en[1].s = SimpleHex /\ en[2].k = "bool" /\ en[2].v

WMseg(g, seg) == HF!WM(g.nodes, g.root, seg.nodes, seg.val, {})

C07Why(e) ==
    IF e.encerr # "none" THEN "client encode: " \o e.encerr
    ELSE LET q == RpcParseReq(e.reqtoks) IN
    IF ~q.ok THEN "request malformed: " \o q.why
    ELSE IF q.name # e.namehex THEN "request names another method"
    ELSE IF HasSimple(q) # e.csimple THEN "simple header does not match the client codec's mode"
    ELSE IF e.nargs > 0 /\ ~(q.hasA /\ WMseg(e.args, q.args)) THEN "request arguments denote other values"
    ELSE IF e.nargs = 0 /\ q.hasA /\ Len(q.args.nodes[q.args.val.id].items) # 0 THEN "request has arguments nobody passed"
    ELSE IF e.sdecerr # "none" THEN (IF e.expectsdecerr THEN "" ELSE "service decode: " \o e.sdecerr)
    ELSE IF e.sname # e.name THEN "service decoded another method name"
    ELSE IF ~HF!SameValue(e.hdr, e.shdr, {}) THEN "service decoded other headers"
    ELSE IF ~HF!SameValue(e.expargs, e.sargs, {}) THEN "service decoded other arguments"
    ELSE IF e.sencerr # "none" THEN "service encode: " \o e.sencerr
    ELSE LET r == RpcParseResp(e.resptoks) IN
    IF ~r.ok THEN "response malformed: " \o r.why
    ELSE IF HasSimple(r) # e.ssimple THEN "simple header does not match the service codec's mode"
    ELSE IF e.iserror
         THEN IF r.kind # "error" \/ r.body.val.s # e.errhex THEN "response does not carry the error message"
              ELSE IF e.cdecerr # e.errmsg THEN "client got another error: " \o e.cdecerr ELSE ""
    ELSE IF r.kind # "result" \/ ~WMseg(e.result, r.body) THEN "response denotes another result"
    ELSE IF e.cdecerr # "none" THEN "client decode: " \o e.cdecerr
    ELSE IF ~HF!SameValue(e.expresult, e.cresult, {}) THEN "client decoded another result"
    ELSE ""

---------------------------------------------------------------------------
(* The JSON-RPC 2.0 codec (rpc/codec/jsonrpc).  The harness parses the two  *)
(* messages as JSON (integers kept apart from other numbers) and projects   *)
(* params, headers and result; e.wire says whether what is on the wire can  *)
(* be compared with the values passed (not for structs: JSON keys are Go's  *)
(* field names).  A decode error of the service codec is what the service   *)
(* encodes as the response (Service.Handle), so the client must get it.     *)
JsonWhy(e) ==
    IF e.encerr # "none" THEN "client encode: " \o e.encerr
    ELSE IF ~e.req.ok THEN "request is not a JSON object"
    ELSE IF e.req.jsonrpc # "2.0" THEN "request is not JSON-RPC 2.0"
    ELSE IF e.req.method # e.name THEN "request names another method"
    ELSE IF e.wire /\ ~HF!SameValue(e.args, e.req.params, {}) THEN "request params denote other values"
    ELSE IF e.wire /\ ~HF!SameValue(e.hdr, e.req.headers, {}) THEN "request headers denote other values"
    ELSE IF e.sdecerr = "none" /\ e.sname # e.name THEN "service decoded another method name"
    ELSE IF e.sdecerr = "none" /\ ~HF!SameValue(e.args, e.sargs, {}) THEN "service decoded other arguments"
    ELSE IF ~HF!SameValue(e.hdr, e.shdr, {}) THEN "service decoded other headers"
    ELSE IF e.sencerr # "none" THEN "service encode: " \o e.sencerr
    ELSE IF ~e.resp.ok THEN "response is not a JSON object"
    ELSE IF e.resp.jsonrpc # "2.0" THEN "response is not JSON-RPC 2.0"
    ELSE IF e.resp.id # e.req.id THEN "response answers another id"
    ELSE IF e.iserror
         THEN IF ~e.resp.haserror \/ e.resp.hasresult THEN "response does not carry the error"
              ELSE IF e.cdecerr = "none" THEN "client got no error"
              ELSE IF e.cdecerr # e.errmsg THEN "client got another error: " \o e.cdecerr ELSE ""
    ELSE IF e.resp.haserror THEN "response carries an error nobody raised"
    ELSE IF e.wire /\ e.resp.hasresult /\ ~HF!SameValue(e.result, e.resp.result, {}) THEN "response denotes another result"
    ELSE IF e.cdecerr # "none" THEN "client decode: " \o e.cdecerr
    ELSE IF ~HF!SameValue(e.expresult, e.cresult, {}) THEN "client decoded another result"
    ELSE ""

C07Judge(e) == IF e.kind = "jsonrpc" THEN JsonWhy(e) ELSE C07Why(e)
=============================================================================
