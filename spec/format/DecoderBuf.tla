----------------------------- MODULE DecoderBuf -----------------------------
(***************************************************************************)
(* Transcription of the streaming string reader of io/string_decoder.go    *)
(* (Decoder.readStringAsBytes with Decoder.loadMore) over an abstract byte *)
(* alphabet: a stream is a sequence of characters of 1..4 bytes, a byte is *)
(* <<character index, byte index>>; the reader delivers the stream in      *)
(* chunks whose sizes follow the cyclic pattern Pat.                       *)
(*                                                                         *)
(* For every stream of up to MaxChars characters, every chunk pattern in   *)
(* Pats and every number of characters asked for, the bytes returned and   *)
(* the stream position afterwards must equal those of the one-chunk run    *)
(* (Expected), and no slice expression may leave its bounds (panic).       *)
(* Variant = "orig" is the code before the repair (the missing bytes of a  *)
(* cut character are sliced out of the next chunk unchecked): TLC finds    *)
(* the three-reads panic; Variant = "fixed" is the repaired loop.          *)
(***************************************************************************)
EXTENDS Integers, Sequences, FiniteSets, TLC

CONSTANTS MaxChars, Pats, Variant

Widths == 1..4
Bytes(ws) == \* the byte sequence of a character-width sequence
    LET RECURSIVE B(_, _)
        B(i, acc) == IF i > Len(ws) THEN acc
                     ELSE B(i + 1, acc \o [j \in 1..ws[i] |-> <<i, j, ws[i]>>])
    IN B(1, <<>>)
Units(w) == IF w = 4 THEN 2 ELSE 1

VARIABLES ws, pat, want,       \* the case: character widths, chunk pattern, characters asked for
          stream, pos, pi,     \* the reader
          buf, head,           \* Decoder.buf[0:tail], Decoder.head  (tail = Len(buf))
          units, data, off, remains, missing, pc, err, panic
vars == <<ws, pat, want, stream, pos, pi, buf, head, units, data, off, remains, missing, pc, err, panic>>

TailIx == Len(buf)
Streams == UNION {[1..n -> Widths] : n \in 1..MaxChars}
RECURSIVE SumUnits(_, _)
SumUnits(w, n) == IF n = 0 THEN 0 ELSE Units(w[n]) + SumUnits(w, n - 1)
RECURSIVE SumBytes(_, _)
SumBytes(w, n) == IF n = 0 THEN 0 ELSE w[n] + SumBytes(w, n - 1)

Init == /\ ws \in Streams /\ pat \in Pats /\ want \in 1..MaxChars /\ want <= Len(ws)
        /\ stream = Bytes(ws) /\ pos = 0 /\ pi = 1
        /\ buf = <<>> /\ head = 0
        /\ units = SumUnits(ws, want) /\ data = <<>> /\ off = 0 /\ remains = 0 /\ missing = 0
        /\ pc = "start" /\ err = FALSE /\ panic = FALSE

\* Decoder.loadMore: the next chunk replaces the buffer; FALSE (and the sticky error) at the end of the stream
CanLoad == pos < Len(stream)
Load == LET n == IF pat[pi] < Len(stream) - pos THEN pat[pi] ELSE Len(stream) - pos IN
        /\ buf' = SubSeq(stream, pos + 1, pos + n) /\ head' = 0 /\ pos' = pos + n
        /\ pi' = (pi % Len(pat)) + 1

Slice(s, a, b) == SubSeq(s, a + 1, b)     \* Go's s[a:b]

Start ==
    /\ pc = "start"
    /\ IF head = TailIx
       THEN IF CanLoad THEN Load /\ pc' = "loop" /\ UNCHANGED err
            ELSE pc' = "done" /\ err' = TRUE /\ UNCHANGED <<buf, head, pos, pi>>
       ELSE pc' = "loop" /\ UNCHANGED <<buf, head, pos, pi, err>>
    /\ UNCHANGED <<ws, pat, want, stream, units, data, off, remains, missing, panic>>

\* the scan over the buffered bytes (checkUTF8String per character), as one step
RECURSIVE Scan(_, _, _)
Scan(b, o, u) == IF u > 0 /\ o < Len(b) THEN Scan(b, o + b[o + 1][3], u - Units(b[o + 1][3])) ELSE <<o, u>>

Loop ==
    /\ pc = "loop"
    /\ LET b == Slice(buf, head, TailIx)
           r == Scan(b, 0, units)
           o == r[1]
           rem == Len(b) - o IN
       /\ units' = r[2] /\ off' = o /\ remains' = rem
       /\ IF rem > 0 \/ (rem = 0 /\ r[2] = 0)
          THEN /\ head' = head + o /\ data' = data \o Slice(b, 0, o) /\ pc' = "done" /\ UNCHANGED missing
          ELSE /\ data' = data \o b /\ missing' = 0 - rem /\ pc' = "fetch" /\ UNCHANGED head
    /\ UNCHANGED <<ws, pat, want, stream, pos, pi, buf, err, panic>>

Fetch ==
    /\ pc = "fetch"
    /\ IF ~CanLoad
       THEN /\ pc' = "done" /\ err' = TRUE /\ UNCHANGED <<buf, head, pos, pi, data, missing, panic>>
       ELSE /\ Load
            /\ IF Variant = "orig"
               THEN \* data = append(data, dec.buf[dec.head:dec.head-remains]...); dec.head -= remains
                    LET n == missing
                        m == IF pat[pi] < Len(stream) - pos THEN pat[pi] ELSE Len(stream) - pos IN
                    IF n > m THEN panic' = TRUE /\ pc' = "done" /\ UNCHANGED <<data, missing, err>>
                    ELSE /\ data' = data \o SubSeq(stream, pos + 1, pos + n) /\ pc' = "adv" /\ UNCHANGED <<missing, err, panic>>
               ELSE pc' = "take" /\ UNCHANGED <<data, missing, err, panic>>
    /\ UNCHANGED <<ws, pat, want, stream, units, off, remains>>

\* orig: dec.head -= remains
Adv == /\ pc = "adv" /\ head' = head + missing /\ pc' = "loop"
       /\ UNCHANGED <<ws, pat, want, stream, pos, pi, buf, units, data, off, remains, missing, err, panic>>

\* fixed: take what this chunk has of the missing bytes; fetch again while some are still missing
Take ==
    /\ pc = "take"
    /\ IF missing <= 0 THEN pc' = "loop" /\ UNCHANGED <<data, head, missing>>
       ELSE LET n == IF TailIx - head > missing THEN missing ELSE TailIx - head IN
            /\ data' = data \o Slice(buf, head, head + n) /\ head' = head + n /\ missing' = missing - n
            /\ pc' = IF missing - n = 0 THEN "loop" ELSE "fetch"
    /\ UNCHANGED <<ws, pat, want, stream, pos, pi, buf, units, off, remains, err, panic>>

Next == Start \/ Loop \/ Fetch \/ Adv \/ Take
Spec == Init /\ [][Next]_vars

Expected == SubSeq(stream, 1, SumBytes(ws, want))
Position == pos - (TailIx - head)
Correct == pc = "done" => /\ ~panic /\ ~err
                          /\ data = Expected
                          /\ Position = Len(Expected)
NoPanic == ~panic
=============================================================================
