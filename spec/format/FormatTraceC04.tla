--------------------------- MODULE FormatTraceC04 ---------------------------
(* C04: every recorded round trip is judged by HproseFormat!C04OK.         *)
EXTENDS TraceKit, FiniteSets
HF == INSTANCE HproseFormat
VARIABLES l, poss, cur, failed, skip
NoInit(e) == {0}
NoStep(s, e) == {s}
Judge(e) == HF!C04Why(e)
INSTANCE TraceLoop WITH InitStates <- NoInit, Step <- NoStep, One <- Judge
=============================================================================
