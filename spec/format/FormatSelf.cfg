SPECIFICATION Spec
CONSTANT Depth = 2
INVARIANT SelfOK
CHECK_DEADLOCK FALSE
