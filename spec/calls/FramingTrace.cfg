SPECIFICATION TraceSpec
CONSTANTS
  Clients = {"a", "b", "s"}
  Values = {1, 2}
  MaxBody = 2
  Limit = 1
  MaxMsgs = 3
  Kind = "dgram"
  Variant = "fixed"
INVARIANT Emit
CHECK_DEADLOCK FALSE
