---------------------------- MODULE FramingTrace ----------------------------
(* Replay of the Framing model's message space into the real transports:   *)
(* every recorded message (sender, body, declared length, checksum) with   *)
(* what the real receiver did with it (delivered with which bytes /        *)
(* refused / dropped / connection already ended) must be what the model's  *)
(* receiver function gives in the state the earlier messages left behind.  *)
(* A byte is recorded as <<client, value>>; the case's reset record gives  *)
(* kind, limit and the length of the modelled part of the receive buffer.  *)
EXTENDS TraceKit, FiniteSets
CONSTANTS Clients, Values, MaxBody, Limit, MaxMsgs, Kind, Variant
\* only the receiver functions of Framing are used: its variables are replaced by constants
F == INSTANCE Framing WITH buffer <- <<>>, closed <- {}, log <- <<>>, sent <- 0
VARIABLES l, poss, cur, failed, skip

ToBody(b) == [i \in 1..Len(b) |-> <<b[i][1], b[i][2]>>]
ToMsg(e) == [from |-> e.from, body |-> ToBody(e.body), decl |-> e.decl, crc |-> e.crc]

FInit(e) == {[kind |-> e.kind, limit |-> e.limit,
              st |-> [buffer |-> [i \in 1..e.buflen |-> F!Zero], closed |-> {}]]}
FStep(s, e) ==
    IF e.ev # "msg" THEN {}
    ELSE LET r == F!RecvFn(s.kind, "fixed", s.limit, s.st, ToMsg(e)) IN
         IF r.rec.outcome = e.outcome /\ (e.outcome = "delivered" => r.rec.given = ToBody(e.given))
         THEN {[s EXCEPT !.st = r.st]} ELSE {}
NoOne(e) == ""
INSTANCE TraceLoop WITH InitStates <- FInit, Step <- FStep, One <- NoOne
=============================================================================
