----------------------------- MODULE CallsTrace -----------------------------
(* Trace validation of C11 / C12 / C13 cases against the Calls monitors.   *)
EXTENDS TraceKit, FiniteSets
CM == INSTANCE Calls
VARIABLES l, poss, cur, failed, skip
MInit(e) == CM!CInit(e)
MStep(s, e) == CM!CStep(s, e)
NoOne(e) == ""
INSTANCE TraceLoop WITH InitStates <- MInit, Step <- MStep, One <- NoOne
=============================================================================
