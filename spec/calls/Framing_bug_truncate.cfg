SPECIFICATION Spec
CONSTANTS
  Clients <- C2
  Values <- V2
  MaxBody = 3
  Limit = 2
  MaxMsgs = 2
  Kind = "http"
  Variant = "http-limit-truncates"
INVARIANTS ExactOrNothing NoForeignBytes NeverOverLimit RefusedIfOver HonestDelivered
CHECK_DEADLOCK FALSE
