------------------------------- MODULE RpcCall -------------------------------
(***************************************************************************)
(* Property C08: a remote call returns what the service function returns.  *)
(*                                                                         *)
(* The method table of the case is given by the reset record: `table` maps *)
(* the lower-cased published names to function ids, `missing` says whether *)
(* a missing-method handler ("*") is published.  Events (calls are issued  *)
(* one after the other):                                                   *)
(*   call(name, lname, args)      the client calls `name` (lname is its    *)
(*                                lower-case form) with the argument list  *)
(*   invoked(fn, args)            recording function fn starts with these  *)
(*                                argument values                          *)
(*   returned(fn, kind, vals/msg) it returns values / returns an error /   *)
(*                                panics with msg                          *)
(*   ret(kind, vals/msg)          the caller receives values or an error   *)
(* The function registered under the name (matched case-insensitively,     *)
(* otherwise the missing-method handler, which receives the name and the   *)
(* argument list) is invoked exactly once with equal argument values; the  *)
(* caller receives values equal to those returned; an error or panic of    *)
(* the function reaches the caller as an error with the same message; an   *)
(* unknown name without missing-method handler is an error and nothing is  *)
(* invoked.  publish(lname, fn) / unpublish(lname): the table changes      *)
(* between calls (lname "*" is the missing-method handler).                *)
(***************************************************************************)
EXTENDS Integers, Sequences, FiniteSets, TLC

HF == INSTANCE HproseFormat

RCInit(e) == {[table |-> e.table, missing |-> e.missing, cur |-> <<>>]}

Lookup(s, lname) == IF lname \in DOMAIN s.table THEN s.table[lname]
                    ELSE IF s.missing THEN "*" ELSE "none"

\* a raw Invoke declares no return types: it yields one value, which is nil for a function without
\* results and the list of the results for a function with several
RawShape(o, r) ==
    LET on == o.nodes[o.root.id + 1]
        rn == r.nodes[r.root.id + 1] IN
    /\ Len(rn.items) = 1
    /\ IF Len(on.items) = 0 THEN rn.items[1].k = "nil"
       ELSE HF!SV(o.nodes, o.root, r.nodes, rn.items[1], {}, {})

RCStep(s, e) ==
    CASE e.ev = "call" ->
            IF s.cur # <<>> THEN {}
            ELSE {[s EXCEPT !.cur = <<[name |-> e.name, fn |-> Lookup(s, e.lname), args |-> e.args, margs |-> e.margs,
                                       inv |-> 0, out |-> <<>>]>>]}
      [] e.ev = "invoked" ->
            IF s.cur = <<>> THEN {} ELSE
            LET c == s.cur[1] IN
            IF c.inv # 0 \/ e.fn # c.fn THEN {}
            ELSE IF HF!SameValue(IF c.fn = "*" THEN c.margs ELSE c.args, e.args, {})
                 THEN {[s EXCEPT !.cur[1].inv = 1]} ELSE {}
      [] e.ev = "returned" ->
            IF s.cur = <<>> \/ s.cur[1].inv # 1 \/ s.cur[1].out # <<>> THEN {}
            ELSE {[s EXCEPT !.cur[1].out = <<e>>]}
      [] e.ev = "ret" ->
            IF s.cur = <<>> THEN {} ELSE
            LET c == s.cur[1] IN
            IF c.fn = "none"
            THEN IF c.inv = 0 /\ e.kind = "error" THEN {[s EXCEPT !.cur = <<>>]} ELSE {}
            ELSE IF c.inv # 1 \/ c.out = <<>> THEN {}
            ELSE LET o == c.out[1] IN
                 IF o.kind = "values"
                 THEN IF e.kind = "values" /\ (HF!SameValue(o.vals, e.vals, {}) \/ (e.raw /\ RawShape(o.vals, e.vals)))
                      THEN {[s EXCEPT !.cur = <<>>]} ELSE {}
                 ELSE IF e.kind = "error" /\ e.msg = o.msg THEN {[s EXCEPT !.cur = <<>>]} ELSE {}
      \* the method table changes while the service runs (between calls): publish a function under a name
      \* (the last one published under a lower-cased name wins), take a name out, publish / remove the
      \* missing-method handler
      [] e.ev = "publish" ->
            IF s.cur # <<>> THEN {}
            ELSE IF e.lname = "*" THEN {[s EXCEPT !.missing = TRUE]}
            ELSE {[s EXCEPT !.table = (e.lname :> e.fn) @@ [k \in (DOMAIN s.table) \ {e.lname} |-> s.table[k]]]}
      [] e.ev = "unpublish" ->
            IF s.cur # <<>> THEN {}
            ELSE IF e.lname = "*" THEN {[s EXCEPT !.missing = FALSE]}
            ELSE {[s EXCEPT !.table = [k \in (DOMAIN s.table) \ {e.lname} |-> s.table[k]]]}
      [] OTHER -> {}
=============================================================================
