------------------------------- MODULE Framing -------------------------------
(***************************************************************************)
(* The receiving side of the transports' frame layers, shaped like the     *)
(* code, against senders that may lie about lengths:                       *)
(*                                                                         *)
(*  dgram   rpc/udp/handler.go receive: one datagram is read into a        *)
(*          receive buffer that is reused for every datagram of every      *)
(*          client; header (declared length, checksum) then body.          *)
(*  stream  rpc/socket/handler.go receive: 12 header bytes, then exactly   *)
(*          the declared number of body bytes from the connection's own    *)
(*          byte stream; a bad checksum or a length above the limit ends   *)
(*          the connection.                                                *)
(*  http    rpc/http/handler.go: Content-Length declared, absent (chunked) *)
(*          or lying; the body is read through a limit.                    *)
(*                                                                         *)
(* A byte is <<client, value>>, so that a byte of another client's message *)
(* is recognisable wherever it ends up.  Checked for every sequence of up  *)
(* to MaxMsgs messages over all bodies of up to MaxBody bytes, all         *)
(* declared lengths and both checksum outcomes:                            *)
(*   ExactOrNothing   what a handler is given is, byte for byte, the body  *)
(*                    of the message it came from (C12)                    *)
(*   NoForeignBytes   and contains no byte of another client (C12)         *)
(*   NeverOverLimit   no handler is given more than Limit bytes (C13)      *)
(*   RefusedIfOver    a message whose body is longer than the limit, with  *)
(*                    a truthful or no declaration, is refused (C13)       *)
(*   HonestDelivered  a consistent message within the limit is delivered   *)
(* Variant selects the code as repaired ("fixed") or one of the defects    *)
(* the checks found in the pinned tree, as negative controls:              *)
(*   "udp-trust-declared"     the datagram's declared length is believed   *)
(*                            (commit a33e466 repaired it)                 *)
(*   "http-chunked-unlimited" an undeclared length is read without limit   *)
(*                            (commit 794f3fc)                             *)
(*   "http-limit-truncates"   an undeclared length is read through         *)
(*                            LimitReader(limit) instead of limit + 1: the *)
(*                            body is cut at the limit and processed       *)
(***************************************************************************)
EXTENDS Integers, Sequences, FiniteSets, TLC

CONSTANTS Clients, Values, MaxBody, Limit, MaxMsgs, Kind, Variant

Byte == Clients \X Values
Bodies(c) == UNION {[1..n -> {c} \X Values] : n \in 0..MaxBody}
Zero == <<"-", 0>>                       \* what the receive buffer holds before anything arrived
BufLen == MaxBody + 1

\* a message: who sent it, its body, the length it declares (-1: none, http only), checksum good?
Msgs == [from : Clients, body : UNION {Bodies(c) : c \in Clients}, decl : -1..(MaxBody + 1), crc : BOOLEAN]
WellFormedMsg(m) == /\ m.body \in Bodies(m.from)
                    /\ (Kind # "http" => m.decl >= 0)
                    /\ (Kind = "http" => m.crc)            \* no checksum in http

VARIABLES buffer,       \* dgram: the reused receive buffer
          closed,       \* stream: connections (one per client) that have been ended
          log,          \* sequence of [msg, outcome, given]: outcome in delivered / refused / dropped / closed
          sent          \* number of messages so far
vars == <<buffer, closed, log, sent>>

Init == /\ buffer = [i \in 1..BufLen |-> Zero]
        /\ closed = {} /\ log = <<>> /\ sent = 0

Min(a, b) == IF a < b THEN a ELSE b
Take(s, n) == SubSeq(s, 1, Min(n, Len(s)))
Rec(m, o, g) == [msg |-> m, outcome |-> o, given |-> g]

\* The receivers as functions of (state, message): st = [buffer, closed]; the result is the new state and
\* the log record.  The actions below and the trace specification (FramingTrace) use the same functions.

\* ---- datagram: the whole datagram lands in the buffer, the rest of the buffer keeps what it held
DgramFn(variant, limit, st, m) ==
    LET n == Len(m.body)
        blen == Len(st.buffer)
        buf2 == [i \in 1..blen |-> IF i <= n THEN m.body[i] ELSE st.buffer[i]] IN
    [st |-> [st EXCEPT !.buffer = buf2],
     rec |-> IF ~m.crc THEN Rec(m, "dropped", <<>>)
             ELSE IF variant # "udp-trust-declared" /\ m.decl # n THEN Rec(m, "dropped", <<>>)
             ELSE IF m.decl > limit THEN Rec(m, "refused", <<>>)
             ELSE Rec(m, "delivered", [i \in 1..Min(m.decl, blen) |-> buf2[i]])]

\* ---- stream: a connection per client; the body is read from that connection's own bytes.  A message
\* ---- that declares more than it carries waits for more bytes of the same connection (the sender then
\* ---- ends the connection: nothing is delivered); one that declares less is followed by bytes that are
\* ---- not a header with a good checksum: the connection ends after the frame
StreamFn(variant, limit, st, m) ==
    IF m.from \in st.closed THEN [st |-> st, rec |-> Rec(m, "closed", <<>>)]
    ELSE IF ~m.crc THEN [st |-> [st EXCEPT !.closed = @ \cup {m.from}], rec |-> Rec(m, "dropped", <<>>)]
    ELSE IF m.decl > limit THEN [st |-> [st EXCEPT !.closed = @ \cup {m.from}], rec |-> Rec(m, "refused", <<>>)]
    ELSE IF m.decl > Len(m.body) THEN [st |-> [st EXCEPT !.closed = @ \cup {m.from}], rec |-> Rec(m, "dropped", <<>>)]
    ELSE [st |-> IF m.decl < Len(m.body) THEN [st EXCEPT !.closed = @ \cup {m.from}] ELSE st,
          rec |-> Rec(m, "delivered", Take(m.body, m.decl))]

\* ---- http: Content-Length declared (a server reads at most that many bytes) or absent (decl = -1)
HttpFn(variant, limit, st, m) ==
    [st |-> st,
     rec |-> IF m.decl >= 0
             THEN IF m.decl > limit THEN Rec(m, "refused", <<>>)
                  ELSE IF m.decl > Len(m.body) THEN Rec(m, "dropped", <<>>)       \* the body ends early: a read error
                  ELSE Rec(m, "delivered", Take(m.body, m.decl))
             ELSE CASE variant = "http-chunked-unlimited" -> Rec(m, "delivered", m.body)
                    [] variant = "http-limit-truncates" -> Rec(m, "delivered", Take(m.body, limit))
                    [] OTHER -> IF Len(Take(m.body, limit + 1)) > limit THEN Rec(m, "refused", <<>>)
                                ELSE Rec(m, "delivered", m.body)]

RecvFn(kind, variant, limit, st, m) ==
    CASE kind = "dgram" -> DgramFn(variant, limit, st, m)
      [] kind = "stream" -> StreamFn(variant, limit, st, m)
      [] OTHER -> HttpFn(variant, limit, st, m)

Recv(m) == /\ sent < MaxMsgs /\ sent' = sent + 1
           /\ LET r == RecvFn(Kind, Variant, Limit, [buffer |-> buffer, closed |-> closed], m) IN
              /\ buffer' = r.st.buffer /\ closed' = r.st.closed
              /\ log' = Append(log, r.rec)

Next == \E m \in Msgs : WellFormedMsg(m) /\ Recv(m)
Spec == Init /\ [][Next]_vars

---------------------------------------------------------------------------
Delivered == {i \in 1..Len(log) : log[i].outcome = "delivered"}
Truthful(m) == m.decl = Len(m.body) \/ m.decl = -1
\* on a stream a sender that declares less than it sends has sent a shorter message followed by garbage
SentBody(m) == IF Kind \in {"stream", "http"} /\ m.decl >= 0 /\ m.decl < Len(m.body) THEN Take(m.body, m.decl) ELSE m.body

ExactOrNothing == \A i \in Delivered : log[i].given = SentBody(log[i].msg)
NoForeignBytes == \A i \in Delivered : \A j \in 1..Len(log[i].given) : log[i].given[j][1] = log[i].msg.from
NeverOverLimit == \A i \in Delivered : Len(log[i].given) <= Limit
RefusedIfOver == \A i \in 1..Len(log) :
                    LET m == log[i].msg IN
                    (Truthful(m) /\ Len(m.body) > Limit /\ m.crc /\ log[i].outcome # "closed") => log[i].outcome = "refused"
HonestDelivered == \A i \in 1..Len(log) :
                    LET m == log[i].msg IN
                    (Truthful(m) /\ Len(m.body) <= Limit /\ m.crc /\ log[i].outcome # "closed") => log[i].outcome = "delivered"
=============================================================================
