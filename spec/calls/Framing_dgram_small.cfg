SPECIFICATION Spec
CONSTANTS
  Clients <- C2
  Values <- V2
  MaxBody = 2
  Limit = 1
  MaxMsgs = 2
  Kind = "dgram"
  Variant = "fixed"
INVARIANTS ExactOrNothing NoForeignBytes NeverOverLimit RefusedIfOver HonestDelivered
CHECK_DEADLOCK FALSE
