---------------------------- MODULE RpcCallTrace ----------------------------
(* Trace validation of recorded remote calls against RpcCall.              *)
EXTENDS TraceKit, FiniteSets
RC == INSTANCE RpcCall
VARIABLES l, poss, cur, failed, skip
MInit(e) == RC!RCInit(e)
MStep(s, e) == RC!RCStep(s, e)
NoOne(e) == ""
INSTANCE TraceLoop WITH InitStates <- MInit, Step <- MStep, One <- NoOne
=============================================================================
