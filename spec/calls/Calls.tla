-------------------------------- MODULE Calls --------------------------------
(***************************************************************************)
(* Monitors for properties C11, C12 and C13 over the events of one case    *)
(* (a real Service on one transport, run in a child process).              *)
(*                                                                         *)
(* Framing (C12).  sent(n,h): an honest client submits a request of n      *)
(* bytes with digest h; handled(n,h): the service's outermost IO handler   *)
(* is handed a request; produced(n,h[,deliver]): a response is produced    *)
(* (by the service, or by a scripted peer that may wrap it in an           *)
(* inconsistent frame: deliver = FALSE); ret(kind,n,h): the caller gets a  *)
(* response or an error; rawsent(what,deliver,n,h): a raw socket sends a   *)
(* crafted frame, which the service may be handed only if it is consistent *)
(* (on a stream a sender that declares less than it sends has sent a       *)
(* shorter frame followed by garbage).  ExactOrNothing: every handled      *)
(* request is byte for byte one that was submitted and not handled before; *)
(* every honest request is handled and answered with exactly the bytes     *)
(* produced for it; an inconsistent frame is never delivered, in either    *)
(* direction.                                                              *)
(*                                                                         *)
(* MaxLen (C13).  req(n,limit,decl) / handled / ret(kind): no handler sees *)
(* a request longer than the limit; a request above the limit whose length *)
(* is declared truthfully or not at all gets the too-large error and is    *)
(* not handled; a request at or below the limit is handled and answered.   *)
(*                                                                         *)
(* Containment (C11).  fault(what) / faultret(what,kind) / sentinel(ok):   *)
(* the faulty call ends (no hang, no panic in the caller) with an error    *)
(* where the fault is the call's own; every sentinel call - on the same    *)
(* client and on another client, after each fault - succeeds; the process  *)
(* does not crash.                                                         *)
(***************************************************************************)
EXTENDS Integers, Sequences, FiniteSets, TLC

CInit(e) == {[prop |-> e.prop, stream |-> e.stream, limit |-> e.limit, pend |-> {}, rawok |-> {}, prod |-> {}, await |-> FALSE, noDeliver |-> FALSE,
              cur |-> <<>>, fault |-> ""]}

Pair(e) == <<e.n, e.h>>

Prefix(p, s) == Len(p) <= Len(s) /\ SubSeq(s, 1, Len(p)) = p

FramingStep(s, e) ==
    CASE e.ev = "sent" -> IF s.await THEN {} ELSE {[s EXCEPT !.pend = @ \cup {Pair(e)}, !.await = TRUE]}
      [] e.ev = "handled" ->
            IF Pair(e) \in s.pend THEN {[s EXCEPT !.pend = @ \ {Pair(e)}]}
            ELSE IF Pair(e) \in s.rawok THEN {[s EXCEPT !.rawok = @ \ {Pair(e)}]}
            ELSE {}          \* bytes that nobody submitted (truncated, padded, completed from another message)
      [] e.ev = "produced" ->
            IF "what" \in DOMAIN e        \* a scripted peer is about to answer a real client
            THEN IF e.deliver THEN {[s EXCEPT !.prod = @ \cup {Pair(e)}, !.await = TRUE]}
                 ELSE {[s EXCEPT !.noDeliver = TRUE, !.await = TRUE]}
            ELSE IF s.await THEN {[s EXCEPT !.prod = @ \cup {Pair(e)}]}
            ELSE {s}                      \* the answer to a raw socket: nobody records its delivery
      [] e.ev = "ret" ->
            IF ~s.await \/ e.kind \in {"hang", "callerpanic"} THEN {}
            ELSE IF s.noDeliver
            THEN IF e.kind = "ok" THEN {} ELSE {[s EXCEPT !.noDeliver = FALSE, !.await = FALSE]}
            ELSE IF e.kind = "ok" /\ Pair(e) \in s.prod /\ s.pend = {}
            THEN {[s EXCEPT !.prod = @ \ {Pair(e)}, !.await = FALSE]}
            ELSE {}
      [] e.ev = "rawsent" -> {[s EXCEPT !.rawok = IF e.deliver THEN {Pair(e)} ELSE {}]}
      [] e.ev = "rawdone" -> {[s EXCEPT !.rawok = {}]}
      [] e.ev = "sentinel" -> IF e.ok THEN {s} ELSE {}
      [] e.ev = "function" -> {s}
      [] e.ev = "end" -> IF s.pend = {} /\ ~s.await THEN {s} ELSE {}
      [] OTHER -> {}

MaxLenStep(s, e) ==
    CASE e.ev = "req" -> IF s.cur # <<>> THEN {} ELSE {[s EXCEPT !.cur = <<[n |-> e.n, limit |-> e.limit, decl |-> e.decl, handled |-> 0]>>]}
      [] e.ev = "handled" ->
            \* (a handler may be reached after the raw socket of the harness has stopped waiting for the answer)
            IF s.cur = <<>> THEN (IF e.n <= s.limit THEN {s} ELSE {})
            ELSE IF s.cur[1].decl = "call" \/ e.n <= s.cur[1].limit THEN {[s EXCEPT !.cur[1].handled = @ + 1]} ELSE {}
      [] e.ev \in {"produced", "function"} -> {s}
      [] e.ev = "ret" ->
            IF s.cur = <<>> THEN {} ELSE
            LET c == s.cur[1] IN
            IF c.decl = "call" THEN (IF e.kind = "ok" THEN {[s EXCEPT !.cur = <<>>]} ELSE {})
            ELSE IF c.n > c.limit
            THEN IF c.decl \in {"truthful", "absent", "truthful-raw"}
                 THEN IF e.kind = "toolarge" /\ c.handled = 0 THEN {[s EXCEPT !.cur = <<>>]} ELSE {}
                 ELSE {[s EXCEPT !.cur = <<>>]}      \* a lying declaration: only "no handler sees more than the limit" is demanded
            ELSE IF c.decl \in {"truthful", "absent"}
                 THEN IF e.kind = "ok" /\ c.handled = 1 THEN {[s EXCEPT !.cur = <<>>]} ELSE {}
                 ELSE {[s EXCEPT !.cur = <<>>]}
      [] e.ev = "end" -> IF s.cur = <<>> THEN {s} ELSE {}
      [] OTHER -> {}

OwnFault(what) == \E p \in {"function-panic", "invoke-plugin-panic", "missing-method-panic", "io-plugin-panic",
                            "mismatched-arguments", "undecodable-request", "garbage-request"} : Prefix(p, what)

ContainStep(s, e) ==
    CASE e.ev = "sentinel" -> IF e.ok THEN {s} ELSE {}
      [] e.ev = "fault" -> {[s EXCEPT !.fault = e.what]}
      [] e.ev = "faultret" ->
            IF e.kind \in {"hang", "callerpanic"} THEN {}
            ELSE IF OwnFault(e.what) /\ e.kind = "ok" THEN {}
            ELSE IF e.what = "oversized-request" /\ e.kind # "toolarge" THEN {}
            ELSE {s}
      [] e.ev \in {"handled", "produced", "function", "end"} -> {s}
      [] OTHER -> {}        \* crash, hang, setup-failed

CStep(s, e) == IF s.prop = "c12" THEN FramingStep(s, e)
               ELSE IF s.prop = "c13" THEN MaxLenStep(s, e)
               ELSE ContainStep(s, e)
=============================================================================
