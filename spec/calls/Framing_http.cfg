SPECIFICATION Spec
CONSTANTS
  Clients <- C2
  Values <- V2
  MaxBody = 3
  Limit = 2
  MaxMsgs = 2
  Kind = "http"
  Variant = "fixed"
INVARIANTS ExactOrNothing NoForeignBytes NeverOverLimit RefusedIfOver HonestDelivered
CHECK_DEADLOCK FALSE
