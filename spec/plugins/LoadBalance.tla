----------------------------- MODULE LoadBalance -----------------------------
(***************************************************************************)
(* Property C18 as a monitor over the picks of the seven load balancers    *)
(* (rpc/plugins/loadbalance).                                              *)
(*                                                                         *)
(* Events of one case:                                                     *)
(*   pick(k, idx)     call k reached the downstream handler with the URL   *)
(*                    of configured server idx (1-based; 0 = a URL that    *)
(*                    is not configured)                                   *)
(*   done(k, o)       call k finished with outcome o                       *)
(*   servers(n)       the client's URL list was replaced (quiescent)       *)
(*   grow(n)          servers were appended to the URL list, calls possibly *)
(*                    in flight (least-active)                             *)
(*   quiesce(actives) no call is in flight; `actives` are the balancer's   *)
(*                    in-flight counters (empty when it has none);         *)
(*                    invoked / picks: calls made / picks seen so far      *)
(*   tight(calls, valid, invalid, panics) a concurrent burst of direct     *)
(*                    calls of the balancer's handler, counted             *)
(*                                                                         *)
(* Judged (s.conc = FALSE, picks issued one after another, calls possibly  *)
(* held in flight by the harness):                                         *)
(*   rr      within each cycle of n picks no server is served twice        *)
(*   wrr     within each cycle of (Sum w)/gcd picks server i is served at  *)
(*           most w[i]/gcd times (hence exactly that often per cycle)      *)
(*   nginx   smooth weighted round-robin over effective weights: the pick  *)
(*           maximises current+effective weight (ties free); effective     *)
(*           weights fall by one on failure/panic, rise by one on success, *)
(*           within 0..w[i]                                                *)
(*   wrandom the pick has positive effective weight (unless all are zero)  *)
(*   la      the pick has the fewest calls in flight                       *)
(*   wla     fewest in flight, and positive effective weight among ties    *)
(*           (unless all tied weights are zero)                            *)
(*   random  validity only                                                 *)
(* Always judged, also under concurrency: idx is a configured server, and  *)
(* the counters are zero at quiescence.                                    *)
(***************************************************************************)
EXTENDS Integers, Sequences, FiniteSets, TLC

RECURSIVE SumSeq(_)
SumSeq(s) == IF s = <<>> THEN 0 ELSE s[1] + SumSeq(Tail(s))
RECURSIVE GCD2(_, _)
GCD2(a, b) == IF b = 0 THEN a ELSE GCD2(b, a % b)
RECURSIVE GCDSeq(_)
GCDSeq(s) == IF Len(s) = 1 THEN s[1] ELSE GCD2(s[1], GCDSeq(Tail(s)))
MaxOf(S) == CHOOSE x \in S : \A y \in S : y <= x
MinOf(S) == CHOOSE x \in S : \A y \in S : x <= y
Zeros(n) == [i \in 1..n |-> 0]

LBInit(e) ==
    [algo |-> e.algo, n |-> e.n, w |-> e.w, conc |-> e.conc,
     served |-> Zeros(e.n), cyc |-> 0,
     infl |-> Zeros(e.n), ew |-> e.w, cw |-> Zeros(e.n), calls |-> <<>>]

CycleLen(s) == IF s.algo = "rr" THEN s.n ELSE SumSeq(s.w) \div GCDSeq(s.w)
Quota(s, i) == IF s.algo = "rr" THEN 1 ELSE s.w[i] \div GCDSeq(s.w)

ArgMinInfl(s) == {i \in 1..s.n : s.infl[i] = MinOf({s.infl[j] : j \in 1..s.n})}

PickAllowed(s, i) ==
    IF s.conc THEN TRUE ELSE
    CASE s.algo \in {"rr", "wrr"} -> s.served[i] < Quota(s, i)
      [] s.algo = "nginx" ->
            IF SumSeq(s.ew) > 0
            THEN s.cw[i] + s.ew[i] = MaxOf({s.cw[j] + s.ew[j] : j \in 1..s.n})
            ELSE TRUE
      [] s.algo = "wrandom" -> SumSeq(s.ew) > 0 => s.ew[i] > 0
      [] s.algo = "la" -> i \in ArgMinInfl(s)
      [] s.algo = "wla" ->
            /\ i \in ArgMinInfl(s)
            /\ (Cardinality(ArgMinInfl(s)) > 1 /\ \E j \in ArgMinInfl(s) : s.ew[j] > 0) => s.ew[i] > 0
      [] OTHER -> TRUE

AfterPick(s, k, i) ==
    LET cyc2 == s.cyc + 1
        wrap == s.algo \in {"rr", "wrr"} /\ cyc2 = CycleLen(s)
        tot == SumSeq(s.ew) IN
    [s EXCEPT !.calls = (k :> i) @@ s.calls,
              !.infl[i] = @ + 1,
              !.served = IF wrap THEN Zeros(s.n)
                         ELSE IF s.algo \in {"rr", "wrr"} THEN [@ EXCEPT ![i] = @ + 1] ELSE @,
              !.cyc = IF wrap THEN 0 ELSE cyc2,
              !.cw = IF s.algo = "nginx" /\ tot > 0
                     THEN [j \in 1..s.n |-> s.cw[j] + s.ew[j] - (IF j = i THEN tot ELSE 0)]
                     ELSE @]

AfterDone(s, k, o) ==
    LET i == s.calls[k] IN
    [s EXCEPT !.calls = [c \in (DOMAIN s.calls) \ {k} |-> s.calls[c]],
              !.infl[i] = @ - 1,
              !.ew[i] = IF s.algo \in {"nginx", "wrandom", "wla"}
                        THEN (IF o = "ok" THEN (IF @ < s.w[i] THEN @ + 1 ELSE @)
                              ELSE (IF @ > 0 THEN @ - 1 ELSE @))
                        ELSE @]

LBStep(s, e) ==
    CASE e.ev = "pick" ->
            IF e.idx \notin 1..s.n \/ e.k \in DOMAIN s.calls THEN {}
            ELSE IF PickAllowed(s, e.idx) THEN {AfterPick(s, e.k, e.idx)} ELSE {}
      [] e.ev = "done" ->
            IF e.k \notin DOMAIN s.calls THEN {} ELSE {AfterDone(s, e.k, e.o)}
      [] e.ev = "servers" ->
            IF DOMAIN s.calls # {} \/ s.algo \notin {"rr", "random", "la"} THEN {}
            ELSE {[s EXCEPT !.n = e.n, !.w = [i \in 1..e.n |-> 1], !.ew = [i \in 1..e.n |-> 1],
                            !.served = Zeros(e.n), !.cyc = 0, !.infl = Zeros(e.n), !.cw = Zeros(e.n)]}
      [] e.ev = "grow" ->      \* servers are appended while calls may be in flight: what is in flight stays counted
            IF s.algo # "la" \/ e.n < s.n THEN {}
            ELSE LET ext(f, z) == [i \in 1..e.n |-> IF i <= s.n THEN f[i] ELSE z] IN
                 {[s EXCEPT !.n = e.n, !.w = ext(s.w, 1), !.ew = ext(s.ew, 1), !.served = ext(s.served, 0),
                            !.infl = ext(s.infl, 0), !.cw = ext(s.cw, 0)]}
      [] e.ev = "tight" ->      \* a concurrent burst, counted: every call one valid pick, no panic of the balancer
            IF e.valid = e.calls /\ e.invalid = 0 /\ e.panics = 0 THEN {s} ELSE {}
      [] e.ev = "quiesce" ->
            IF DOMAIN s.calls # {} THEN {}
            \* every call made so far went through the balancer to exactly one pick
            ELSE IF "invoked" \in DOMAIN e /\ e.invoked # e.picks THEN {}
            ELSE IF \A i \in DOMAIN e.actives : e.actives[i] = 0 THEN {s} ELSE {}
      [] OTHER -> {}
=============================================================================
