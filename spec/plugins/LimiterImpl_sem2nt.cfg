SPECIFICATION Spec
CONSTANTS
  Kind = "sem"
  Procs <- P3
  Max = 2
  HasTimeout = FALSE
  MaxP = 0
  MaxTok = 1
  MaxClock = 0
  Cancel = "timeout"
  Atomic = TRUE
INVARIANTS SemSafe NoWedge RateBound
CHECK_DEADLOCK FALSE
