SPECIFICATION Spec
CONSTANTS
  Algo = "nginx"
  WS <- WS45
  MaxPicks = 41
  Failures = FALSE
  Pickers <- NoPickers
INVARIANTS MonitorAccepts CycleExact
CHECK_DEADLOCK FALSE
