--------------------------- MODULE LoadBalanceImpl ---------------------------
(***************************************************************************)
(* The load-balancer algorithms transcribed from rpc/plugins/loadbalance    *)
(* (getIndex / Handler of RoundRobin, WeightedRoundRobin, NginxRoundRobin), *)
(* run over every weight vector WS, feeding the LoadBalance monitor.        *)
(*                                                                         *)
(* Checked: MonitorAccepts (refinement into the property monitor),         *)
(* CycleExact (over each full failure-free cycle every server is served    *)
(* exactly its share: 1, w/gcd, w), IndexValid for the round-robin index   *)
(* under all interleavings of concurrent pickers whose add and store are   *)
(* separate steps.                                                         *)
(***************************************************************************)
EXTENDS Integers, Sequences, FiniteSets, TLC

CONSTANTS Algo,        \* "rr" | "wrr" | "nginx"
          WS,          \* set of weight vectors to explore
          MaxPicks,    \* picks per behaviour
          Failures,    \* BOOLEAN: may downstream calls fail?
          Pickers      \* set of concurrent pickers (round-robin index validity)

LB == INSTANCE LoadBalance

VARIABLES w, index, cwt, ew, cw,   \* algorithm state
          count, npicks, clean, k, mon,
          ppc, preg                \* concurrent round-robin pickers: pc and the value returned by AddInt64

vars == <<w, index, cwt, ew, cw, count, npicks, clean, k, mon, ppc, preg>>
N == Len(w)
Feed(e) == mon' = UNION {LB!LBStep(s, e) : s \in mon}

Init == /\ w \in WS
        /\ index = -1 /\ cwt = 0 /\ ew = w /\ cw = LB!Zeros(Len(w))
        /\ count = LB!Zeros(Len(w)) /\ npicks = 0 /\ clean = TRUE /\ k = 0
        /\ mon = {LB!LBInit([algo |-> Algo, n |-> Len(w), w |-> w, conc |-> Pickers # {}])}
        /\ ppc = [p \in Pickers |-> "idle"] /\ preg = [p \in Pickers |-> 0]

\* RoundRobinLoadBalance.getIndex, sequential
RRPick == IF N > 1 THEN (IF index + 1 < N THEN <<index + 1, index + 1>> ELSE <<0, 0>>) ELSE <<0, index>>

\* WeightedRoundRobinLoadBalance.getIndex: the loop until Weights[index] >= currentWeight
RECURSIVE WRRLoop(_, _)
WRRLoop(ix, c) ==
    LET ix2 == (ix + 1) % N
        c2 == IF ix2 = 0 THEN (IF c - LB!GCDSeq(w) <= 0 THEN LB!MaxOf({w[i] : i \in 1..N}) ELSE c - LB!GCDSeq(w)) ELSE c IN
    IF w[ix2 + 1] >= c2 THEN <<ix2, c2>> ELSE WRRLoop(ix2, c2)

\* NginxRoundRobinLoadBalance.getIndex: first index with the strictly largest current+effective weight
NginxPick == LET tot == LB!SumSeq(ew)
                 v == [i \in 1..N |-> cw[i] + ew[i]]
                 best == CHOOSE i \in 1..N : /\ \A j \in 1..N : v[j] <= v[i]
                                             /\ \A j \in 1..(i - 1) : v[j] < v[i] IN
             <<best - 1, [i \in 1..N |-> IF i = best THEN v[i] - tot ELSE v[i]]>>

Pick(o) ==
    /\ Pickers = {} /\ npicks < MaxPicks
    /\ (o # "ok") => Failures
    /\ (Algo = "nginx" /\ LB!SumSeq(ew) = 0) => FALSE   \* rand.Intn branch: not modelled, any index is valid
    /\ LET r == CASE Algo = "rr" -> RRPick
                  [] Algo = "wrr" -> WRRLoop(index, cwt)
                  [] Algo = "nginx" -> NginxPick
           i == r[1] + 1 IN
       /\ index' = IF Algo = "nginx" THEN index ELSE r[1]
       /\ cwt' = IF Algo = "wrr" THEN r[2] ELSE cwt
       /\ cw' = IF Algo = "nginx" THEN r[2] ELSE cw
       /\ ew' = IF Algo = "nginx"
                THEN [ew EXCEPT ![i] = IF o = "ok" THEN (IF @ < w[i] THEN @ + 1 ELSE @) ELSE (IF @ > 0 THEN @ - 1 ELSE @)]
                ELSE ew
       /\ count' = [count EXCEPT ![i] = @ + 1]
       /\ npicks' = npicks + 1 /\ k' = k + 1
       /\ clean' = (clean /\ o = "ok")
       /\ mon' = UNION {LB!LBStep(s2, [ev |-> "done", k |-> k + 1, o |-> o]) :
                           s2 \in UNION {LB!LBStep(s, [ev |-> "pick", k |-> k + 1, idx |-> i]) : s \in mon}}
    /\ UNCHANGED <<w, ppc, preg>>

\* concurrent round-robin pickers: i := atomic.AddInt64(&index, 1); if i < n return i; atomic.StoreInt64(&index, 0); return 0
PAdd(p) == /\ ppc[p] = "idle" /\ npicks < MaxPicks /\ Algo = "rr"
           /\ index' = index + 1 /\ preg' = [preg EXCEPT ![p] = index + 1]
           /\ ppc' = [ppc EXCEPT ![p] = "added"] /\ npicks' = npicks + 1
           /\ UNCHANGED <<w, cwt, ew, cw, count, clean, k, mon>>
PRet(p) == /\ ppc[p] = "added"
           /\ LET i == IF N > 1 /\ preg[p] < N THEN preg[p] ELSE 0 IN
              /\ index' = IF N > 1 /\ preg[p] >= N THEN 0 ELSE index
              /\ k' = k + 1
              /\ mon' = UNION {LB!LBStep(s2, [ev |-> "done", k |-> k + 1, o |-> "ok"]) :
                                  s2 \in UNION {LB!LBStep(s, [ev |-> "pick", k |-> k + 1, idx |-> i + 1]) : s \in mon}}
           /\ ppc' = [ppc EXCEPT ![p] = "idle"]
           /\ UNCHANGED <<w, cwt, ew, cw, count, npicks, clean, preg>>

Next == (\E o \in {"ok", "err"} : Pick(o)) \/ (\E p \in Pickers : PAdd(p) \/ PRet(p))
Spec == Init /\ [][Next]_vars

MonitorAccepts == mon # {}

Share(i) == CASE Algo = "rr" -> 1 [] Algo = "wrr" -> w[i] \div LB!GCDSeq(w) [] OTHER -> w[i]
Cycle == CASE Algo = "rr" -> N [] Algo = "wrr" -> LB!SumSeq(w) \div LB!GCDSeq(w) [] OTHER -> LB!SumSeq(w)
\* at every cycle boundary of a failure-free sequential run each server has had exactly its share
CycleExact == (Pickers = {} /\ clean /\ npicks % Cycle = 0) =>
                 \A i \in 1..N : count[i] = Share(i) * (npicks \div Cycle)
=============================================================================
