------------------------- MODULE CircuitBreakerConc -------------------------
(***************************************************************************)
(* The failure counter of the circuit breaker under CONCURRENT callers     *)
(* (rpc/plugins/circuitbreaker, IOHandler's deferred bookkeeping).         *)
(* CircuitBreaker.tla decides the property over sequential histories;      *)
(* here several forwarded calls fail at the same time and each one's       *)
(* bookkeeping is the code's own steps:                                    *)
(*                                                                         *)
(*   Count = "add"        atomic.AddUint64(&failCount, 1)   (the code)     *)
(*   Count = "loadstore"  a saturating load ; store - a plausible          *)
(*                        refinement ("no need to count beyond             *)
(*                        threshold+1"), kept as negative control: two     *)
(*                        callers that load the same value store the same  *)
(*                        value, one failure is lost                       *)
(*                                                                         *)
(* Checked: once more than Threshold calls have failed and nobody is       *)
(* inside the bookkeeping, the breaker is open (failCount > Threshold).    *)
(* The driver's burst rounds put the real code into exactly this           *)
(* situation (threshold+1 failures released together by a barrier).        *)
(***************************************************************************)
EXTENDS Integers, FiniteSets, TLC

CONSTANTS Callers, Threshold, Count

VARIABLES fc, pc, seen
vars == <<fc, pc, seen>>

Init == fc = 0 /\ pc = [c \in Callers |-> "failed"] /\ seen = [c \in Callers |-> 0]

Add(c) == /\ Count = "add" /\ pc[c] = "failed"
          /\ fc' = fc + 1 /\ pc' = [pc EXCEPT ![c] = "done"] /\ UNCHANGED seen
Load(c) == /\ Count = "loadstore" /\ pc[c] = "failed"
           /\ seen' = [seen EXCEPT ![c] = fc] /\ pc' = [pc EXCEPT ![c] = "loaded"] /\ UNCHANGED fc
Store(c) == /\ pc[c] = "loaded"
            /\ fc' = IF seen[c] <= Threshold THEN seen[c] + 1 ELSE fc
            /\ pc' = [pc EXCEPT ![c] = "done"] /\ UNCHANGED seen

Next == \E c \in Callers : Add(c) \/ Load(c) \/ Store(c)
Spec == Init /\ [][Next]_vars

Quiescent == \A c \in Callers : pc[c] = "done"
OpensAfterFailures == (Quiescent /\ Cardinality(Callers) > Threshold) => fc > Threshold
=============================================================================
