SPECIFICATION Spec
CONSTANTS
  Mode = "failtry"
  NServers = 3
  Retry = 2
  Idem = TRUE
  MaxCalls = 3
  SkipFailed = TRUE
INVARIANTS MonitorAccepts AttemptsBounded
CHECK_DEADLOCK FALSE
