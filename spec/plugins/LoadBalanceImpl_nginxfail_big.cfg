SPECIFICATION Spec
CONSTANTS
  Algo = "nginx"
  WS <- WS34
  MaxPicks = 10
  Failures = TRUE
  Pickers <- NoPickers
INVARIANTS MonitorAccepts CycleExact
CHECK_DEADLOCK FALSE
