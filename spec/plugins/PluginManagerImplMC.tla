------------------------- MODULE PluginManagerImplMC -------------------------
EXTENDS PluginManagerImpl
OpsC == {[kind |-> "use", invoke |-> <<"i1">>, io |-> <<>>],
         [kind |-> "use", invoke |-> <<"i2">>, io |-> <<"o1">>],
         [kind |-> "unuse", invoke |-> <<"i1">>, io |-> <<"o1">>],
         [kind |-> "use", invoke |-> <<"i1", "i1">>, io |-> <<"o2">>]}
BehC == [i1 |-> "pass", i2 |-> "alter", o1 |-> "alter", o2 |-> "short"]
CallersC == {1, 2}
=============================================================================
