SPECIFICATION Spec
CONSTANTS
  Callers = {1, 2, 3}
  Threshold = 2
  Count = "loadstore"
INVARIANT OpensAfterFailures
CHECK_DEADLOCK FALSE
