SPECIFICATION Spec
CONSTANTS
  Mode = "failtry"
  NServers = 2
  Retry = 2
  Idem = TRUE
  MaxCalls = 3
  SkipFailed = TRUE
INVARIANTS MonitorAccepts AttemptsBounded
CHECK_DEADLOCK FALSE
