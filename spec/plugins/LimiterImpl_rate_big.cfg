SPECIFICATION Spec
CONSTANTS
  Kind = "rate"
  Procs <- P3
  Max = 1
  HasTimeout = FALSE
  MaxP = 2
  MaxTok = 2
  MaxClock = 8
  Cancel = "none"
  Atomic = TRUE
INVARIANTS SemSafe NoWedge RateBound
CHECK_DEADLOCK FALSE
