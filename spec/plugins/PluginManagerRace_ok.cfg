SPECIFICATION Spec
CONSTANTS
  Mutators <- M3
  MaxOps = 3
  Split = FALSE
INVARIANTS ChainIsList NoGhost
CHECK_DEADLOCK FALSE
