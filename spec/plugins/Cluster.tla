------------------------------- MODULE Cluster -------------------------------
(***************************************************************************)
(* Property C16 as a monitor over the attempts the cluster plugin makes    *)
(* (rpc/plugins/cluster/cluster.go).                                       *)
(*                                                                         *)
(* Events of one case (a client with `servers` configured and one of the   *)
(* five modes installed):                                                  *)
(*   callB(idem, retry)      a call is issued; idem in {"default","true",  *)
(*                           "false"} and retry (-1 = default) are the     *)
(*                           per-call overrides                            *)
(*   attempt(url, o, k)      the downstream handler is entered for server  *)
(*                           url; in the retry modes it will produce the   *)
(*                           scripted outcome o; k numbers the attempts    *)
(*   release(url, o, k)      (forking/broadcast) the harness lets the      *)
(*                           parked attempt at url finish with outcome o   *)
(*   callE(res)              the caller receives res = [kind, url, k]      *)
(*                           (broadcast: [kind, vals] or an error)         *)
(*                                                                         *)
(* Retry modes: a call that is not idempotent is attempted exactly once;   *)
(* an idempotent one is re-attempted after each failure until it succeeds  *)
(* or retry+1 attempts were made; the caller gets the last attempt's       *)
(* outcome.  Failover: each re-attempt goes to a configured server         *)
(* different from the one that just failed (when there is more than one);  *)
(* failtry stays on the same server; failfast never retries.               *)
(* Forking: every server is attempted once; the call returns the first     *)
(* successful response and fails only when all have failed.                *)
(* Broadcast: every server is invoked exactly once.                        *)
(***************************************************************************)
EXTENDS Integers, Sequences, FiniteSets, TLC

Range(f) == {f[i] : i \in DOMAIN f}
Last(s) == s[Len(s)]

ClInit(e) == [mode |-> e.mode, servers |-> Range(e.servers), order |-> e.servers,
              retry |-> e.retry, idem |-> e.idem, cur |-> <<>>]

EffIdem(s, o) == IF o = "default" THEN s.idem ELSE o = "true"
EffRetry(s, r) == IF r < 0 THEN s.retry ELSE r

RetryMode(s) == s.mode \in {"failover", "failtry", "failfast"}
MayRetry(s, c) == /\ s.mode \in {"failover", "failtry"}
                  /\ c.idem /\ Len(c.att) < c.retry + 1

FirstOK(rel) == LET I == {i \in DOMAIN rel : rel[i].o = "ok"} IN
                IF I = {} THEN 0 ELSE CHOOSE i \in I : \A j \in I : i <= j

ClStep(s, e) ==
    CASE e.ev = "callB" ->
            IF s.cur # <<>> THEN {}
            ELSE {[s EXCEPT !.cur = <<[idem |-> EffIdem(s, e.idem), retry |-> EffRetry(s, e.retry),
                                       att |-> <<>>, rel |-> <<>>, returned |-> FALSE]>>]}
      [] e.ev = "attempt" ->
            IF s.cur = <<>> \/ e.url \notin s.servers THEN {} ELSE
            LET c == s.cur[1]
                n == Len(c.att)
                rec == [url |-> e.url, o |-> e.o, k |-> e.k] IN
            IF RetryMode(s)
            THEN IF \/ n = 0
                    \/ /\ Last(c.att).o # "ok" /\ MayRetry(s, c)
                       /\ (s.mode = "failover" /\ Cardinality(s.servers) > 1) => e.url # Last(c.att).url
                       /\ s.mode = "failtry" => e.url = Last(c.att).url
                 THEN {[s EXCEPT !.cur[1].att = Append(@, rec)]}
                 ELSE {}
            ELSE \* forking / broadcast: each server at most once, all before the first release
                 IF e.url \in {c.att[i].url : i \in DOMAIN c.att} \/ c.rel # <<>> THEN {}
                 ELSE {[s EXCEPT !.cur[1].att = Append(@, rec)]}
      [] e.ev = "release" ->
            IF s.cur = <<>> \/ RetryMode(s) THEN {} ELSE
            LET c == s.cur[1] IN
            \* every configured server has been attempted (exactly once) before anything completes
            IF {c.att[i].url : i \in DOMAIN c.att} # s.servers \/ Len(c.att) # Cardinality(s.servers) THEN {}
            \* forking: once a fork has succeeded the call must already have returned
            ELSE IF s.mode = "forking" /\ FirstOK(c.rel) # 0 /\ ~c.returned THEN {}
            ELSE {[s EXCEPT !.cur[1].rel = Append(@, [url |-> e.url, o |-> e.o, k |-> e.k])]}
      [] e.ev = "callE" ->
            IF s.cur = <<>> THEN {} ELSE
            LET c == s.cur[1] IN
            IF RetryMode(s)
            THEN IF /\ Len(c.att) >= 1
                    /\ e.res = [kind |-> Last(c.att).o, url |-> Last(c.att).url, k |-> Last(c.att).k]
                    /\ (Last(c.att).o = "ok" \/ ~MayRetry(s, c))
                 THEN {[s EXCEPT !.cur = <<>>]} ELSE {}
            ELSE IF s.mode = "forking"
            THEN LET f == FirstOK(c.rel) IN
                 IF f # 0
                 THEN IF e.res = [kind |-> "ok", url |-> c.rel[f].url, k |-> c.rel[f].k] /\ ~c.returned
                      THEN {[s EXCEPT !.cur[1].returned = TRUE]} ELSE {}
                 ELSE IF /\ Len(c.rel) = Cardinality(s.servers) /\ ~c.returned
                         /\ \E i \in DOMAIN c.rel : e.res = [kind |-> c.rel[i].o, url |-> c.rel[i].url, k |-> c.rel[i].k]
                      THEN {[s EXCEPT !.cur[1].returned = TRUE]} ELSE {}
            ELSE \* broadcast: returns when every server has completed
                 IF Len(c.rel) # Cardinality(s.servers) \/ c.returned THEN {}
                 ELSE IF \A i \in DOMAIN c.rel : c.rel[i].o = "ok"
                 THEN IF /\ e.res.kind = "ok" /\ Len(e.res.vals) = Len(s.order)
                         /\ \A j \in DOMAIN s.order :
                               \E i \in DOMAIN c.rel : /\ c.rel[i].url = s.order[j]
                                                       /\ e.res.vals[j] = [url |-> c.rel[i].url, k |-> c.rel[i].k]
                      THEN {[s EXCEPT !.cur[1].returned = TRUE]} ELSE {}
                 ELSE IF \E i \in DOMAIN c.rel : /\ c.rel[i].o # "ok"
                                                 /\ e.res = [kind |-> c.rel[i].o, url |-> c.rel[i].url, k |-> c.rel[i].k]
                      THEN {[s EXCEPT !.cur[1].returned = TRUE]} ELSE {}
      [] e.ev = "end" ->  \* fan-out modes: the harness has released every fork and the call has returned
            IF s.cur = <<>> THEN {} ELSE
            IF s.cur[1].returned /\ Len(s.cur[1].rel) = Cardinality(s.servers) THEN {[s EXCEPT !.cur = <<>>]} ELSE {}
      [] OTHER -> {}
=============================================================================
