---------------------------- MODULE ClusterIndex ----------------------------
(***************************************************************************)
(* The rotation index that FailoverConfig shares between all calls of a    *)
(* client (rpc/plugins/cluster/cluster.go, getIndex), with CONCURRENT      *)
(* callers: ClusterImpl models the retry logic for sequential calls and    *)
(* takes getIndex as one step; here getIndex is what it is in the code,    *)
(* two atomic operations with other callers in between:                    *)
(*                                                                         *)
(*     if i := atomic.AddInt64(index, 1); i < n { return i }               *)
(*     atomic.StoreInt64(index, 0); return 0                               *)
(*                                                                         *)
(* Wrap = "store" is the code.  Wrap = "cas" is a plausible refinement     *)
(* ("wrap around once: CompareAndSwap(index, n, 0)") kept as a negative    *)
(* control: when two callers step past the end before either wraps, both   *)
(* compare-and-swaps fail and the index grows for ever - every later pick  *)
(* is server 0, failover never moves on again.                             *)
(*                                                                         *)
(* Checked: every pick is a configured server, and whenever no caller is   *)
(* inside getIndex the index is back in 0..N-1 (so the next failures walk  *)
(* through all servers again).  The driver's warm-up cases run the real    *)
(* getIndex under that concurrency and then judge sequential failover      *)
(* calls with the Cluster monitor.                                         *)
(***************************************************************************)
EXTENDS Integers, FiniteSets, TLC

CONSTANTS N,         \* number of servers (> 1)
          Callers,   \* concurrent callers
          MaxOps,    \* getIndex calls per caller
          Wrap       \* "store" | "cas"

VARIABLES index, pc, ops, picked
vars == <<index, pc, ops, picked>>

Init == /\ index = 0 /\ pc = [c \in Callers |-> "idle"] /\ ops = [c \in Callers |-> 0]
        /\ picked = [c \in Callers |-> 0]

\* atomic.AddInt64(index, 1)
Add(c) == /\ pc[c] = "idle" /\ ops[c] < MaxOps
          /\ index' = index + 1
          /\ ops' = [ops EXCEPT ![c] = @ + 1]
          /\ IF index + 1 < N
             THEN pc' = pc /\ picked' = [picked EXCEPT ![c] = index + 1]
             ELSE pc' = [pc EXCEPT ![c] = "wrap"] /\ UNCHANGED picked

\* atomic.StoreInt64(index, 0)  resp.  atomic.CompareAndSwapInt64(index, n, 0)
WrapAround(c) == /\ pc[c] = "wrap"
                 /\ index' = IF Wrap = "store" \/ index = N THEN 0 ELSE index
                 /\ pc' = [pc EXCEPT ![c] = "idle"] /\ picked' = [picked EXCEPT ![c] = 0]
                 /\ UNCHANGED ops

Next == \E c \in Callers : Add(c) \/ WrapAround(c)
Spec == Init /\ [][Next]_vars

PickValid == \A c \in Callers : picked[c] \in 0..(N - 1)
Quiescent == \A c \in Callers : pc[c] = "idle"
Recovers  == Quiescent => index \in 0..(N - 1)
\* while callers are inside, the index is at most one step per caller past the end
Bounded   == index <= N - 1 + Cardinality({c \in Callers : pc[c] = "wrap"})
=============================================================================
