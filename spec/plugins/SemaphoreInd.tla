---------------------------- MODULE SemaphoreInd ----------------------------
(***************************************************************************)
(* The counting semaphore of ConcurrentLimiter (LimiterImpl.tla, Kind =    *)
(* "sem") without the monitor, for Apalache: the permits in use equal the  *)
(* requests beyond the limiter and never exceed Max, as an inductive       *)
(* invariant - for 1..6 permits, 8 requests that come again and again, and *)
(* executions of any length.                                               *)
(*   Init => IndInv              --cinit=CInitCode --init=Init --inv=IndInv --length=0     *)
(*   IndInv /\ Next => IndInv'   --cinit=CInitCode --init=IndInit --inv=IndInv --length=1  *)
(*   IndInv => AtMostMax         --cinit=CInitCode --init=IndInit --inv=AtMostMax --length=0 *)
(* Negative control CInitAdmit: a waiter whose context was cancelled goes  *)
(* on without a permit - the inductive step fails.                         *)
(***************************************************************************)
EXTENDS Integers, FiniteSets

CONSTANTS
    \* @type: Set(Int);
    Procs,
    \* @type: Int;
    Max,
    \* @type: Str;
    Cancel

VARIABLES
    \* @type: Int -> Str;
    pc,
    \* @type: Int;
    tasks

CInitCode == Procs = 1..8 /\ Max \in 1..6 /\ Cancel = "timeout"
CInitAdmit == Procs = 1..8 /\ Max \in 1..6 /\ Cancel = "admit"

Init == pc = [p \in Procs |-> "idle"] /\ tasks = 0

Begin(p) == pc[p] = "idle" /\ pc' = [pc EXCEPT ![p] = "acquire"] /\ UNCHANGED tasks
Acquire(p) == pc[p] = "acquire" /\ tasks < Max /\ tasks' = tasks + 1 /\ pc' = [pc EXCEPT ![p] = "running"]
Timeout(p) == pc[p] = "acquire" /\ pc' = [pc EXCEPT ![p] = "idle"] /\ UNCHANGED tasks
Cancelled(p) == /\ pc[p] = "acquire"
                /\ pc' = [pc EXCEPT ![p] = IF Cancel = "admit" THEN "running" ELSE "idle"]
                /\ UNCHANGED tasks
Finish(p) == pc[p] = "running" /\ pc' = [pc EXCEPT ![p] = "release"] /\ UNCHANGED tasks
Release(p) == pc[p] = "release" /\ tasks' = tasks - 1 /\ pc' = [pc EXCEPT ![p] = "idle"]

Next == \E p \in Procs : Begin(p) \/ Acquire(p) \/ Timeout(p) \/ Cancelled(p) \/ Finish(p) \/ Release(p)

Beyond == {p \in Procs : pc[p] \in {"running", "release"}}
IndInv == /\ pc \in [Procs -> {"idle", "acquire", "running", "release"}]
          /\ tasks = Cardinality(Beyond)
          /\ tasks <= Max
IndInit == IndInv
AtMostMax == Cardinality({p \in Procs : pc[p] = "running"}) <= Max
=============================================================================
