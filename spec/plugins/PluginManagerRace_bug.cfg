SPECIFICATION Spec
CONSTANTS
  Mutators <- M3
  MaxOps = 3
  Split = TRUE
INVARIANTS ChainIsList NoGhost
CHECK_DEADLOCK FALSE
