SPECIFICATION Spec
CONSTANTS
  Algo = "rr"
  WS <- WSones
  MaxPicks = 12
  Failures = FALSE
  Pickers <- NoPickers
INVARIANTS MonitorAccepts CycleExact
CHECK_DEADLOCK FALSE
