----------------------------- MODULE PluginChain -----------------------------
(***************************************************************************)
(* Property C15 as a monitor: plugins run as an ordered onion around the   *)
(* core handler (rpc/core/plugin_manager.go, client.go, service.go).       *)
(*                                                                         *)
(* One "side" (a Client or a Service) owns two plugin managers.  A call    *)
(* first traverses the handlers of the OUTER manager, then fetches the     *)
(* handler chain of the INNER manager and traverses it, then reaches the   *)
(* core handler; results travel back in reverse.  Client: outer = invoke,  *)
(* inner = io.  Service: outer = io, inner = invoke.                       *)
(*                                                                         *)
(* Observable alphabet (what the recording handlers of the harness log):   *)
(*   opB(kind, invoke, io) / opE   a Use / Unuse call begins / has returned*)
(*   callB(c)                      a call is issued                        *)
(*   enter(c, mgr, h, seen)        handler h of manager mgr is entered and *)
(*                                 sees the inward value `seen`            *)
(*   core(c, seen)                 the built-in handler is reached         *)
(*   exit(c, mgr, h, got)          h's `next` returned `got` to h          *)
(*   callE(c, res)                 the caller receives res                 *)
(*                                                                         *)
(* The property: the handlers a call traverses in one manager are exactly  *)
(* that manager's list at the moment the call fetched its chain - each     *)
(* once, in the order added - and never a mixture of two lists.  Because   *)
(* the moment of the fetch is not itself observable when Use/Unuse run     *)
(* concurrently with calls, the monitor keeps, per call and manager, the   *)
(* set `cands` of every list the manager may have had inside the fetch     *)
(* window, and narrows it with every handler the call is seen to enter.    *)
(*                                                                         *)
(* Values: the inward value is the sequence of handlers that altered the   *)
(* call on the way in; the outward value records who produced it (core or  *)
(* a short-circuiting handler), the inward value it was produced from and  *)
(* the handlers that altered it on the way out.  When the core function    *)
(* fails (cfg.beh.core = "fail") what travels back is its error: every     *)
(* handler of both managers sees it as an error, none alters it.           *)
(***************************************************************************)
EXTENDS Integers, Sequences, FiniteSets, TLC

Range(f) == {f[i] : i \in DOMAIN f}
Last(s) == s[Len(s)]
Front(s) == SubSeq(s, 1, Len(s) - 1)

Apply(kind, hs, ch) ==
    IF kind = "use" THEN ch \o hs
    ELSE SelectSeq(ch, LAMBDA x : x \notin Range(hs))

\* lists manager m may have right now
Possible(s, m) ==
    IF s.pend = <<>> THEN {s.chain[m]}
    ELSE {s.chain[m], Apply(s.pend[1].kind, s.pend[1][m], s.chain[m])}

PCInit(cfg) == [chain |-> [invoke |-> <<>>, io |-> <<>>], pend |-> <<>>, calls |-> <<>>, cfg |-> cfg]

NewCall(s) ==
    [ph |-> "in", cands1 |-> Possible(s, s.cfg.outer), w1 |-> TRUE, pos1 |-> 0,
     cands2 |-> Possible(s, s.cfg.inner), w2 |-> TRUE, pos2 |-> 0, inner |-> FALSE,
     inval |-> <<>>, stack |-> <<>>, outval |-> <<>>]

Beh(s, h) == s.cfg.beh[h]
\* the core function fails: what travels back is its error, which every handler sees and none alters
CoreFails(s) == "core" \in DOMAIN s.cfg.beh /\ s.cfg.beh["core"] = "fail"

\* widen the open fetch windows of every call with the lists a beginning operation may produce
Widen(s, op) ==
    [c \in DOMAIN s.calls |->
        LET k == s.calls[c] IN
        [k EXCEPT !.cands1 = IF k.w1 THEN @ \cup {Apply(op.kind, op[s.cfg.outer], s.chain[s.cfg.outer])} ELSE @,
                  !.cands2 = IF k.w2 THEN @ \cup {Apply(op.kind, op[s.cfg.inner], s.chain[s.cfg.inner])} ELSE @]]

\* what a handler does once entered: pass / alter (the call goes on inward) or short (it turns round)
AfterEnter(s, k, m, h) ==
    LET b == Beh(s, h)
        pushed == Append(k.stack, [m |-> m, h |-> h]) IN
    IF b = "short"
    THEN [k EXCEPT !.stack = pushed, !.ph = "out",
                   !.outval = [by |-> h, inp |-> k.inval, out |-> <<>>]]
    ELSE [k EXCEPT !.stack = pushed, !.inval = IF b = "alter" THEN Append(@, h) ELSE @]

PCStep(s, e) ==
    CASE e.ev = "opB" ->
            IF s.pend # <<>> THEN {}   \* the drivers issue one Use/Unuse at a time
            ELSE {[s EXCEPT !.pend = <<[kind |-> e.kind, invoke |-> e.invoke, io |-> e.io]>>,
                            !.calls = Widen(s, [kind |-> e.kind, invoke |-> e.invoke, io |-> e.io])]}
      [] e.ev = "opE" ->
            IF s.pend = <<>> THEN {}
            ELSE {[s EXCEPT !.pend = <<>>,
                            !.chain = [invoke |-> Apply(s.pend[1].kind, s.pend[1].invoke, s.chain.invoke),
                                       io |-> Apply(s.pend[1].kind, s.pend[1].io, s.chain.io)]]}
      [] e.ev = "callB" ->
            IF e.call \in DOMAIN s.calls THEN {}
            ELSE {[s EXCEPT !.calls = (e.call :> NewCall(s)) @@ s.calls]}
      [] e.ev = "enter" ->
            IF e.call \notin DOMAIN s.calls THEN {} ELSE
            LET k == s.calls[e.call] IN
            IF k.ph # "in" \/ e.seen # k.inval THEN {}
            ELSE IF e.mgr = s.cfg.outer /\ ~k.inner
            THEN LET c1 == {ch \in k.cands1 : k.pos1 < Len(ch) /\ ch[k.pos1 + 1] = e.h} IN
                 IF c1 = {} THEN {}
                 ELSE LET k2 == [k EXCEPT !.cands1 = c1, !.w1 = FALSE, !.pos1 = @ + 1,
                                          \* the inner chain is fetched after this handler calls next
                                          !.cands2 = Possible(s, s.cfg.inner), !.w2 = TRUE] IN
                      {[s EXCEPT !.calls[e.call] = AfterEnter(s, k2, e.mgr, e.h)]}
            ELSE IF e.mgr = s.cfg.inner
            THEN LET c1 == {ch \in k.cands1 : Len(ch) = k.pos1}   \* the outer list has been traversed completely
                     c2 == {ch \in k.cands2 : k.pos2 < Len(ch) /\ ch[k.pos2 + 1] = e.h} IN
                 IF c1 = {} \/ c2 = {} THEN {}
                 ELSE LET k2 == [k EXCEPT !.cands1 = c1, !.w1 = FALSE, !.cands2 = c2, !.w2 = FALSE,
                                          !.pos2 = @ + 1, !.inner = TRUE] IN
                      {[s EXCEPT !.calls[e.call] = AfterEnter(s, k2, e.mgr, e.h)]}
            ELSE {}
      [] e.ev = "core" ->
            IF e.call \notin DOMAIN s.calls THEN {} ELSE
            LET k == s.calls[e.call]
                c1 == {ch \in k.cands1 : Len(ch) = k.pos1}
                c2 == {ch \in k.cands2 : Len(ch) = k.pos2} IN
            IF k.ph # "in" \/ e.seen # k.inval \/ c1 = {} \/ c2 = {} THEN {}
            ELSE {[s EXCEPT !.calls[e.call] =
                      [k EXCEPT !.cands1 = c1, !.cands2 = c2, !.w1 = FALSE, !.w2 = FALSE, !.ph = "out",
                                !.outval = [by |-> IF CoreFails(s) THEN "core-error" ELSE "core", inp |-> k.inval, out |-> <<>>]]]}
      [] e.ev = "exit" ->
            IF e.call \notin DOMAIN s.calls THEN {} ELSE
            LET k == s.calls[e.call] IN
            IF k.ph # "out" \/ k.stack = <<>> THEN {}
            ELSE IF Last(k.stack) # [m |-> e.mgr, h |-> e.h] \/ e.got # k.outval THEN {}
            ELSE {[s EXCEPT !.calls[e.call] =
                      [k EXCEPT !.stack = Front(@),
                                !.outval = IF Beh(s, e.h) = "alter" /\ @.by # "core-error" THEN [@ EXCEPT !.out = Append(@, e.h)] ELSE @]]}
      [] e.ev = "callE" ->
            IF e.call \notin DOMAIN s.calls THEN {} ELSE
            LET k == s.calls[e.call] IN
            IF k.ph # "out" \/ k.stack # <<>> \/ e.res # k.outval THEN {}
            ELSE {[s EXCEPT !.calls = [c \in (DOMAIN s.calls) \ {e.call} |-> s.calls[c]]]}
      [] OTHER -> {}
=============================================================================
