SPECIFICATION Spec
CONSTANTS
  MaxThreshold = 4
  MaxLen = 9
INVARIANTS
  TypeOK
  Refines
  RejectOnlyWhenOpen
  OpenAfterStreak
  SuccessResets
  ForwardTransparent
CHECK_DEADLOCK FALSE
