SPECIFICATION Spec
CONSTANTS
  Kind = "sem"
  Procs <- P3
  Max = 2
  HasTimeout = TRUE
  MaxP = 0
  MaxTok = 1
  MaxClock = 0
  Cancel = "admit"
  Atomic = TRUE
INVARIANTS SemSafe NoWedge RateBound
CHECK_DEADLOCK FALSE
