SPECIFICATION Spec
CONSTANTS
  Outer = "invoke"
  Inner = "io"
  Ops <- OpsC
  MaxOps = 2
  Callers <- CallersC
  BehMap <- BehC
  Bug = "halfbuilt"
INVARIANT MonitorAccepts
CHECK_DEADLOCK FALSE
