------------------------ MODULE CircuitBreakerTrace ------------------------
(* Trace validation of real CircuitBreaker executions against the property *)
(* reading (Strict = FALSE) of CircuitBreaker.tla.                         *)
EXTENDS TraceKit, FiniteSets

CB == INSTANCE CircuitBreaker WITH MaxThreshold <- 0, MaxLen <- 0, st <- 0, streak <- 0, n <- 0, last <- 0

CBInit(e) == {CB!St(0, CB!Cfg(e.threshold, e.mock))}

\* event: {"ev":"call","o":..,"el":..,"fwd":..,"res":..,"count":..}
CBStep(s, e) ==
    {r.st : r \in {r \in CB!CallOutcomes(s, e.o, e.el, FALSE) :
                        /\ r.fwd = e.fwd /\ r.res = e.res
                        /\ e.count = IF r.fwd THEN 1 ELSE 0}}   \* downstream invoked exactly once

VARIABLES l, poss, cur, failed, skip
NoOne(e) == ""
INSTANCE TraceLoop WITH InitStates <- CBInit, Step <- CBStep, One <- NoOne
=============================================================================
