------------------------ MODULE CircuitBreakerTrace ------------------------
(* Trace validation of real CircuitBreaker executions against the property *)
(* reading (Strict = FALSE) of CircuitBreaker.tla.                         *)
EXTENDS TraceKit, FiniteSets

MaxThreshold == 0
MaxLen == 0
VARIABLES st, streak, n, last
INSTANCE CircuitBreaker

VARIABLES l, poss, cur, failed, skip
tvars == <<l, poss, cur, failed, skip, st, streak, n, last>>

InitStates(e) == {St(0, Cfg(e.threshold, e.mock))}

\* event: {"ev":"call","o":..,"el":..,"fwd":..,"res":..}
Step(s, e) ==
    {r.st : r \in {r \in CallOutcomes(s, e.o, e.el, FALSE) :
                        /\ r.fwd = e.fwd /\ r.res = e.res
                        /\ e.count = IF r.fwd THEN 1 ELSE 0}}   \* downstream invoked exactly once

TraceInit == /\ l = 1 /\ poss = {} /\ cur = -1 /\ failed = <<>> /\ skip = FALSE
             /\ st = 0 /\ streak = 0 /\ n = 0 /\ last = 0

TraceNext ==
    /\ l <= Len(Trace)
    /\ l' = l + 1
    /\ UNCHANGED <<st, streak, n, last>>
    /\ LET e == Trace[l] IN
       IF e.ev = "reset"
       THEN /\ poss' = InitStates(e) /\ cur' = e.case /\ skip' = FALSE /\ UNCHANGED failed
       ELSE IF skip THEN UNCHANGED <<poss, cur, failed, skip>>
       ELSE LET nxt == UNION {Step(s, e) : s \in poss} IN
            IF nxt = {}
            THEN /\ failed' = Append(failed, [case |-> cur, line |-> l])
                 /\ skip' = TRUE /\ poss' = {} /\ UNCHANGED cur
            ELSE /\ poss' = nxt /\ UNCHANGED <<cur, failed, skip>>

TraceSpec == TraceInit /\ [][TraceNext]_tvars

Emit == (l = Len(Trace) + 1) =>
            JsonSerialize(OutFile, [complete |-> TRUE, failed |-> failed, len |-> Len(Trace), l |-> l])
=============================================================================
