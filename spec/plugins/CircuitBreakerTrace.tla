------------------------ MODULE CircuitBreakerTrace ------------------------
(* Trace validation of real CircuitBreaker executions against the property *)
(* reading (Strict = FALSE) of CircuitBreaker.tla.                         *)
EXTENDS TraceKit, FiniteSets

CB == INSTANCE CircuitBreaker WITH MaxThreshold <- 0, MaxLen <- 0, st <- 0, streak <- 0, n <- 0, last <- 0

CBInit(e) == {CB!St(0, CB!Cfg(e.threshold, e.mock))}

\* event: {"ev":"call","o":..,"el":..,"fwd":..,"res":..,"count":..}
\* a call that overlaps the following ones: slowB when it starts (the scripts start it while the breaker is
\* closed: it must be forwarded), slowE when the downstream handler returns: its outcome counts then - a
\* success resets the counter, a failure adds to it (and is the last failure from then on: the harness
\* measures the recovery time of later calls from it)
\* burst(rounds, leaks): the total of the concurrent rounds (each written out like a script when its probe
\* got through): no round may have let the probe through
CBStep(s, e) ==
    IF e.ev = "burst" THEN (IF e.leaks = 0 THEN {s} ELSE {})
    ELSE IF e.ev = "slowB" THEN (IF ~CB!Open(s) /\ e.fwd THEN {s} ELSE {})
    ELSE IF e.ev = "slowE"
    THEN IF e.res # e.o THEN {}
         ELSE {[s EXCEPT !.fc = IF e.o = "ok" THEN 0 ELSE IF @ > s.cfg.threshold THEN @ ELSE @ + 1]}
    ELSE
    {r.st : r \in {r \in CB!CallOutcomes(s, e.o, e.el, FALSE) :
                        /\ r.fwd = e.fwd /\ r.res = e.res
                        /\ e.count = IF r.fwd THEN 1 ELSE 0}}   \* downstream invoked exactly once

VARIABLES l, poss, cur, failed, skip
NoOne(e) == ""
INSTANCE TraceLoop WITH InitStates <- CBInit, Step <- CBStep, One <- NoOne
=============================================================================
