---------------------------- MODULE ClusterTrace ----------------------------
(* Trace validation of recorded cluster-plugin executions against Cluster. *)
EXTENDS TraceKit, FiniteSets
CL == INSTANCE Cluster
CInit(e) == {CL!ClInit(e)}
CStep(s, e) == CL!ClStep(s, e)
VARIABLES l, poss, cur, failed, skip
NoOne(e) == ""
INSTANCE TraceLoop WITH InitStates <- CInit, Step <- CStep, One <- NoOne
=============================================================================
