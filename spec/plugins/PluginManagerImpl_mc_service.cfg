SPECIFICATION Spec
CONSTANTS
  Outer = "io"
  Inner = "invoke"
  Ops <- OpsC
  MaxOps = 2
  Callers <- CallersC
  BehMap <- BehC
  Bug = "none"
INVARIANT MonitorAccepts
CHECK_DEADLOCK FALSE
