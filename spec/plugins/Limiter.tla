------------------------------- MODULE Limiter -------------------------------
(***************************************************************************)
(* Property C17 as two monitors (rpc/plugins/limiter).                     *)
(*                                                                         *)
(* ConcurrentLimiter.  Events: acqB(c) the request reaches the limiter;    *)
(* enter(c) it is executing beyond the limiter (logged by the downstream   *)
(* handler on entry); exit(c, o) the downstream handler is about to return *)
(* outcome o; end(c, res) the caller got res; quiesce(cr) nothing is in    *)
(* flight and ConcurrentRequests() = cr; probe(n) Max fresh requests were  *)
(* started at quiescence and n of them entered; cancel(c) the caller's     *)
(* own context was cancelled (from then on c may leave the queue with an   *)
(* error at any time - but still enters only with a permit).               *)
(*   - never more than Max executing (enter needs infl < Max)              *)
(*   - a request ends with the timeout error only if it never entered, a   *)
(*     timeout is configured and it waited at least that long (`full`      *)
(*     records whether the limiter was full at some moment of the wait;    *)
(*     it is not required: a goroutine stalled for the whole timeout       *)
(*     before its select may legitimately time out with permits free)      *)
(*   - every permit comes back: at quiescence the count is 0 and the full  *)
(*     capacity can be taken again                                         *)
(*                                                                         *)
(* RateLimiter (sequential).  Time in microseconds from the case start.    *)
(* acquire(t0, t1, n, res): Acquire(n tokens) was called at a time in      *)
(* [t0, t1] and returned res at t1.  The monitor tracks the limiter's      *)
(* "next free time" as an interval [lo, hi] (interval arithmetic over the  *)
(* token-bucket recurrence next' = max(next + n*I, now - maxP*I)) and      *)
(* rejects only what no value in the interval explains:                    *)
(*   - admitted although the call returned before the bucket was free      *)
(*     (t1 < lo): more permits than burst + rate * elapsed were admitted   *)
(*   - rejected although the needed wait certainly did not exceed the      *)
(*     timeout; admitted although it certainly did                         *)
(* window(x, y, tokens): (concurrent runs) the requests whose whole        *)
(* Acquire call lay inside [x, y] were admitted `tokens` permits in total: *)
(* tokens <= maxP + 2*maxTokens + rate*(y - x).  The two extra requests    *)
(* are the algorithm's stated behaviour (it clamps after charging, and     *)
(* admits on credit: the request that overdraws the bucket goes through,   *)
(* the next one waits).                                                    *)
(***************************************************************************)
EXTENDS Integers, Sequences, FiniteSets, TLC

---------------------------------------------------------------------------
SemInit(e) == [kind |-> "sem", max |-> e.max, timeout |-> e.timeout,
               infl |-> {}, waiting |-> {}, full |-> {}, since |-> <<>>, out |-> <<>>, cancelled |-> {}]

MarkFull(s) == IF Cardinality(s.infl) = s.max THEN [s EXCEPT !.full = s.full \cup s.waiting] ELSE s

SemStep(s, e) ==
    CASE e.ev = "acqB" ->
            IF e.c \in s.waiting \cup s.infl THEN {}
            ELSE {MarkFull([s EXCEPT !.waiting = @ \cup {e.c}, !.since = (e.c :> e.t) @@ @])}
      [] e.ev = "enter" ->
            IF e.c \notin s.waiting \/ Cardinality(s.infl) >= s.max THEN {}
            ELSE {MarkFull([s EXCEPT !.waiting = @ \ {e.c}, !.infl = @ \cup {e.c}, !.full = @ \ {e.c}])}
      [] e.ev = "exit" ->
            IF e.c \notin s.infl THEN {}
            ELSE {[s EXCEPT !.infl = @ \ {e.c}, !.out = (e.c :> e.o) @@ @]}
      [] e.ev = "end" ->
            IF e.c \in DOMAIN s.out
            THEN IF e.res = s.out[e.c] THEN {[s EXCEPT !.out = [c \in (DOMAIN s.out) \ {e.c} |-> s.out[c]]]} ELSE {}
            ELSE IF e.c \in s.waiting /\ e.c \in s.cancelled
            THEN \* its own context ended while it waited: it leaves with an error, whenever that was
                 IF e.res \in {"timeout", "canceled"} /\ s.timeout > 0
                 THEN {[s EXCEPT !.waiting = @ \ {e.c}, !.full = @ \ {e.c}]} ELSE {}
            ELSE IF e.c \in s.waiting
            THEN IF /\ e.res = "timeout" /\ s.timeout > 0
                    /\ e.t - s.since[e.c] >= s.timeout     \* the timer never fires early
                 THEN {[s EXCEPT !.waiting = @ \ {e.c}, !.full = @ \ {e.c}]} ELSE {}
            ELSE {}
      [] e.ev = "cancel" -> {[s EXCEPT !.cancelled = @ \cup {e.c}]}
      [] e.ev = "quiesce" ->
            IF s.infl = {} /\ s.waiting = {} /\ e.cr = 0 THEN {s} ELSE {}
      [] e.ev = "probe" ->
            IF s.infl = {} /\ s.waiting = {} /\ e.n = s.max THEN {s} ELSE {}
      [] OTHER -> {}

---------------------------------------------------------------------------
\* rate limiter; all times in microseconds; ival = microseconds per permit; slack widens per step
RateInit(e) == [kind |-> "rate", ival |-> e.ival, maxp |-> e.maxp, timeout |-> e.timeout,
                lo |-> e.t0, hi |-> e.t1, maxtok |-> e.maxtok, rate |-> e.rate]

Max2(a, b) == IF a > b THEN a ELSE b
Slack == 3   \* microseconds of rounding per operation (float arithmetic in the code, integer here)

RateStep(s, e) ==
    CASE e.ev = "acquire" ->
            \* (cost and burst in microseconds come with the event when the harness computed them: at high
            \* rates a permit is a fraction of a microsecond)
            LET cost == IF "cost" \in DOMAIN e THEN e.cost ELSE e.n * s.ival
                burst == IF "burst" \in DOMAIN e THEN e.burst ELSE s.maxp * s.ival
                lo2 == Max2(s.lo + cost, e.t0 - burst) - Slack
                hi2 == Max2(s.hi + cost, e.t1 - burst) + Slack
                \* needed wait = next - now, next in [lo, hi], now in [t0, t1]
                waitMin == s.lo - e.t1
                waitMax == s.hi - e.t0 IN
            IF e.res = "canceled"
            THEN \* the caller's own context ended while it waited: it is not admitted (nothing to judge about
                 \* the moment), but it has been charged like every other request
                 {[s EXCEPT !.lo = lo2, !.hi = hi2]}
            ELSE IF e.res = "timeout"
            THEN IF s.timeout > 0 /\ waitMax > s.timeout
                 THEN {[s EXCEPT !.lo = lo2, !.hi = hi2]} ELSE {}
            ELSE \* admitted: not before the bucket was free, and not if it certainly had to be refused
                 IF /\ e.t1 >= s.lo - Slack
                    /\ (s.timeout > 0 => waitMin <= s.timeout)
                 THEN {[s EXCEPT !.lo = lo2, !.hi = hi2]} ELSE {}
      [] e.ev = "window" ->
            \* tokens <= maxP + 2*maxTokens + rate*(y-x):  compare in permit-microseconds
            IF (e.tokens - s.maxp - 2 * s.maxtok) * s.ival <= (e.y - e.x) + Slack + (e.tokens \div 100) THEN {s} ELSE {}
      [] OTHER -> {}

LimInit(e) == IF e.kind = "sem" THEN {SemInit(e)} ELSE {RateInit(e)}
LimStep(s, e) == IF s.kind = "sem" THEN SemStep(s, e) ELSE RateStep(s, e)
=============================================================================
