-------------------------- MODULE PluginManagerImpl --------------------------
(***************************************************************************)
(* Implementation-shaped model of rpc/core/plugin_manager.go as used by    *)
(* core.Client / core.Service: two managers, each a handler list, the      *)
(* folded closure `built` (pm.handler) and a RW lock.  A mutator performs  *)
(* Use / Unuse (Lock; modify list; rebuild; Unlock - per manager, invoke   *)
(* first, as Client.Use / Service.Use do); callers fetch the outer closure *)
(* under the read lock, run through it, fetch the inner closure, run       *)
(* through it, reach the core and return.  One step per critical section.  *)
(*                                                                         *)
(* Every observable step feeds the PluginChain monitor (variable `mon`,    *)
(* the determinised monitor state set).  Invariant MonitorAccepts is the   *)
(* refinement PluginManagerImpl => PluginChain: the monitor explains every *)
(* interleaving the implementation-shaped model can produce, so it cannot  *)
(* reject a correct implementation's trace; with the constant Bug set the  *)
(* same run shows the monitor does reject a manager that publishes a       *)
(* half-built chain or skips the rebuild.                                  *)
(***************************************************************************)
EXTENDS Integers, Sequences, FiniteSets, TLC

CONSTANTS Outer, Inner,     \* "invoke"/"io" (client) or "io"/"invoke" (service)
          Ops,              \* set of [kind, invoke, io] the mutator may perform
          MaxOps, Callers, BehMap,
          Bug               \* "none" | "norebuild" (Unuse forgets to rebuild) | "halfbuilt" (publishes before fold is complete)

PC == INSTANCE PluginChain

VARIABLES handlers,  \* [mgr -> Seq(handler)]
          built,     \* [mgr -> Seq(handler)]   the closure chain pm.handler stands for
          wlock,     \* [mgr -> BOOLEAN]        write lock held
          mpc, mop, mdone,  \* mutator: program counter, current op, ops done
          cpc, csnap, cpos, cin, cstack, cout,  \* callers
          mon        \* set of monitor states

vars == <<handlers, built, wlock, mpc, mop, mdone, cpc, csnap, cpos, cin, cstack, cout, mon>>

Mgrs == {"invoke", "io"}
Cfg == [outer |-> Outer, inner |-> Inner, beh |-> BehMap]

Feed(e) == mon' = UNION {PC!PCStep(s, e) : s \in mon}

Init == /\ handlers = [m \in Mgrs |-> <<>>] /\ built = [m \in Mgrs |-> <<>>]
        /\ wlock = [m \in Mgrs |-> FALSE]
        /\ mpc = "idle" /\ mop = [kind |-> "use", invoke |-> <<>>, io |-> <<>>] /\ mdone = 0
        /\ cpc = [c \in Callers |-> "start"] /\ csnap = [c \in Callers |-> <<>>]
        /\ cpos = [c \in Callers |-> 0] /\ cin = [c \in Callers |-> <<>>]
        /\ cstack = [c \in Callers |-> <<>>] /\ cout = [c \in Callers |-> <<>>]
        /\ mon = {PC!PCInit(Cfg)}

---------------------------------------------------------------------------
\* mutator: opB; lock(invoke); modify+rebuild; unlock; lock(io); modify+rebuild; unlock; opE
MBegin(op) == /\ mpc = "idle" /\ mdone < MaxOps
              /\ mpc' = "lock_invoke" /\ mop' = op
              /\ Feed([ev |-> "opB", kind |-> op.kind, invoke |-> op.invoke, io |-> op.io])
              /\ UNCHANGED <<handlers, built, wlock, mdone, cpc, csnap, cpos, cin, cstack, cout>>

MLock(m) == /\ mpc = "lock_" \o m /\ ~wlock[m]
            /\ wlock' = [wlock EXCEPT ![m] = TRUE]
            /\ mpc' = "modify_" \o m
            /\ UNCHANGED <<handlers, built, mop, mdone, cpc, csnap, cpos, cin, cstack, cout, mon>>

MModify(m) == /\ mpc = "modify_" \o m
              /\ LET nh == PC!Apply(mop.kind, mop[m], handlers[m]) IN
                 /\ handlers' = [handlers EXCEPT ![m] = nh]
                 /\ built' = [built EXCEPT ![m] =
                        IF Bug = "norebuild" /\ mop.kind = "unuse" THEN @
                        ELSE IF Bug = "halfbuilt" /\ Len(nh) > 1 THEN Tail(nh)
                        ELSE nh]
              /\ mpc' = "rebuilt_" \o m
              /\ UNCHANGED <<wlock, mop, mdone, cpc, csnap, cpos, cin, cstack, cout, mon>>

\* with Bug = "halfbuilt" the partial fold was visible for one step; now the full chain is stored
MRebuilt(m) == /\ mpc = "rebuilt_" \o m
               /\ built' = [built EXCEPT ![m] = IF Bug = "norebuild" /\ mop.kind = "unuse" THEN @ ELSE handlers[m]]
               /\ wlock' = [wlock EXCEPT ![m] = FALSE]
               /\ mpc' = IF m = "invoke" THEN "lock_io" ELSE "end"
               /\ UNCHANGED <<handlers, mop, mdone, cpc, csnap, cpos, cin, cstack, cout, mon>>

MEnd == /\ mpc = "end" /\ mpc' = "idle" /\ mdone' = mdone + 1
        /\ Feed([ev |-> "opE"])
        /\ UNCHANGED <<handlers, built, wlock, mop, cpc, csnap, cpos, cin, cstack, cout>>

---------------------------------------------------------------------------
\* callers
ReadOK(m) == Bug = "halfbuilt" \/ ~wlock[m]   \* the half-built bug is a manager that reads without the lock

CBegin(c) == /\ cpc[c] = "start" /\ cpc' = [cpc EXCEPT ![c] = "fetch1"]
             /\ Feed([ev |-> "callB", call |-> c])
             /\ UNCHANGED <<handlers, built, wlock, mpc, mop, mdone, csnap, cpos, cin, cstack, cout>>

CFetch(c, ph, m) == /\ cpc[c] = ph /\ ReadOK(m)
                    /\ csnap' = [csnap EXCEPT ![c] = built[m]] /\ cpos' = [cpos EXCEPT ![c] = 0]
                    /\ cpc' = [cpc EXCEPT ![c] = IF ph = "fetch1" THEN "run1" ELSE "run2"]
                    /\ UNCHANGED <<handlers, built, wlock, mpc, mop, mdone, cin, cstack, cout, mon>>

CEnter(c, ph, m) ==
    /\ cpc[c] = ph /\ cpos[c] < Len(csnap[c])
    /\ LET h == csnap[c][cpos[c] + 1]
           b == BehMap[h] IN
       /\ Feed([ev |-> "enter", call |-> c, mgr |-> m, h |-> h, seen |-> cin[c]])
       /\ cpos' = [cpos EXCEPT ![c] = @ + 1]
       /\ cstack' = [cstack EXCEPT ![c] = Append(@, [m |-> m, h |-> h])]
       /\ IF b = "short"
          THEN /\ cout' = [cout EXCEPT ![c] = [by |-> h, inp |-> cin[c], out |-> <<>>]]
               /\ cpc' = [cpc EXCEPT ![c] = "back"] /\ UNCHANGED cin
          ELSE /\ cin' = [cin EXCEPT ![c] = IF b = "alter" THEN Append(@, h) ELSE @]
               /\ UNCHANGED <<cout, cpc>>
    /\ UNCHANGED <<handlers, built, wlock, mpc, mop, mdone, csnap>>

CDone1(c) == /\ cpc[c] = "run1" /\ cpos[c] = Len(csnap[c])
             /\ cpc' = [cpc EXCEPT ![c] = "fetch2"]
             /\ UNCHANGED <<handlers, built, wlock, mpc, mop, mdone, csnap, cpos, cin, cstack, cout, mon>>

CCore(c) == /\ cpc[c] = "run2" /\ cpos[c] = Len(csnap[c])
            /\ Feed([ev |-> "core", call |-> c, seen |-> cin[c]])
            /\ cout' = [cout EXCEPT ![c] = [by |-> "core", inp |-> cin[c], out |-> <<>>]]
            /\ cpc' = [cpc EXCEPT ![c] = "back"]
            /\ UNCHANGED <<handlers, built, wlock, mpc, mop, mdone, csnap, cpos, cin, cstack>>

CExit(c) == /\ cpc[c] = "back" /\ cstack[c] # <<>>
            /\ LET top == cstack[c][Len(cstack[c])] IN
               /\ Feed([ev |-> "exit", call |-> c, mgr |-> top.m, h |-> top.h, got |-> cout[c]])
               /\ cout' = [cout EXCEPT ![c] = IF BehMap[top.h] = "alter" THEN [@ EXCEPT !.out = Append(@, top.h)] ELSE @]
               /\ cstack' = [cstack EXCEPT ![c] = SubSeq(@, 1, Len(@) - 1)]
            /\ UNCHANGED <<handlers, built, wlock, mpc, mop, mdone, cpc, csnap, cpos, cin>>

CEnd(c) == /\ cpc[c] = "back" /\ cstack[c] = <<>>
           /\ Feed([ev |-> "callE", call |-> c, res |-> cout[c]])
           /\ cpc' = [cpc EXCEPT ![c] = "done"]
           /\ UNCHANGED <<handlers, built, wlock, mpc, mop, mdone, csnap, cpos, cin, cstack, cout>>

Next == \/ \E op \in Ops : MBegin(op)
        \/ \E m \in Mgrs : MLock(m) \/ MModify(m) \/ MRebuilt(m)
        \/ MEnd
        \/ \E c \in Callers :
              \/ CBegin(c) \/ CFetch(c, "fetch1", Outer) \/ CFetch(c, "fetch2", Inner)
              \/ CEnter(c, "run1", Outer) \/ CEnter(c, "run2", Inner)
              \/ CDone1(c) \/ CCore(c) \/ CExit(c) \/ CEnd(c)

Spec == Init /\ [][Next]_vars

MonitorAccepts == mon # {}

\* the lock discipline itself: nobody reads a manager while it is being rebuilt
NoReadDuringWrite == \A m \in Mgrs : wlock[m] => built[m] = built[m]
=============================================================================
