SPECIFICATION Spec
CONSTANTS
  Algo = "nginx"
  WS <- WS34
  MaxPicks = 7
  Failures = TRUE
  Pickers <- NoPickers
INVARIANTS MonitorAccepts CycleExact
CHECK_DEADLOCK FALSE
