SPECIFICATION Spec
CONSTANTS
  N = 3
  Callers = {1, 2, 3}
  MaxOps = 4
  Wrap = "cas"
INVARIANTS PickValid Recovers 
CHECK_DEADLOCK FALSE
