--------------------------- MODULE PluginManagerRace ---------------------------
(***************************************************************************)
(* Use and Unuse racing on one plugin manager (rpc/core/plugin_manager.go). *)
(* PluginManagerImpl has one mutator; here two mutators work on disjoint    *)
(* handlers (mutator m adds and removes handler m, in turns), so their      *)
(* operations commute on the handler list, and the question is only whether *)
(* the chain that calls fetch (`built`, pm.handler) is the fold of the list *)
(* (`handlers`) whenever no operation is in progress.                       *)
(*                                                                         *)
(* Split = FALSE is the code: Use and Unuse modify the list and rebuild the *)
(* chain in one critical section.  Split = TRUE builds the chain of a Use   *)
(* outside the lock from a snapshot and stores it in a second critical      *)
(* section (a seeded change): a concurrent Unuse in between is overwritten  *)
(* by the stale chain.                                                      *)
(***************************************************************************)
EXTENDS Integers, Sequences, FiniteSets, TLC

CONSTANTS Mutators, MaxOps, Split

VARIABLES handlers, built, lock, pc, snap, done
vars == <<handlers, built, lock, pc, snap, done>>

Init == /\ handlers = <<>> /\ built = <<>> /\ lock = 0
        /\ pc = [m \in Mutators |-> "idle"] /\ snap = [m \in Mutators |-> <<>>] /\ done = [m \in Mutators |-> 0]

Has(m) == \E i \in 1..Len(handlers) : handlers[i] = m
Without(s, m) == SelectSeq(s, LAMBDA x : x # m)

\* Use(m): Lock; handlers = append(handlers, m); [rebuild | snapshot]; Unlock; ([build]; Lock; store; Unlock)
UseLock(m) == /\ pc[m] = "idle" /\ done[m] < MaxOps /\ ~Has(m) /\ lock = 0
              /\ lock' = m /\ pc' = [pc EXCEPT ![m] = "use_cs"]
              /\ UNCHANGED <<handlers, built, snap, done>>
UseCS(m) == /\ pc[m] = "use_cs"
            /\ handlers' = Append(handlers, m)
            /\ IF Split THEN /\ snap' = [snap EXCEPT ![m] = Append(handlers, m)] /\ UNCHANGED built
                             /\ pc' = [pc EXCEPT ![m] = "use_build"]
               ELSE /\ built' = Append(handlers, m) /\ UNCHANGED snap
                    /\ pc' = [pc EXCEPT ![m] = "end"]
            /\ lock' = 0 /\ UNCHANGED done
UseStoreLock(m) == /\ pc[m] = "use_build" /\ lock = 0
                   /\ lock' = m /\ pc' = [pc EXCEPT ![m] = "use_store"]
                   /\ UNCHANGED <<handlers, built, snap, done>>
UseStore(m) == /\ pc[m] = "use_store"
               /\ built' = snap[m] /\ lock' = 0 /\ pc' = [pc EXCEPT ![m] = "end"]
               /\ UNCHANGED <<handlers, snap, done>>

\* Unuse(m): Lock; remove; rebuild; Unlock
UnuseLock(m) == /\ pc[m] = "idle" /\ done[m] < MaxOps /\ Has(m) /\ lock = 0
                /\ lock' = m /\ pc' = [pc EXCEPT ![m] = "unuse_cs"]
                /\ UNCHANGED <<handlers, built, snap, done>>
UnuseCS(m) == /\ pc[m] = "unuse_cs"
              /\ handlers' = Without(handlers, m) /\ built' = Without(handlers, m)
              /\ lock' = 0 /\ pc' = [pc EXCEPT ![m] = "end"]
              /\ UNCHANGED <<snap, done>>

End(m) == /\ pc[m] = "end" /\ pc' = [pc EXCEPT ![m] = "idle"] /\ done' = [done EXCEPT ![m] = @ + 1]
          /\ UNCHANGED <<handlers, built, lock, snap>>

Next == \E m \in Mutators : UseLock(m) \/ UseCS(m) \/ UseStoreLock(m) \/ UseStore(m) \/ UnuseLock(m) \/ UnuseCS(m) \/ End(m)
Spec == Init /\ [][Next]_vars

\* whenever no operation is in progress, calls fetch the fold of the installed handlers
Quiescent == \A m \in Mutators : pc[m] = "idle"
ChainIsList == Quiescent => built = handlers
\* and at no time does the chain hold a handler that no operation in progress could account for
NoGhost == \A i \in 1..Len(built) : Has(built[i]) \/ pc[built[i]] # "idle"
=============================================================================
