---------------------------- MODULE LimiterTrace ----------------------------
(* Trace validation of recorded limiter executions against Limiter.        *)
EXTENDS TraceKit, FiniteSets
LM == INSTANCE Limiter
VARIABLES l, poss, cur, failed, skip
MInit(e) == LM!LimInit(e)
MStep(s, e) == LM!LimStep(s, e)
NoOne(e) == ""
INSTANCE TraceLoop WITH InitStates <- MInit, Step <- MStep, One <- NoOne
=============================================================================
