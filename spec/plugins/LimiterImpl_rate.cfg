SPECIFICATION Spec
CONSTANTS
  Kind = "rate"
  Procs <- P2
  Max = 1
  HasTimeout = FALSE
  MaxP = 1
  MaxTok = 2
  MaxClock = 6
  Cancel = "none"
  Atomic = TRUE
INVARIANTS SemSafe NoWedge RateBound
CHECK_DEADLOCK FALSE
