-------------------------- MODULE PluginChainTrace --------------------------
(* Trace validation of recorded plugin traversals against PluginChain.     *)
EXTENDS TraceKit, FiniteSets
PC == INSTANCE PluginChain
PInit(e) == {PC!PCInit([outer |-> e.outer, inner |-> e.inner, beh |-> e.beh])}
PStep(s, e) == PC!PCStep(s, e)
VARIABLES l, poss, cur, failed, skip
NoOne(e) == ""
INSTANCE TraceLoop WITH InitStates <- PInit, Step <- PStep, One <- NoOne
=============================================================================
