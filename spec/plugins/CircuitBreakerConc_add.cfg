SPECIFICATION Spec
CONSTANTS
  Callers = {1, 2, 3}
  Threshold = 2
  Count = "add"
INVARIANT OpensAfterFailures
CHECK_DEADLOCK FALSE
