SPECIFICATION Spec
CONSTANTS
  Outer = "invoke"
  Inner = "io"
  Ops <- OpsC
  MaxOps = 2
  Callers <- CallersC
  BehMap <- BehC
  Bug = "norebuild"
INVARIANT MonitorAccepts
CHECK_DEADLOCK FALSE
