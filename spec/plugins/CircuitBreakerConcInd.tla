----------------------- MODULE CircuitBreakerConcInd -----------------------
(* Apalache: OpensAfterFailures of CircuitBreakerConc.tla by an inductive   *)
(* invariant, for every threshold in 0..6 and 8 concurrent callers:         *)
(* with the atomic add the counter equals the number of callers that have   *)
(* done their bookkeeping.  With load-then-store (CInitLoadStore) the       *)
(* invariant is not inductive.                                              *)
EXTENDS Integers, FiniteSets

CONSTANTS
    \* @type: Set(Int);
    Callers,
    \* @type: Int;
    Threshold,
    \* @type: Str;
    Count

VARIABLES
    \* @type: Int;
    fc,
    \* @type: Int -> Str;
    pc,
    \* @type: Int -> Int;
    seen

CInitAdd == Callers = 1..8 /\ Threshold \in 0..6 /\ Count = "add"
CInitLoadStore == Callers = 1..8 /\ Threshold \in 0..6 /\ Count = "loadstore"

Init == fc = 0 /\ pc = [c \in Callers |-> "failed"] /\ seen = [c \in Callers |-> 0]

Add(c) == /\ Count = "add" /\ pc[c] = "failed"
          /\ fc' = fc + 1 /\ pc' = [pc EXCEPT ![c] = "done"] /\ UNCHANGED seen
Load(c) == /\ Count = "loadstore" /\ pc[c] = "failed"
           /\ seen' = [seen EXCEPT ![c] = fc] /\ pc' = [pc EXCEPT ![c] = "loaded"] /\ UNCHANGED fc
Store(c) == /\ pc[c] = "loaded"
            /\ fc' = IF seen[c] <= Threshold THEN seen[c] + 1 ELSE fc
            /\ pc' = [pc EXCEPT ![c] = "done"] /\ UNCHANGED seen
Next == \E c \in Callers : Add(c) \/ Load(c) \/ Store(c)

Done == {c \in Callers : pc[c] = "done"}
IndInv == /\ pc \in [Callers -> {"failed", "loaded", "done"}]
          /\ seen \in [Callers -> Int]
          /\ fc = Cardinality(Done)
          /\ (Count = "add" => \A c \in Callers : pc[c] # "loaded")
IndInit == IndInv
OpensAfterFailures == ((\A c \in Callers : pc[c] = "done") /\ Cardinality(Callers) > Threshold) => fc > Threshold
=============================================================================
