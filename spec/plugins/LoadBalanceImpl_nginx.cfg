SPECIFICATION Spec
CONSTANTS
  Algo = "nginx"
  WS <- WS34
  MaxPicks = 25
  Failures = FALSE
  Pickers <- NoPickers
INVARIANTS MonitorAccepts CycleExact
CHECK_DEADLOCK FALSE
