--------------------------- MODULE CircuitBreaker ---------------------------
(***************************************************************************)
(* rpc/plugins/circuitbreaker/circuitbreaker.go                            *)
(*                                                                         *)
(* Abstract state of one breaker: the failure counter `fc`.  Time is       *)
(* abstracted to the answer to one question asked at the start of a call   *)
(* that finds the breaker open: has the recovery time elapsed since the    *)
(* last failure?  "no" / "yes" / "maybe" ("maybe" is what a harness that   *)
(* only has monotonic clock readings around the call can sometimes say).   *)
(*                                                                         *)
(* A call is described by its input [o, el] - o the outcome the downstream *)
(* handler would produce if invoked - and its observable output            *)
(* [fwd, res]: was the downstream handler invoked, and what did the caller *)
(* get ("ok" | "err" | "panic" | "break" | "mock").                        *)
(*                                                                         *)
(* Two readings are given.  Strict = TRUE is the implementation: when the  *)
(* recovery time has elapsed the counter restarts at threshold \div 2      *)
(* (the code's `threshold>>1`, action HalfOpen).  Strict = FALSE is the    *)
(* property: the statement does not say how many further failures re-open  *)
(* a recovered breaker, so the counter may restart anywhere in             *)
(* 0..threshold.  Traces are judged against Strict = FALSE; the model      *)
(* checker shows Strict = TRUE refines it.                                 *)
(***************************************************************************)
EXTENDS Naturals, Sequences, FiniteSets

Outcomes == {"ok", "err", "panic"}
ElapsedClasses == {"no", "yes", "maybe"}

Cfg(threshold, mock) == [threshold |-> threshold, mock |-> mock]
St(fc, cfg) == [fc |-> fc, cfg |-> cfg]

Open(s) == s.fc > s.cfg.threshold

HalfOpenValues(t, strict) == IF strict THEN {t \div 2} ELSE 0..t

Reject(s) == [st |-> s, fwd |-> FALSE, res |-> IF s.cfg.mock THEN "mock" ELSE "break"]

Forward(s, base, o) ==
    [st |-> [s EXCEPT !.fc = IF o = "ok" THEN 0 ELSE base + 1], fwd |-> TRUE, res |-> o]

\* every (successor state, observable output) a call may have
CallOutcomes(s, o, el, strict) ==
    IF ~Open(s)
    THEN {Forward(s, s.fc, o)}
    ELSE (IF el \in {"no", "maybe"} THEN {Reject(s)} ELSE {})
         \cup
         (IF el \in {"yes", "maybe"}
          THEN {Forward(s, h, o) : h \in HalfOpenValues(s.cfg.threshold, strict)}
          ELSE {})

-----------------------------------------------------------------------------
(* Exhaustive model: all outcome sequences, with history variables that     *)
(* state the property without mentioning the counter.                      *)
CONSTANTS MaxThreshold, MaxLen

VARIABLES st,        \* implementation-shaped state (Strict reading)
          streak,    \* consecutive forwarded failures with no possible elapse since the first of them
          n,         \* calls so far
          last       \* last observable output

vars == <<st, streak, n, last>>

Init == /\ st \in {St(0, Cfg(t, m)) : t \in 0..MaxThreshold, m \in BOOLEAN}
        /\ streak = 0 /\ n = 0
        /\ last = [fwd |-> TRUE, res |-> "ok", el |-> "no"]

Call(o, el) ==
    \E r \in CallOutcomes(st, o, el, TRUE) :
        /\ st' = r.st
        /\ last' = [fwd |-> r.fwd, res |-> r.res, el |-> el]
        /\ n' = n + 1
        /\ streak' = IF ~r.fwd THEN streak
                     ELSE IF o = "ok" THEN 0
                     ELSE IF el = "no" \/ streak = 0 THEN streak + 1 ELSE 1

Next == n < MaxLen /\ \E o \in Outcomes, el \in ElapsedClasses : Call(o, el)

Spec == Init /\ [][Next]_vars

TypeOK == st.fc \in 0..(st.cfg.threshold + 1) /\ streak \in 0..MaxLen

\* the implementation reading refines the property reading, step by step
Refines == \A o \in Outcomes, el \in ElapsedClasses :
              CallOutcomes(st, o, el, TRUE) \subseteq CallOutcomes(st, o, el, FALSE)

\* "no sequence makes it reject calls while it should be closed": a rejection only happens
\* after more than threshold consecutive forwarded failures, and never when the recovery
\* time has certainly elapsed
RejectOnlyWhenOpen ==
    ~last.fwd => /\ st.fc > st.cfg.threshold
                 /\ last.el # "yes"
                 /\ last.res = IF st.cfg.mock THEN "mock" ELSE "break"

\* "... or forward calls while it should be open": more than threshold consecutive failures,
\* all of them within the recovery time, leave the breaker open
OpenAfterStreak == streak > st.cfg.threshold => Open(st)

\* a success closes the breaker
SuccessResets == (last.fwd /\ last.res = "ok") => st.fc = 0

\* a forwarded call's result is the downstream outcome, never the break error
ForwardTransparent == last.fwd => last.res \in Outcomes
=============================================================================
