----------------------------- MODULE ClusterImpl -----------------------------
(***************************************************************************)
(* Implementation-shaped model of Cluster.Handler with FailoverConfig /     *)
(* FailtryConfig / FailfastConfig (rpc/plugins/cluster/cluster.go): the     *)
(* deferred retry recursion, the per-call context items `retried`, and the *)
(* rotation index that FailoverConfig shares between all calls of a client *)
(* while every call starts at URLs[0].  Sequential calls on one client.    *)
(*                                                                         *)
(* Every observable step feeds the Cluster monitor; MonitorAccepts is the  *)
(* refinement ClusterImpl => Cluster.  SkipFailed = TRUE models OnFailure  *)
(* as repaired (skip the server that has just failed); SkipFailed = FALSE  *)
(* is the original code, kept as a negative control: TLC finds the         *)
(* schedule s0 s1 | s0 s0.                                                 *)
(***************************************************************************)
EXTENDS Integers, Sequences, FiniteSets, TLC

CONSTANTS Mode, NServers, Retry, Idem, MaxCalls, SkipFailed

CL == INSTANCE Cluster

Outcomes == {"ok", "err", "panic"}
Name(i) == <<"s0", "s1", "s2", "s3">>[i + 1]
Servers == [i \in 1..NServers |-> Name(i - 1)]

VARIABLES index,    \* FailoverConfig's shared rotation index
          pc,       \* "idle" | "try" | "ret"
          url, retried, idem, k, last, done, mon

vars == <<index, pc, url, retried, idem, k, last, done, mon>>

Feed(e) == mon' = UNION {CL!ClStep(s, e) : s \in mon}

Init == /\ index = 0 /\ pc = "idle" /\ url = 0 /\ retried = 0 /\ idem = FALSE /\ k = 0
        /\ last = [kind |-> "ok", url |-> "s0", k |-> 0] /\ done = 0
        /\ mon = {CL!ClInit([mode |-> Mode, servers |-> Servers, retry |-> Retry, idem |-> Idem])}

\* getIndex(&index, n): returns <<result, new index>>
GetIndex(ix) == IF NServers > 1
                THEN IF ix + 1 < NServers THEN <<ix + 1, ix + 1>> ELSE <<0, 0>>
                ELSE <<0, ix>>

RECURSIVE Pick(_, _, _)
Pick(ix, cur, tries) ==
    LET g == GetIndex(ix) IN
    IF SkipFailed /\ g[1] = cur /\ tries > 1 THEN Pick(g[2], cur, tries - 1) ELSE g

Begin(ov) == /\ pc = "idle" /\ done < MaxCalls
             /\ pc' = "try" /\ url' = 0 /\ retried' = 0
             /\ idem' = (IF ov = "default" THEN Idem ELSE ov = "true")
             /\ Feed([ev |-> "callB", idem |-> ov, retry |-> -1])
             /\ UNCHANGED <<index, k, last, done>>

Attempt(o) ==
    /\ pc = "try"
    /\ k' = k + 1
    /\ Feed([ev |-> "attempt", url |-> Name(url), o |-> o, k |-> k + 1])
    /\ last' = [kind |-> o, url |-> Name(url), k |-> k + 1]
    /\ IF o = "ok"
       THEN pc' = "ret" /\ UNCHANGED <<index, url, retried>>
       ELSE \* deferred section: OnFailure, then the retry decision
            LET g == IF Mode = "failover" THEN Pick(index, url, NServers) ELSE <<url, index>> IN
            /\ index' = g[2] /\ url' = g[1]
            /\ IF Mode # "failfast" /\ idem /\ retried < Retry
               THEN retried' = retried + 1 /\ pc' = "try"
               ELSE pc' = "ret" /\ UNCHANGED retried
    /\ UNCHANGED <<idem, done>>

Return == /\ pc = "ret" /\ pc' = "idle" /\ done' = done + 1
          /\ Feed([ev |-> "callE", res |-> last])
          /\ UNCHANGED <<index, url, retried, idem, k, last>>

Next == (\E ov \in {"default", "true", "false"} : Begin(ov)) \/ (\E o \in Outcomes : Attempt(o)) \/ Return

Spec == Init /\ [][Next]_vars

MonitorAccepts == mon # {}
AttemptsBounded == retried <= Retry
=============================================================================
