-------------------------- MODULE ClusterIndexInd --------------------------
(* Apalache: the invariants of ClusterIndex.tla are inductive, i.e. they    *)
(* hold for executions of any length (TLC explores MaxOps <= 4 per caller), *)
(* for every N in 2..8 and 6 callers:                                       *)
(*   Init => IndInv            --cinit=CInitStore --init=Init --inv=IndInv --length=0    *)
(*   IndInv /\ Next => IndInv'  --cinit=CInitStore --init=IndInit --inv=IndInv --length=1 *)
(*   IndInv => Recovers        --cinit=CInitStore --init=IndInit --inv=Recovers --length=0 *)
(* With the compare-and-swap wrap-around (CInitCas) the second step fails.  *)
EXTENDS Integers, FiniteSets

CONSTANTS
    \* @type: Int;
    N,
    \* @type: Set(Int);
    Callers,
    \* @type: Str;
    Wrap

VARIABLES
    \* @type: Int;
    index,
    \* @type: Int -> Str;
    pc,
    \* @type: Int -> Int;
    picked

CInitStore == N \in 2..8 /\ Callers = 1..6 /\ Wrap = "store"
CInitCas == N \in 2..8 /\ Callers = 1..6 /\ Wrap = "cas"      \* negative control: IndInv is not inductive

Init == /\ index = 0 /\ pc = [c \in Callers |-> "idle"] /\ picked = [c \in Callers |-> 0]

Add(c) == /\ pc[c] = "idle"
          /\ index' = index + 1
          /\ IF index + 1 < N
             THEN pc' = pc /\ picked' = [picked EXCEPT ![c] = index + 1]
             ELSE pc' = [pc EXCEPT ![c] = "wrap"] /\ UNCHANGED picked

WrapAround(c) == /\ pc[c] = "wrap"
                 /\ index' = IF Wrap = "store" \/ index = N THEN 0 ELSE index
                 /\ pc' = [pc EXCEPT ![c] = "idle"] /\ picked' = [picked EXCEPT ![c] = 0]

Next == \E c \in Callers : Add(c) \/ WrapAround(c)

TypeOK == /\ index \in Int
          /\ pc \in [Callers -> {"idle", "wrap"}]
          /\ picked \in [Callers -> Int]
Wrapping == {c \in Callers : pc[c] = "wrap"}
IndInv == /\ TypeOK
          /\ index >= 0
          /\ index <= N - 1 + Cardinality(Wrapping)
          /\ \A c \in Callers : picked[c] \in 0..(N - 1)
IndInit == IndInv
Recovers == (\A c \in Callers : pc[c] = "idle") => index \in 0..(N - 1)
=============================================================================
