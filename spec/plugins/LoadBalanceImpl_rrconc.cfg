SPECIFICATION Spec
CONSTANTS
  Algo = "rr"
  WS <- WSones
  MaxPicks = 5
  Failures = FALSE
  Pickers <- P3
INVARIANTS MonitorAccepts CycleExact
CHECK_DEADLOCK FALSE
