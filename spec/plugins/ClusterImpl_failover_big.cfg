SPECIFICATION Spec
CONSTANTS
  Mode = "failover"
  NServers = 3
  Retry = 3
  Idem = TRUE
  MaxCalls = 4
  SkipFailed = TRUE
INVARIANTS MonitorAccepts AttemptsBounded
CHECK_DEADLOCK FALSE
