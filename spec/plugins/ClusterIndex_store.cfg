SPECIFICATION Spec
CONSTANTS
  N = 3
  Callers = {1, 2, 3}
  MaxOps = 4
  Wrap = "store"
INVARIANTS PickValid Recovers Bounded
CHECK_DEADLOCK FALSE
