SPECIFICATION Spec
CONSTANTS
  Mode = "failover"
  NServers = 2
  Retry = 2
  Idem = TRUE
  MaxCalls = 3
  SkipFailed = FALSE
INVARIANTS MonitorAccepts AttemptsBounded
CHECK_DEADLOCK FALSE
