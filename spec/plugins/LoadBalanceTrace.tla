-------------------------- MODULE LoadBalanceTrace --------------------------
(* Trace validation of recorded load-balancer picks against LoadBalance.   *)
EXTENDS TraceKit, FiniteSets
LB == INSTANCE LoadBalance
LInit(e) == {LB!LBInit(e)}
LStep(s, e) == LB!LBStep(s, e)
VARIABLES l, poss, cur, failed, skip
NoOne(e) == ""
INSTANCE TraceLoop WITH InitStates <- LInit, Step <- LStep, One <- NoOne
=============================================================================
