SPECIFICATION Spec
CONSTANTS
  MaxThreshold = 3
  MaxLen = 7
INVARIANTS
  TypeOK
  Refines
  RejectOnlyWhenOpen
  OpenAfterStreak
  SuccessResets
  ForwardTransparent
CHECK_DEADLOCK FALSE
