-------------------------- MODULE LoadBalanceImplMC --------------------------
EXTENDS LoadBalanceImpl
Vectors(maxN, maxW) == UNION {[1..n -> 1..maxW] : n \in 1..maxN}
WS34 == Vectors(3, 4)
WS45 == Vectors(4, 5)
WSones == {[i \in 1..n |-> 1] : n \in 1..5}
P3 == {1, 2, 3}
NoPickers == {}
=============================================================================
