SPECIFICATION Spec
CONSTANTS
  Outer = "invoke"
  Inner = "io"
  Ops <- OpsC
  MaxOps = 3
  Callers <- CallersC
  BehMap <- BehC
  Bug = "none"
INVARIANT MonitorAccepts
CHECK_DEADLOCK FALSE
