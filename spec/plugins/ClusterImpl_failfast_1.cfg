SPECIFICATION Spec
CONSTANTS
  Mode = "failfast"
  NServers = 1
  Retry = 2
  Idem = TRUE
  MaxCalls = 3
  SkipFailed = TRUE
INVARIANTS MonitorAccepts AttemptsBounded
CHECK_DEADLOCK FALSE
