SPECIFICATION Spec
CONSTANTS
  Algo = "wrr"
  WS <- WS34
  MaxPicks = 25
  Failures = FALSE
  Pickers <- NoPickers
INVARIANTS MonitorAccepts CycleExact
CHECK_DEADLOCK FALSE
