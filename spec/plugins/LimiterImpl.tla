----------------------------- MODULE LimiterImpl -----------------------------
(***************************************************************************)
(* Implementation-shaped models of rpc/plugins/limiter.                    *)
(*                                                                         *)
(* Kind = "sem": ConcurrentLimiter - a buffered channel used as counting   *)
(* semaphore; Acquire is `select { timeout | tasks <- }`, Release is       *)
(* deferred in Handler.  Requests end ok / err / panic.  Feeds the Limiter *)
(* monitor (MonitorAccepts) and checks InFlight <= Max, PermitsConserved   *)
(* and NoWedge directly.  SCancel: the caller's own context ends while it  *)
(* waits (Acquire selects on a context derived from it).                   *)
(*                                                                         *)
(* Kind = "rate": RateLimiter.Acquire over integer time with one permit    *)
(* per tick: now := clock; last := Load(next); next' := max(last + n,      *)
(* now - maxP) ; admitted at max(now, last).  Atomic = TRUE performs        *)
(* load..store as one step (compare-and-swap loop); Atomic = FALSE is the  *)
(* separate Load and Store of the original code.  RateBound: permits       *)
(* admitted by time t <= maxP + 2*MaxTok + t.                              *)
(***************************************************************************)
EXTENDS Integers, Sequences, FiniteSets, TLC

CONSTANTS Kind, Procs, Max, HasTimeout, MaxP, MaxTok, MaxClock, Atomic,
          Cancel    \* the caller's context is cancelled while it waits for a permit: "none" (not modelled) |
                    \* "timeout" (the code: any end of the context is the timeout error, no permit taken) |
                    \* "admit" (negative control: only DeadlineExceeded is reported, a cancelled caller goes on)

LM == INSTANCE Limiter

VARIABLES pc, tasks, mon, outc,          \* semaphore
          clock, next, lastv, nowv, tok, admitAt, admitted   \* rate
vars == <<pc, tasks, mon, outc, clock, next, lastv, nowv, tok, admitAt, admitted>>

Feed(e) == mon' = UNION {LM!LimStep(s, e) : s \in mon}
Feed2(e1, e2) == mon' = UNION {LM!LimStep(s2, e2) : s2 \in UNION {LM!LimStep(s, e1) : s \in mon}}

Init == /\ pc = [p \in Procs |-> "idle"] /\ tasks = 0 /\ outc = [p \in Procs |-> "ok"]
        /\ mon = IF Kind = "sem"
                 THEN LM!LimInit([kind |-> "sem", max |-> Max, timeout |-> IF HasTimeout THEN 5 ELSE 0])
                 ELSE {}
        /\ clock = 0 /\ next = 0 /\ lastv = [p \in Procs |-> 0] /\ nowv = [p \in Procs |-> 0]
        /\ tok = [p \in Procs |-> 1] /\ admitAt = [p \in Procs |-> 0] /\ admitted = 0

RateVars == <<clock, next, lastv, nowv, tok, admitAt, admitted>>

---------------------------------------------------------------------------
\* semaphore
SBegin(p) == /\ Kind = "sem" /\ pc[p] = "idle" /\ pc' = [pc EXCEPT ![p] = "acquire"]
             /\ Feed([ev |-> "acqB", c |-> p, t |-> 0]) /\ UNCHANGED <<tasks, outc, RateVars>>
SAcquire(p) == /\ pc[p] = "acquire" /\ tasks < Max /\ tasks' = tasks + 1
               /\ pc' = [pc EXCEPT ![p] = "running"]
               /\ Feed([ev |-> "enter", c |-> p]) /\ UNCHANGED <<outc, RateVars>>
STimeout(p) == /\ pc[p] = "acquire" /\ HasTimeout /\ pc' = [pc EXCEPT ![p] = "done"]
               /\ Feed([ev |-> "end", c |-> p, res |-> "timeout", t |-> 5]) /\ UNCHANGED <<tasks, outc, RateVars>>
SCancel(p) == /\ pc[p] = "acquire" /\ HasTimeout /\ Cancel # "none"
              /\ IF Cancel = "timeout"
                 THEN /\ pc' = [pc EXCEPT ![p] = "done"]
                      /\ Feed2([ev |-> "cancel", c |-> p], [ev |-> "end", c |-> p, res |-> "timeout", t |-> 0])
                 ELSE /\ pc' = [pc EXCEPT ![p] = "running"]      \* Acquire returns nil: no permit was taken
                      /\ Feed2([ev |-> "cancel", c |-> p], [ev |-> "enter", c |-> p])
              /\ UNCHANGED <<tasks, outc, RateVars>>
SFinish(p, o) == /\ pc[p] = "running" /\ pc' = [pc EXCEPT ![p] = "release"] /\ outc' = [outc EXCEPT ![p] = o]
                 /\ Feed([ev |-> "exit", c |-> p, o |-> o]) /\ UNCHANGED <<tasks, RateVars>>
SRelease(p) == /\ pc[p] = "release" /\ tasks' = tasks - 1 /\ pc' = [pc EXCEPT ![p] = "done"]
               /\ Feed([ev |-> "end", c |-> p, res |-> outc[p], t |-> 0]) /\ UNCHANGED <<outc, RateVars>>

InFlight == Cardinality({p \in Procs : pc[p] \in {"running", "release"}})
SemSafe == Kind = "sem" => /\ InFlight <= Max
                           /\ tasks = InFlight                \* PermitsConserved
                           /\ mon # {}                        \* MonitorAccepts
\* NoWedge: when every request has ended all permits are back
NoWedge == (Kind = "sem" /\ \A p \in Procs : pc[p] = "done") => tasks = 0

---------------------------------------------------------------------------
\* rate limiter
Max2(a, b) == IF a > b THEN a ELSE b
NewNext(last, now, n) == Max2(last + n, now - MaxP)

RLoad(p, n) == /\ Kind = "rate" /\ pc[p] = "idle" /\ n \in 1..MaxTok
               /\ nowv' = [nowv EXCEPT ![p] = clock] /\ lastv' = [lastv EXCEPT ![p] = next]
               /\ tok' = [tok EXCEPT ![p] = n]
               /\ IF Atomic
                  THEN /\ next' = NewNext(next, clock, n)
                       /\ admitAt' = [admitAt EXCEPT ![p] = Max2(clock, next)]
                       /\ pc' = [pc EXCEPT ![p] = "wait"]
                  ELSE /\ pc' = [pc EXCEPT ![p] = "store"] /\ UNCHANGED <<next, admitAt>>
               /\ UNCHANGED <<tasks, mon, outc, clock, admitted>>
RStore(p) == /\ pc[p] = "store"
             /\ next' = NewNext(lastv[p], nowv[p], tok[p])
             /\ admitAt' = [admitAt EXCEPT ![p] = Max2(nowv[p], lastv[p])]
             /\ pc' = [pc EXCEPT ![p] = "wait"]
             /\ UNCHANGED <<tasks, mon, outc, clock, lastv, nowv, tok, admitted>>
RAdmit(p) == /\ pc[p] = "wait" /\ clock >= admitAt[p]
             /\ admitted' = admitted + tok[p] /\ pc' = [pc EXCEPT ![p] = "idle"]
             /\ UNCHANGED <<tasks, mon, outc, clock, next, lastv, nowv, tok, admitAt>>
\* time may not pass an admission that is due (the waiting caller's timer fires on time)
Tick == /\ Kind = "rate" /\ clock < MaxClock
        /\ \A p \in Procs : pc[p] = "wait" => clock < admitAt[p]
        /\ clock' = clock + 1
        /\ UNCHANGED <<pc, tasks, mon, outc, next, lastv, nowv, tok, admitAt, admitted>>

RateBound == Kind = "rate" => admitted <= MaxP + 2 * MaxTok + clock

Next == \/ \E p \in Procs : SBegin(p) \/ SAcquire(p) \/ STimeout(p) \/ SCancel(p) \/ SRelease(p) \/ (\E o \in {"ok", "err", "panic"} : SFinish(p, o))
        \/ \E p \in Procs : (\E n \in 1..MaxTok : RLoad(p, n)) \/ RStore(p) \/ RAdmit(p)
        \/ Tick
Spec == Init /\ [][Next]_vars
=============================================================================
