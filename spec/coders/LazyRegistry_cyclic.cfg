SPECIFICATION LiveSpec
CONSTANTS
  Types <- TypesC
  Embeds <- EmbedsC
  Roots <- RootsCyc
  Locked = TRUE
INVARIANT NeverUseIncomplete
PROPERTY AllFinish
CHECK_DEADLOCK FALSE
