----------------------------- MODULE CodersTrace -----------------------------
EXTENDS TraceKit, FiniteSets
CD == INSTANCE Coders
VARIABLES l, poss, cur, failed, skip
NoInit(e) == {0}
NoStep(s, e) == {s}
Judge(e) == CD!C14Why(e)
INSTANCE TraceLoop WITH InitStates <- NoInit, Step <- NoStep, One <- Judge
=============================================================================
