SPECIFICATION LiveSpec
CONSTANTS
  Types <- TypesC
  Embeds <- EmbedsC
  Roots <- Roots2
  Locked = FALSE
INVARIANT NeverUseIncomplete
PROPERTY AllFinish
CHECK_DEADLOCK FALSE
