-------------------------------- MODULE Coders --------------------------------
(***************************************************************************)
(* Property C14, judgement of one observation: what a coder produced under *)
(* concurrency, from the pool, or after its input was overwritten (got)    *)
(* against what it produces alone, fresh, before the overwrite (want).     *)
(* Bytes are compared exactly; decoded values by HproseFormat!SameValue in *)
(* both directions (their node numbering may differ).                      *)
(***************************************************************************)
EXTENDS Integers, Sequences, FiniteSets, TLC
HF == INSTANCE HproseFormat

IsGraph(x) == DOMAIN x = DOMAIN [nodes |-> 0, root |-> 0, extra |-> 0]
IsDecoded(x) == "v" \in DOMAIN x /\ "err" \in DOMAIN x
SameGraph(a, b) == HF!SameValue(a, b, {}) /\ HF!SameValue(b, a, {})

C14Why(e) ==
    IF e.got = e.want THEN ""
    ELSE IF IsGraph(e.want) /\ IsGraph(e.got) THEN (IF SameGraph(e.got, e.want) THEN "" ELSE e.what \o ": value differs")
    ELSE IF IsDecoded(e.want) /\ IsDecoded(e.got)
         THEN (IF e.got.err = e.want.err /\ SameGraph(e.got.v, e.want.v) THEN "" ELSE e.what \o ": outcome differs")
    ELSE e.what \o ": bytes differ"
=============================================================================
