-------------------------------- MODULE Coders --------------------------------
(***************************************************************************)
(* Property C14, judgement of one observation: what a coder produced under *)
(* concurrency, from the pool, or after its input was overwritten (got)    *)
(* against what it produces alone, fresh, before the overwrite (want).     *)
(* Bytes are compared exactly; decoded values by HproseFormat!SameValue in *)
(* both directions (their node numbering may differ).                      *)
(***************************************************************************)
EXTENDS Integers, Sequences, FiniteSets, TLC
HF == INSTANCE HproseFormat

\* e.gshape / e.wshape say what got / want are: "bytes" (a hex string), "graph" or "decoded" ([v, err])
SameGraph(a, b) == HF!SameValue(a, b, {"same-kinds"}) /\ HF!SameValue(b, a, {"same-kinds"})

C14Why(e) ==
    IF e.got = e.want THEN ""
    ELSE IF e.wshape = "graph" /\ e.gshape = "graph" THEN (IF SameGraph(e.got, e.want) THEN "" ELSE e.what \o ": value differs")
    ELSE IF e.wshape = "decoded" /\ e.gshape = "decoded"
         THEN (IF e.got.err = e.want.err /\ SameGraph(e.got.v, e.want.v) THEN "" ELSE e.what \o ": outcome differs")
    ELSE e.what \o ": bytes differ"
=============================================================================
