SPECIFICATION Spec
CONSTANTS
  Forget = {}
  MaxUses = 3
INVARIANT PoolClean
CHECK_DEADLOCK FALSE
