---------------------------- MODULE LazyRegistry ----------------------------
(***************************************************************************)
(* The lazy per-type coder registries of io (struct_encoder.go,            *)
(* struct_decoder.go, value_encoder.go): a named struct coder is published *)
(* in the registry BEFORE its fields are computed, because computing the   *)
(* fields of a recursive type looks the type's own coder up.               *)
(*                                                                         *)
(* Types form a graph Embeds (t embeds the types in Embeds[t]).  A         *)
(* goroutine that needs the coder of t: Load hit -> has it; Load miss ->   *)
(* Publish a fresh, incomplete coder; then, for each embedded type, obtain *)
(* that type's coder (recursively, which may find another goroutine's      *)
(* incomplete one); Complete; finally Use the coder of its root type,      *)
(* which reads the fields of the coder and of every coder reachable        *)
(* through embedding.                                                      *)
(*                                                                         *)
(* Locked = TRUE is the discipline of the struct decoder and, since the    *)
(* repair, the struct encoder: the constructor holds the coder's lock from *)
(* publication to completion and Use takes it for reading, i.e. Use waits. *)
(* Locked = FALSE is the original encoder: TLC finds the use of a          *)
(* half-built coder.  NeverUseIncomplete is the invariant; NoDeadlock      *)
(* (every goroutine can always finish) is checked as a liveness property.  *)
(***************************************************************************)
EXTENDS Integers, Sequences, FiniteSets, TLC

CONSTANTS Types, Embeds, Roots, Locked
\* Roots: goroutine -> the type it encodes

Procs == DOMAIN Roots

VARIABLES registry,   \* type -> coder id (0 = none); coders are numbered in order of publication
          complete,   \* coder id -> BOOLEAN
          owner,      \* coder id -> the type it is for
          stack,      \* goroutine -> stack of [t, c, todo] frames (construction in progress)
          pc,         \* goroutine -> "need" | "build" | "use" | "done"
          usedIncomplete

vars == <<registry, complete, owner, stack, pc, usedIncomplete>>
NCoders == Len(complete)

Init == /\ registry = [t \in Types |-> 0]
        /\ complete = <<>> /\ owner = <<>>
        /\ stack = [p \in Procs |-> <<>>]
        /\ pc = [p \in Procs |-> "need"]
        /\ usedIncomplete = FALSE

Top(p) == stack[p][Len(stack[p])]
Pop(p) == SubSeq(stack[p], 1, Len(stack[p]) - 1)

\* the goroutine needs the coder of type t (its root, or the next embedded type of the frame on top)
Wanted(p) == IF stack[p] = <<>> THEN Roots[p] ELSE CHOOSE t \in Top(p).todo : TRUE

Need(p) ==
    /\ pc[p] = "need"
    /\ LET t == Wanted(p) IN
       IF registry[t] # 0
       THEN \* Load hit: take the pointer (complete or not) and go on
            /\ IF stack[p] = <<>>
               THEN pc' = [pc EXCEPT ![p] = "use"] /\ UNCHANGED stack
               ELSE /\ stack' = [stack EXCEPT ![p] = Pop(p) \o <<[Top(p) EXCEPT !.todo = @ \ {t}]>>]
                    /\ pc' = [pc EXCEPT ![p] = "build"]
            /\ UNCHANGED <<registry, complete, owner>>
       ELSE \* Load miss: publish an incomplete coder and start computing its fields
            /\ complete' = Append(complete, FALSE) /\ owner' = Append(owner, t)
            /\ registry' = [registry EXCEPT ![t] = NCoders + 1]
            /\ stack' = [stack EXCEPT ![p] = IF stack[p] = <<>> THEN <<[t |-> t, c |-> NCoders + 1, todo |-> Embeds[t]]>>
                                               ELSE Pop(p) \o <<[Top(p) EXCEPT !.todo = @ \ {t}], [t |-> t, c |-> NCoders + 1, todo |-> Embeds[t]]>>]
            /\ pc' = [pc EXCEPT ![p] = "build"]
    /\ UNCHANGED usedIncomplete

Build(p) ==
    /\ pc[p] = "build"
    /\ IF Top(p).todo # {}
       THEN pc' = [pc EXCEPT ![p] = "need"] /\ UNCHANGED <<complete, stack>>
       ELSE \* all fields computed: Complete (and release the lock)
            /\ complete' = [complete EXCEPT ![Top(p).c] = TRUE]
            /\ stack' = [stack EXCEPT ![p] = Pop(p)]
            /\ pc' = [pc EXCEPT ![p] = IF Len(stack[p]) = 1 THEN "use" ELSE "build"]
    /\ UNCHANGED <<registry, owner, usedIncomplete>>

\* the coders a Use of type t reads: t's and, through embedding, the others'
RECURSIVE Reach(_, _)
Reach(S, n) == IF n = 0 THEN S ELSE Reach(S \cup UNION {Embeds[t] : t \in S}, n - 1)
UsedCoders(p) == {registry[t] : t \in Reach({Roots[p]}, Cardinality(Types))} \ {0}

Use(p) ==
    /\ pc[p] = "use"
    /\ Locked => \A c \in UsedCoders(p) : complete[c]      \* the read lock is only granted once the coder is complete
    /\ usedIncomplete' = (usedIncomplete \/ \E c \in UsedCoders(p) : ~complete[c])
    /\ pc' = [pc EXCEPT ![p] = "done"]
    /\ UNCHANGED <<registry, complete, owner, stack>>

Next == \E p \in Procs : Need(p) \/ Build(p) \/ Use(p)
Spec == Init /\ [][Next]_vars
LiveSpec == Spec /\ \A p \in Procs : WF_vars(Need(p) \/ Build(p) \/ Use(p))

NeverUseIncomplete == ~usedIncomplete
AllFinish == <>(\A p \in Procs : pc[p] = "done")
=============================================================================
