------------------------------ MODULE CoderPool ------------------------------
(***************************************************************************)
(* Pooled encoders and decoders (io/pool.go).  The state of a coder that   *)
(* a use can leave behind: simple mode, the reference table, the class     *)
(* table, the sticky error, the decoder options, the buffer.  A use sets   *)
(* any of them; FreeEncoder / FreeDecoder do Simple(false) (which resets   *)
(* the reference and class tables) and ResetBuffer (buffer, error,         *)
(* options).  PoolClean: whatever the sequence of uses, the coder that Get *)
(* hands out next is indistinguishable from a fresh one.  Forget names     *)
(* fields that Free does not reset - {} for the code as it is; a non-empty *)
(* set is a negative control.                                              *)
(***************************************************************************)
EXTENDS Integers, FiniteSets, TLC

CONSTANTS Forget, MaxUses
Fields == {"simple", "refs", "classes", "error", "options", "buffer"}
Fresh == [f \in Fields |-> FALSE]      \* FALSE = as in a new coder

VARIABLES obj, inUse, uses
vars == <<obj, inUse, uses>>

Init == obj = Fresh /\ inUse = FALSE /\ uses = 0
Get == ~inUse /\ uses < MaxUses /\ inUse' = TRUE /\ uses' = uses + 1 /\ UNCHANGED obj
\* a use dirties any subset of the fields
Use(S) == inUse /\ obj' = [f \in Fields |-> obj[f] \/ f \in S] /\ UNCHANGED <<inUse, uses>>
Free == /\ inUse /\ inUse' = FALSE /\ UNCHANGED uses
        /\ obj' = [f \in Fields |-> IF f \in Forget THEN obj[f] ELSE FALSE]
Next == Get \/ Free \/ \E S \in SUBSET Fields : Use(S)
Spec == Init /\ [][Next]_vars

PoolClean == ~inUse => obj = Fresh
=============================================================================
