--------------------------- MODULE LazyRegistryMC ---------------------------
EXTENDS LazyRegistry
\* Inner, Outer{Inner}, Node{*Node, *Peer}, Peer{*Node}
TypesC == {"Inner", "Outer", "Node", "Peer"}
EmbedsC == [t \in TypesC |-> CASE t = "Outer" -> {"Inner"} [] t = "Node" -> {"Node", "Peer"} [] t = "Peer" -> {"Node"} [] OTHER -> {}]
Roots2 == (1 :> "Inner") @@ (2 :> "Outer")
Roots3 == (1 :> "Inner") @@ (2 :> "Outer") @@ (3 :> "Outer")
RootsCyc == (1 :> "Node") @@ (2 :> "Peer") @@ (3 :> "Node")
=============================================================================
