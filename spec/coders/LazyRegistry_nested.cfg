SPECIFICATION LiveSpec
CONSTANTS
  Types <- TypesC
  Embeds <- EmbedsC
  Roots <- Roots3
  Locked = TRUE
INVARIANT NeverUseIncomplete
PROPERTY AllFinish
CHECK_DEADLOCK FALSE
