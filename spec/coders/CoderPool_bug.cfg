SPECIFICATION Spec
CONSTANTS
  Forget = {"error"}
  MaxUses = 3
INVARIANT PoolClean
CHECK_DEADLOCK FALSE
