SPECIFICATION TraceSpec
INVARIANT Emit
CHECK_DEADLOCK FALSE
