------------------------------ MODULE TraceKit ------------------------------
(***************************************************************************)
(* Shared plumbing of every trace specification in /verif/spec.            *)
(*                                                                         *)
(* A trace file is newline-delimited JSON.  A record {"ev":"reset",        *)
(* "case":n, ...} opens case n and carries its configuration; the records  *)
(* that follow are the events observed on the real implementation while   *)
(* the harness ran that case.  Monitors are given as two operators:        *)
(*     InitStates(resetRecord)  - the set of initial abstract states       *)
(*     Step(state, event)       - the set of abstract successor states     *)
(*                                compatible with the observed event       *)
(* The trace specification determinises the monitor on the fly: `poss` is  *)
(* the set of abstract states compatible with everything observed so far.  *)
(* When it becomes empty no behaviour of the specification explains the    *)
(* observations: the case is appended to `failed`, the rest of the case    *)
(* is skipped, and validation resumes at the next reset record, so one     *)
(* rejected case does not hide the cases after it.                         *)
(***************************************************************************)
EXTENDS Integers, Sequences, TLC, Json, IOUtils

Trace == ndJsonDeserialize(IOEnv.TRACE)
OutFile == IOEnv.VK_SCRATCH \o "/failed.json"

Has(r, f) == f \in DOMAIN r
=============================================================================
