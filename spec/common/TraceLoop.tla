------------------------------ MODULE TraceLoop ------------------------------
(***************************************************************************)
(* The generic trace-validation loop (see TraceKit): instantiate with the  *)
(* monitor's InitStates(resetRecord) and Step(state, event).               *)
(* A record {"ev":"one","case":n,...} is a self-contained case judged by    *)
(* One(record): "" accepts it, any other string says why it is rejected.   *)
(* Variables: l next line, poss determinised monitor state set, cur case   *)
(* id, failed sequence of rejected cases, skip TRUE while skipping the     *)
(* remainder of a rejected case.                                           *)
(***************************************************************************)
EXTENDS TraceKit
CONSTANTS InitStates(_), Step(_, _), One(_)
VARIABLES l, poss, cur, failed, skip
tvars == <<l, poss, cur, failed, skip>>

TraceInit == l = 1 /\ poss = {} /\ cur = -1 /\ failed = <<>> /\ skip = FALSE

TraceNext ==
    /\ l <= Len(Trace)
    /\ l' = l + 1
    /\ LET e == Trace[l] IN
       IF e.ev = "one"      \* a self-contained case: judged by One, no state
       THEN /\ failed' = LET why == One(e) IN
                          IF why = "" THEN failed ELSE Append(failed, [case |-> e.case, line |-> l, why |-> why])
            /\ UNCHANGED <<poss, cur, skip>>
       ELSE IF e.ev = "reset"
       THEN /\ poss' = InitStates(e) /\ cur' = e.case /\ skip' = FALSE /\ UNCHANGED failed
       ELSE IF skip THEN UNCHANGED <<poss, cur, failed, skip>>
       ELSE LET nxt == UNION {Step(s, e) : s \in poss} IN
            IF nxt = {}
            THEN /\ failed' = Append(failed, [case |-> cur, line |-> l])
                 /\ skip' = TRUE /\ poss' = {} /\ UNCHANGED cur
            ELSE /\ poss' = nxt /\ UNCHANGED <<cur, failed, skip>>

TraceSpec == TraceInit /\ [][TraceNext]_tvars

\* evaluated in every state; in the last one it writes the verdict for the python driver
Emit == (l = Len(Trace) + 1) =>
            JsonSerialize(OutFile, [complete |-> TRUE, failed |-> failed, len |-> Len(Trace), l |-> l])
=============================================================================
