---------------------------- MODULE HproseFormat ----------------------------
(***************************************************************************)
(* The Hprose serialization format as this library speaks it.              *)
(*                                                                         *)
(* Part 1, Parse: a recogniser with denotation.  Input: the token sequence *)
(* an independent byte lexer produced (one record per token; scalars are   *)
(* atoms - canonical strings - compared by equality only).  The recogniser *)
(* enforces the grammar: string lengths count UTF-16 units and the closing *)
(* quote is where the count says; list / map / object counts match their   *)
(* contents; a class definition precedes its instances; a reference index  *)
(* points at an earlier referable item (every string incl. class field     *)
(* names, bytes, date/time, guid, and every list / map / object, which     *)
(* takes its slot at its opening token so that a child may refer to its    *)
(* ancestor).  The denotation is a rooted graph: containers are nodes,     *)
(* numbered in order of their opening tokens.                              *)
(*                                                                         *)
(* Part 2, WireMatch: "the stream denotes the value that was encoded" -    *)
(* the contract between an abstract Go value (projection Abs of the        *)
(* harness) and a wire value: pointers are transparent, nil is null,       *)
(* a named struct is an object of its class, an anonymous struct a map,    *)
(* complex(r, 0) a real and complex(r, i) a 2-list, an integral big.Rat an *)
(* integer and any other a string, []byte and byte arrays are bytes, a     *)
(* string that is not valid UTF-8 is bytes, an error is an error.          *)
(*                                                                         *)
(* Part 3, Same: "decoding yields a value deeply equal to the original up  *)
(* to the format's own normalisations": nil and empty containers are       *)
(* interchangeable, a time keeps its instant and whether it is UTC, and    *)
(* - the wire carries no Go type - a value that travelled through an       *)
(* interface{} comes back as the canonical type of its tag.                *)
(*                                                                         *)
(* Named deviations (argument tol of SV): "bigfloat-precision" - a           *)
(* big.Float comes back with another mantissa; "long-wrap" - an integer     *)
(* comes back with another value.  They exist so that a rejected round trip *)
(* can be attributed (C01Why); the verdict is always taken with tol = {}.   *)
(* "same-kinds" makes SV strict instead: no normalisation across kinds.     *)
(*                                                                         *)
(* Both relations are coinductive on graphs (greatest fixed point): a pair *)
(* of nodes that is already being compared on the current path is assumed  *)
(* related, so cyclic values are compared by their unfolding.              *)
(***************************************************************************)
EXTENDS Integers, Sequences, FiniteSets, TLC

Has(r, f) == f \in DOMAIN r

---------------------------------------------------------------------------
(* Part 1: recogniser *)

Leaf(k, rest) == [k |-> k] @@ rest
NodeRef(id) == [k |-> "node", id |-> id]

St0 == [pos |-> 1, nodes |-> <<>>, refs |-> <<>>, classes |-> <<>>, ok |-> TRUE, why |-> ""]
Fail(st, why) == [st EXCEPT !.ok = FALSE, !.why = IF st.ok THEN why ELSE @]
AddRef(st, r) == [st EXCEPT !.refs = Append(@, r)]
Adv(st) == [st EXCEPT !.pos = @ + 1]

StrOK(t) == t.closed /\ t.n = t.u16

RECURSIVE ParseVal(_, _), ParseN(_, _, _, _), ParseNames(_, _, _, _)

\* parses `count` values; returns [st, vals]
ParseN(toks, st, count, acc) ==
    IF ~st.ok \/ count = 0 THEN [st |-> st, vals |-> acc]
    ELSE LET r == ParseVal(toks, st) IN ParseN(toks, r.st, count - 1, Append(acc, r.val))

\* the field names of a class definition: `count` string tokens, each a referable item
ParseNames(toks, st, count, acc) ==
    IF ~st.ok \/ count = 0 THEN [st |-> st, vals |-> acc]
    ELSE IF st.pos > Len(toks) THEN [st |-> Fail(st, "class: truncated"), vals |-> acc]
    ELSE LET t == toks[st.pos] IN
         IF t.t = "str" /\ StrOK(t)
         THEN ParseNames(toks, AddRef(Adv(st), [k |-> "str", s |-> t.s]), count - 1, Append(acc, t.s))
         ELSE IF t.t = "char"
         THEN ParseNames(toks, Adv(st), count - 1, Append(acc, t.s))
         ELSE IF t.t = "empty"
         THEN ParseNames(toks, Adv(st), count - 1, Append(acc, ""))
         ELSE [st |-> Fail(st, "class: field name is not a string"), vals |-> acc]

ExpectClose(toks, st) ==
    IF ~st.ok THEN st
    ELSE IF st.pos <= Len(toks) /\ toks[st.pos].t = "close" THEN Adv(st)
    ELSE Fail(st, "count does not match contents (no closing brace where the count says)")

\* a container: take the node and the reference slot first, then the children
Container(toks, st, mk(_), count) ==
    LET id == Len(st.nodes) + 1
        st1 == AddRef([Adv(st) EXCEPT !.nodes = Append(@, [k |-> "open"])], NodeRef(id))
        r == ParseN(toks, st1, count, <<>>)
        st2 == ExpectClose(toks, r.st) IN
    [st |-> IF st2.ok THEN [st2 EXCEPT !.nodes[id] = mk(r.vals)] ELSE st2, val |-> NodeRef(id)]

Pairs(vals) == [i \in 1..(Len(vals) \div 2) |-> <<vals[2 * i - 1], vals[2 * i]>>]

ParseVal(toks, st) ==
    IF ~st.ok THEN [st |-> st, val |-> [k |-> "none"]]
    ELSE IF st.pos > Len(toks) THEN [st |-> Fail(st, "truncated"), val |-> [k |-> "none"]]
    ELSE
    LET t == toks[st.pos] IN
    CASE t.t = "int" -> [st |-> Adv(st), val |-> [k |-> "int", v |-> t.v]]
      [] t.t = "real" -> [st |-> Adv(st), val |-> IF t.cls = "fin" THEN [k |-> "real", cls |-> "fin", b64 |-> t.b64, b32 |-> t.b32]
                                                   ELSE [k |-> "real", cls |-> t.cls, b64 |-> "", b32 |-> ""]]
      [] t.t = "true" -> [st |-> Adv(st), val |-> [k |-> "bool", v |-> TRUE]]
      [] t.t = "false" -> [st |-> Adv(st), val |-> [k |-> "bool", v |-> FALSE]]
      [] t.t = "null" -> [st |-> Adv(st), val |-> [k |-> "nil"]]
      [] t.t = "empty" -> [st |-> Adv(st), val |-> [k |-> "str", s |-> ""]]
      [] t.t = "char" -> IF t.u16 = 1 THEN [st |-> Adv(st), val |-> [k |-> "str", s |-> t.s]]
                         ELSE [st |-> Fail(st, "u tag with a character of two UTF-16 units"), val |-> [k |-> "none"]]
      [] t.t = "str" -> IF StrOK(t)
                        THEN [st |-> AddRef(Adv(st), [k |-> "str", s |-> t.s]), val |-> [k |-> "str", s |-> t.s]]
                        ELSE [st |-> Fail(st, "string length is not the number of UTF-16 units"), val |-> [k |-> "none"]]
      [] t.t = "bytes" -> IF t.closed
                          THEN [st |-> AddRef(Adv(st), [k |-> "bytes", s |-> t.s]), val |-> [k |-> "bytes", s |-> t.s]]
                          ELSE [st |-> Fail(st, "bytes length is not the number of bytes"), val |-> [k |-> "none"]]
      [] t.t = "dt" -> LET v == [k |-> "dt", date |-> t.date, time |-> t.time, frac |-> t.frac, utc |-> t.utc] IN
                       [st |-> AddRef(Adv(st), v), val |-> v]
      [] t.t = "guid" -> LET v == [k |-> "guid", v |-> t.v] IN [st |-> AddRef(Adv(st), v), val |-> v]
      [] t.t = "list" -> Container(toks, st, LAMBDA vals : [k |-> "list", items |-> vals], t.n)
      [] t.t = "map" -> Container(toks, st, LAMBDA vals : [k |-> "map", ents |-> Pairs(vals)], 2 * t.n)
      [] t.t = "class" ->
            IF t.n # t.u16 THEN [st |-> Fail(st, "class name length"), val |-> [k |-> "none"]]
            ELSE LET r == ParseNames(toks, Adv(st), t.m, <<>>)
                     st2 == ExpectClose(toks, r.st) IN
                 IF ~st2.ok THEN [st |-> st2, val |-> [k |-> "none"]]
                 ELSE ParseVal(toks, [st2 EXCEPT !.classes = Append(@, [name |-> t.s, fields |-> r.vals])])
      [] t.t = "obj" ->
            IF t.n >= Len(st.classes) THEN [st |-> Fail(st, "object refers to a class that is not defined"), val |-> [k |-> "none"]]
            ELSE LET c == st.classes[t.n + 1] IN
                 Container(toks, st, LAMBDA vals : [k |-> "obj", name |-> c.name,
                                                    fields |-> [i \in 1..Len(vals) |-> <<c.fields[i], vals[i]>>]], Len(c.fields))
      [] t.t = "ref" ->
            IF t.n >= Len(st.refs) THEN [st |-> Fail(st, "reference index does not point at an earlier item"), val |-> [k |-> "none"]]
            ELSE [st |-> Adv(st), val |-> st.refs[t.n + 1]]
      [] t.t = "err" ->
            LET r == ParseVal(toks, Adv(st)) IN
            IF r.st.ok /\ r.val.k = "str" THEN [st |-> r.st, val |-> [k |-> "err", s |-> r.val.s]]
            ELSE [st |-> Fail(r.st, "error tag not followed by a string"), val |-> [k |-> "none"]]
      [] t.t = "bad" -> [st |-> Fail(st, "not a token of the grammar: " \o t.v), val |-> [k |-> "none"]]
      [] OTHER -> [st |-> Fail(st, "unexpected token " \o t.t), val |-> [k |-> "none"]]

\* `nvals` values, and nothing more
Parse(toks, nvals) ==
    LET r == ParseN(toks, St0, nvals, <<>>) IN
    IF ~r.st.ok THEN [ok |-> FALSE, why |-> r.st.why, vals |-> <<>>, nodes |-> <<>>]
    ELSE IF r.st.pos # Len(toks) + 1 THEN [ok |-> FALSE, why |-> "bytes after the value", vals |-> <<>>, nodes |-> <<>>]
    ELSE [ok |-> TRUE, why |-> "", vals |-> r.vals, nodes |-> r.st.nodes]

---------------------------------------------------------------------------
(* Part 2: the Go value is what the wire value denotes *)

IsZeroBits(b) == b \in {"0000000000000000", "8000000000000000", "00000000", "80000000"}
IsPosZero(b) == b \in {"0000000000000000", "00000000"}

RealW(x, y) ==    \* x abstract Go real, y wire real
    /\ y.k = "real" /\ x.cls = y.cls
    /\ x.cls = "fin" => IF x.w = 32 THEN x.b = y.b32 ELSE x.b = y.b64

\* the date/time fields a time must be written with
TimeW(x, y) ==
    /\ y.k = "dt"
    /\ y.utc = x.utc
    /\ LET d == IF x.utc THEN x.date ELSE x.ldate
           tm == IF x.utc THEN x.time ELSE x.ltime
           frac == IF x.ns = "000000000" THEN ""
                   ELSE IF SubSeq(x.ns, 4, 9) = "000000" THEN SubSeq(x.ns, 1, 3)
                   ELSE IF SubSeq(x.ns, 7, 9) = "000" THEN SubSeq(x.ns, 1, 6) ELSE x.ns IN
       /\ x.year \in 0..9999
       /\ y.frac = frac
       /\ \/ y.date = d /\ y.time = tm                                  \* full form
          \/ y.date = d /\ y.time = "" /\ tm = "000000" /\ frac = ""    \* date only
          \/ y.date = "" /\ y.time = tm /\ d = "19700101"               \* time only

RECURSIVE WM(_, _, _, _, _)
WM(gx, x, gw, y, asm) ==
    CASE x.k = "nil" -> y.k = "nil"
      [] x.k = "bool" -> y.k = "bool" /\ y.v = x.v
      [] x.k = "int" -> y.k = "int" /\ y.v = x.v
      [] x.k = "real" -> RealW(x, y)
      [] x.k = "complex" ->
            IF x.im.cls = "fin" /\ IsZeroBits(x.im.b) THEN RealW(x.re, y)
            ELSE /\ y.k = "node" /\ gw[y.id].k = "list" /\ Len(gw[y.id].items) = 2
                 /\ RealW(x.re, gw[y.id].items[1]) /\ RealW(x.im, gw[y.id].items[2])
      [] x.k = "str" -> IF x.valid THEN y.k = "str" /\ y.s = x.s
                        ELSE y.k = "bytes" /\ y.s = x.s
      [] x.k = "bytes" -> IF Has(x, "isnil") /\ x.isnil THEN y.k = "nil" \/ (y.k \in {"bytes", "str"} /\ y.s = "")
                          ELSE (y.k = "bytes" /\ y.s = x.s) \/ (x.s = "" /\ y.k = "str" /\ y.s = "")
      [] x.k = "bigint" -> y.k = "int" /\ y.v = x.v
      [] x.k = "bigfloat" -> /\ y.k \in {"real", "int"}
                             /\ ((Has(x, "b64") /\ y.k = "real" /\ y.cls = "fin") => y.b64 = x.b64)
                             \* an infinite big.Float is the format's infinity of its sign, a finite one a number
                             /\ IF x.inf THEN y.k = "real" /\ y.cls = (IF x.v = "+Inf" THEN "pinf" ELSE "ninf")
                                ELSE y.k = "int" \/ y.cls = "fin"
      [] x.k = "bigrat" -> IF x.den = "1" THEN y.k = "int" /\ y.v = x.num
                           ELSE y.k = "str" /\ y.s = x.txt
      [] x.k = "time" -> TimeW(x, y)
      [] x.k = "guid" -> y.k = "guid" /\ y.v = x.v
      [] x.k = "error" -> y.k = "err" /\ y.s = x.s
      [] x.k = "node" ->
            \* coinduction: a pair of nodes already under comparison on this path is assumed related
            IF y.k = "node" /\ <<x.id, y.id>> \in asm THEN TRUE ELSE
            LET nx == gx[x.id + 1]
                fuel == IF y.k = "node" THEN asm \cup {<<x.id, y.id>>} ELSE asm IN
            CASE nx.k = "list" ->
                    IF Has(nx, "isnil") /\ nx.isnil /\ y.k = "nil" THEN TRUE
                    ELSE /\ y.k = "node" /\ gw[y.id].k = "list"
                         /\ Len(gw[y.id].items) = Len(nx.items)
                         /\ \A i \in 1..Len(nx.items) : WM(gx, nx.items[i], gw, gw[y.id].items[i], fuel)
              [] nx.k = "map" ->
                    IF nx.isnil /\ y.k = "nil" THEN TRUE
                    ELSE /\ y.k = "node" /\ gw[y.id].k = "map"
                         /\ Len(gw[y.id].ents) = Len(nx.ents)
                         /\ \A i \in 1..Len(nx.ents) : \E j \in 1..Len(gw[y.id].ents) :
                               /\ WM(gx, nx.ents[i][1], gw, gw[y.id].ents[j][1], fuel)
                               /\ WM(gx, nx.ents[i][2], gw, gw[y.id].ents[j][2], fuel)
              [] nx.k = "struct" ->
                    IF nx.name # ""
                    THEN /\ y.k = "node" /\ gw[y.id].k = "obj" /\ gw[y.id].name = nx.hname
                         /\ Len(gw[y.id].fields) = Len(nx.fields)
                         /\ \A i \in 1..Len(nx.fields) :
                               /\ gw[y.id].fields[i][1] = nx.fields[i][1]
                               /\ WM(gx, nx.fields[i][2], gw, gw[y.id].fields[i][2], fuel)
                    ELSE /\ y.k = "node" /\ gw[y.id].k = "map"      \* anonymous struct: a map keyed by field name
                         /\ Len(gw[y.id].ents) = Len(nx.fields)
                         /\ \A i \in 1..Len(nx.fields) : \E j \in 1..Len(gw[y.id].ents) :
                               /\ gw[y.id].ents[j][1].k = "str" /\ gw[y.id].ents[j][1].s = nx.fields[i][1]
                               /\ WM(gx, nx.fields[i][2], gw, gw[y.id].ents[j][2], fuel)
              [] OTHER -> FALSE
      [] OTHER -> FALSE

WireMatch(ingraph, parsed, i) == WM(ingraph.nodes, ingraph.root, parsed.nodes, parsed.vals[i], {})

\* every container reached through a Go pointer more than once is written once (later occurrences are references)
WrittenOnce(ingraph, parsed) == Len(parsed.nodes) <= Len(ingraph.nodes) + ingraph.extra

---------------------------------------------------------------------------
(* Part 3: decoded value = original, up to the format's normalisations *)

SameReal(x, y) ==
    /\ x.cls = y.cls
    /\ x.cls = "fin" => \/ x.w = y.w /\ x.b = y.b
                        \/ x.w = 32 /\ y.w = 64 /\ y.b = x.b64s       \* float32 through interface{}: the double its text denotes

RECURSIVE SV(_, _, _, _, _, _)
Node(g, v) == g[v.id + 1]
IsEmptyish(g, v) ==   \* nil, or an empty container / byte string
    \/ v.k = "nil"
    \/ v.k = "bytes" /\ v.s = ""
    \/ v.k = "node" /\ Node(g, v).k = "list" /\ Node(g, v).items = <<>>
    \/ v.k = "node" /\ Node(g, v).k = "map" /\ Node(g, v).ents = <<>>

FieldsAsEnts(n) == [i \in 1..Len(n.fields) |-> <<[k |-> "str", s |-> n.fields[i][1], valid |-> TRUE, u16 |-> 0], n.fields[i][2]>>]

SV(gx, x, gy, y, asm, tol) ==
    \* "same-kinds": no normalisation across kinds (nil / empty, struct / map, int / bigint, ...): for two
    \* decodings of the same bytes into the same destination
    IF "same-kinds" \in tol /\ (x.k # y.k \/ (x.k = "node" /\ Node(gx, x).k # Node(gy, y).k)) THEN FALSE ELSE
    IF IsEmptyish(gx, x) /\ IsEmptyish(gy, y) /\ (x.k = "nil" \/ y.k = "nil" \/ x.k = y.k) THEN TRUE ELSE
    CASE x.k = "nil" -> y.k = "nil"
      [] x.k = "bool" -> y.k = "bool" /\ y.v = x.v
      \* "long-wrap": only an integer outside the int64 range (the harness gives it w64 = its value modulo 2^64,
      \* signed), and only that value
      [] x.k = "int" -> y.k \in {"int", "bigint"} /\ (y.v = x.v \/ ("long-wrap" \in tol /\ Has(x, "w64") /\ y.v = x.w64))
      [] x.k = "bigint" -> y.k \in {"int", "bigint"} /\ (y.v = x.v \/ ("long-wrap" \in tol /\ Has(x, "w64") /\ y.v = x.w64))
      [] x.k = "real" -> y.k = "real" /\ SameReal(x, y)
      [] x.k = "complex" ->
            \/ y.k = "complex" /\ SameReal(x.re, y.re)
                               /\ (SameReal(x.im, y.im) \/ (x.im.cls = "fin" /\ IsZeroBits(x.im.b) /\ y.im.cls = "fin" /\ IsPosZero(y.im.b)))
            \/ y.k = "real" /\ x.im.cls = "fin" /\ IsZeroBits(x.im.b) /\ SameReal(x.re, y)      \* through interface{}
            \/ /\ y.k = "node" /\ Node(gy, y).k = "list" /\ Len(Node(gy, y).items) = 2           \* through interface{}
               /\ Node(gy, y).items[1].k = "real" /\ SameReal(x.re, Node(gy, y).items[1])
               /\ Node(gy, y).items[2].k = "real" /\ SameReal(x.im, Node(gy, y).items[2])
      [] x.k = "str" -> \/ y.k = "str" /\ y.s = x.s
                        \/ ~x.valid /\ y.k = "bytes" /\ y.s = x.s                                \* through interface{}
      [] x.k = "bytes" -> y.k = "bytes" /\ y.s = x.s
      \* "bigfloat-precision": only the value its shortest decimal text has when read with a 64-bit mantissa
      \* (p64) resp. as a float64 (r64), both computed by the harness
      [] x.k = "bigfloat" -> \/ y.k = "bigfloat" /\ (y.v = x.v \/ ("bigfloat-precision" \in tol /\ Has(x, "p64") /\ y.v = x.p64))
                             \/ y.k = "real" /\ "bigfloat-precision" \in tol /\ y.w = 64 /\ Has(x, "r64") /\ y.cls = "fin" /\ y.b = x.r64
                             \/ x.inf /\ y.k = "real" /\ y.cls = (IF x.v = "+Inf" THEN "pinf" ELSE "ninf")             \* through interface{}
                             \/ y.k = "real" /\ y.w = 64 /\ Has(x, "b64") /\ y.cls = "fin" /\ y.b = x.b64   \* through interface{}
      [] x.k = "bigrat" -> \/ y.k = "bigrat" /\ y.num = x.num /\ y.den = x.den
                           \/ x.den = "1" /\ y.k \in {"int", "bigint"}
                              /\ (y.v = x.num \/ ("long-wrap" \in tol /\ Has(x, "w64") /\ y.v = x.w64))             \* through interface{}
                           \/ x.den # "1" /\ y.k = "str" /\ y.s = x.txt
      [] x.k = "time" -> y.k = "time" /\ y.instant = x.instant /\ y.utc = x.utc /\ (~x.utc => y.local)
      [] x.k = "guid" -> y.k = "guid" /\ y.v = x.v
      [] x.k = "error" -> y.k = "error" /\ y.s = x.s
      [] x.k = "node" ->
            IF y.k # "node" THEN FALSE ELSE
            IF <<x.id, y.id>> \in asm THEN TRUE ELSE
            LET nx == Node(gx, x)
                ny == Node(gy, y)
                fuel == asm \cup {<<x.id, y.id>>} IN
            CASE nx.k = "list" /\ ny.k = "list" ->
                    /\ Len(nx.items) = Len(ny.items)
                    /\ \A i \in 1..Len(nx.items) : SV(gx, nx.items[i], gy, ny.items[i], fuel, tol)
              [] nx.k \in {"map", "struct"} /\ ny.k \in {"map", "struct"} ->
                    IF nx.k = "struct" /\ ny.k = "struct"
                    THEN /\ nx.hname = ny.hname /\ Len(nx.fields) = Len(ny.fields)
                         /\ \A i \in 1..Len(nx.fields) : /\ nx.fields[i][1] = ny.fields[i][1]
                                                         /\ SV(gx, nx.fields[i][2], gy, ny.fields[i][2], fuel, tol)
                    ELSE LET ex == IF nx.k = "struct" THEN FieldsAsEnts(nx) ELSE nx.ents
                             ey == IF ny.k = "struct" THEN FieldsAsEnts(ny) ELSE ny.ents IN
                         /\ Len(ex) = Len(ey)
                         /\ \A i \in 1..Len(ex) : \E j \in 1..Len(ey) :
                               /\ SV(gx, ex[i][1], gy, ey[j][1], fuel, tol) /\ SV(gx, ex[i][2], gy, ey[j][2], fuel, tol)
              [] OTHER -> FALSE
      [] OTHER -> FALSE

SameValue(ingraph, outgraph, tol) == SV(ingraph.nodes, ingraph.root, outgraph.nodes, outgraph.root, {}, tol)

---------------------------------------------------------------------------
(* judgements over one recorded round trip *)

EncodedOK(e) == e.encpanic = "none" /\ e.encerr = "none"

\* A value the format has no form for (the harness marks it: a time whose year is outside 0..9999, the date
\* having four digits): the encoder has to say so - an error, not a panic and not some bytes.
Unwritable(e) == Has(e, "unwritable") /\ e.unwritable
RefusedOK(e) == e.encpanic = "none" /\ e.encerr # "none"

\* C03: the encoder's bytes are exactly nvals well-formed values that denote the inputs
C03OK(e) ==
    IF Unwritable(e) THEN RefusedOK(e) ELSE
    /\ EncodedOK(e)
    /\ LET p == Parse(e.toks, e.nvals) IN
       /\ p.ok
       /\ WireMatch(e.in, p, 1)

\* C01: the typed round trip.  `tol` names deviations that are tolerated (the empty set: none)
\* "Deeply equal" includes the dynamic type of what an interface{} position holds.  The projection makes
\* pointers transparent, so the harness lists, for every interface{} position of the original that holds a
\* value of the type the decoder's defaults give back for its tag (pointer to a registered struct,
\* []interface{}, map[interface{}]interface{}, int, float64), the type found at the same place of the
\* decoded value: e.itypes = << [path, want, got] >>.
ITypesOK(e) == ~Has(e, "itypes") \/ \A i \in DOMAIN e.itypes : e.itypes[i].got = e.itypes[i].want

C01Tol(e, tol) ==
    IF Unwritable(e) THEN RefusedOK(e) ELSE
    /\ EncodedOK(e)
    /\ e.decpanic = "none" /\ e.outfault = "none"
    /\ IF e.in.root.k = "error"
       THEN e.decerr = e.errmsg          \* an encoded error is reported through the decoder's error
       ELSE e.decerr = "none" /\ SameValue(e.in, e.out, tol) /\ ITypesOK(e)
C01OK(e) == C01Tol(e, {})

\* why a round trip is rejected: the first named deviation that would explain it, for the known-findings
\* file; "mismatch" when none does
C01Why(e) ==
    IF C01OK(e) THEN ""
    ELSE IF Unwritable(e) THEN "a value the format cannot hold was not refused with an error"
    ELSE IF ~EncodedOK(e) THEN "encode"
    ELSE IF e.decpanic # "none" THEN "decpanic"
    ELSE IF e.outfault # "none" THEN "wild-pointer"
    ELSE IF e.decerr # "none" /\ e.in.root.k # "error" THEN "decerr"
    ELSE IF ~ITypesOK(e) THEN "an interface{} position came back holding another Go type"
    ELSE IF C01Tol(e, {"bigfloat-precision"}) THEN "bigfloat-precision"
    ELSE IF C01Tol(e, {"long-wrap"}) THEN "long-wrap"
    ELSE IF C01Tol(e, {"bigfloat-precision", "long-wrap"}) THEN "bigfloat-precision+long-wrap"
    ELSE "mismatch"

\* C02: reference mode on shared and cyclic graphs
C02Why(e) ==
    IF ~EncodedOK(e) THEN "encode"
    ELSE LET p == Parse(e.toks, e.nvals) IN
         IF ~p.ok THEN "malformed: " \o p.why
         ELSE IF ~WireMatch(e.in, p, 1) THEN "a reference does not land on the item the encoder meant"
         ELSE IF ~WrittenOnce(e.in, p) THEN "an object reached through pointers is written more than once"
         ELSE IF e.decpanic # "none" THEN "decpanic"
         ELSE IF e.outfault # "none" THEN "wild-pointer"
         ELSE IF e.decerr # "none" /\ ~e.haserr THEN "decerr"
         ELSE IF e.haserr THEN ""
         \* the shape is what is judged here: the two named numeric deviations of leaves are property C01's
         ELSE IF SameValue(e.in, e.out, {"bigfloat-precision", "long-wrap"}) THEN ""
         ELSE "decoded graph has a different unfolding"

\* C05: decoding from a fragmenting reader (b) gives what decoding the contiguous bytes (a) gives
C05Why(e) ==
    IF e.b.panic # "none" /\ e.a.panic = "none" THEN "the streaming decoder panics: " \o e.b.panic
    ELSE IF e.a.panic # "none" THEN ""        \* the contiguous decoder itself panics on this input: property C04
    ELSE IF (e.a.err = "none") # (e.b.err = "none") THEN "error outcome differs"
    ELSE IF e.a.err # "none" THEN ""
    ELSE IF e.a.rest # e.b.rest THEN "final position differs"
    ELSE IF e.a.fault # "none" \/ e.b.fault # "none" THEN "wild-pointer"
    ELSE IF SameValue(e.a.out, e.b.out, {"same-kinds"}) /\ SameValue(e.b.out, e.a.out, {"same-kinds"}) THEN "" ELSE "value differs"

\* C04: untrusted bytes.  The harness observes crash / hang / allocation directly; the recogniser adds
\* "a stream that is not a well-formed value must be reported through the decoder's error"
FirstValueOK(toks) == ParseN(toks, St0, 1, <<>>).st.ok
C04Why(e) ==
    IF e.outcome \in {"panic", "crash", "timeout", "overalloc"} THEN e.outcome
    ELSE IF e.judge /\ e.outcome = "ok" /\ ~FirstValueOK(e.toks)
         THEN "malformed input accepted: " \o ParseN(e.toks, St0, 1, <<>>).st.why
    ELSE ""

C03Why(e) ==
    IF Unwritable(e) THEN (IF RefusedOK(e) THEN "" ELSE "a value the format cannot hold was not refused with an error")
    ELSE IF ~EncodedOK(e) THEN "encode"
    ELSE LET p == Parse(e.toks, e.nvals) IN
         IF ~p.ok THEN "malformed: " \o p.why
         ELSE IF WireMatch(e.in, p, 1) THEN "" ELSE "denotes another value"
=============================================================================
