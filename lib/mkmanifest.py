#!/usr/bin/env python3
"""Regenerates /verif/MANIFEST.json from lib/props.py (claimed checks) and properties.jsonl."""
import json
import os
import sys

sys.path.insert(0, os.path.dirname(os.path.abspath(__file__)))
import props  # noqa: E402
import vk  # noqa: E402

ENGINES = {
    "plugins": ("spec/plugins + harness/cmd/vh (c15,c16,c17,c18,c20)", "TLA+ monitors and implementation-shaped models of the plugin family (PluginChain, Cluster, ClusterIndex, Limiter, LoadBalance, CircuitBreaker, ...): TLC exhaustive, Apalache inductive invariants for the small concurrent models, TLC trace validation of real executions"),
    "push": ("spec/push + harness/cmd/vh (c19)", "TLA+ Push (hand-over, heart beat), Prosumer (client poll loops), PushMonitor: TLC exhaustive incl. liveness + gate replay of counterexample schedules + trace validation"),
    "mux": ("spec/mux + harness/cmd/vh (c09,c10)", "TLA+ Mux (connection multiplexing), Reverse (reverse calls), MuxMonitor: TLC exhaustive incl. liveness + gate replay of counterexample schedules + trace validation"),
    "format": ("spec/format + harness/cmd/vh (c01..c07)", "TLA+ HproseFormat recogniser/contracts, TLC trace validation of encoder/decoder behaviour"),
    "calls": ("spec/calls + harness/cmd/vh (c08,c11,c12,c13)", "TLA+ RpcCall, Framing (frame layers against lying senders), MaxLen / Containment monitors: TLC exhaustive + replay of the model's message space into the real transports + trace validation"),
    "coders": ("spec/coders + harness/cmd/vh (c14)", "TLA+ LazyRegistry/CoderPool, TLC exhaustive + gate replay"),
}


def main():
    allp = [json.loads(l) for l in open(os.path.join(vk.VERIF, "properties.jsonl"))]
    checks = []
    na = []
    reasons = {}
    rp = os.path.join(vk.VERIF, "lib", "not_applicable.json")
    if os.path.exists(rp):
        reasons = json.load(open(rp))
    used = set()
    for pr in allp:
        pid = pr["id"]
        p = props.PROPS.get(pid)
        if p is None:
            na.append({"property_id": pid, "reason": reasons.get(pid, "check not built yet in this revision; see DESIGN.md for the plan")})
            continue
        used.add(p.family)
        checks.append({
            "property_id": pid,
            "quick_cmd": "./check %s --tier quick" % pid,
            "thorough_cmd": "./check %s --tier thorough" % pid,
            "evidence_file": "/verif/evidence/%s.json" % pid,
            "replay_cmd_template": "./check %s --replay {path}" % pid,
            "engine": p.family,
            "level_claimed": {"category": p.level, "text": p.level_text if hasattr(p, "level_text") and p.level_text else p.rule, "design_ref": p.design_ref},
            "level_note": "; ".join(p.assumptions),
            "technique": p.technique,
        })
    hooks_path = os.path.join(vk.VERIF, "lib", "hook_commits.json")
    commits = json.load(open(hooks_path)) if os.path.exists(hooks_path) else []
    m = {
        "version": 1,
        "setup_cmd": "./setup.sh",
        "hooks": {
            "guard": "verif",
            "enable": "go build -tags verif (the harness under /verif/harness is built with -tags verif against the repository through a replace directive)",
            "baseline_off_cmd": "cd /repo && GOFLAGS=-mod=mod GOPROXY=off GOSUMDB=off go test -vet=off -count=1 -timeout 25m ./...",
            "source_commits": commits,
            "add_only": True,
        },
        "engines": [{"name": k, "path": ENGINES[k][0], "kind_free_text": ENGINES[k][1],
                     "serves_properties": [c["property_id"] for c in checks if c["engine"] == k]} for k in ENGINES if k in used],
        "checks": checks,
        "not_applicable": na,
        "notes": "Every check is ./check <ID>; TLA+ specifications under /verif/spec decide the properties (TLC exhaustive model checking of the specification + TLC trace validation of executions of the real code recorded by the Go harness). Known findings: /verif/known_findings.jsonl.",
    }
    with open(os.path.join(vk.VERIF, "MANIFEST.json"), "w") as f:
        json.dump(m, f, indent=1)
    print("MANIFEST.json: %d checks, %d not claimed" % (len(checks), len(na)))


if __name__ == "__main__":
    main()
