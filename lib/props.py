"""Per-property definitions and the generic check flow (see ../check)."""
import concurrent.futures
import copy
import json
import re
import os
import random
import time

import vk


class P:
    """Static description of one property's check."""

    def __init__(self, pid, family, driver, mc, traces, level, rule, assumptions, sig_reset=(), sig_event=(),
                 mutate=None, design_ref="", technique="", race=False, harness_timeout=1500, post=None,
                 sig_fn=None):
        self.pid = pid
        self.family = family          # spec/<family>
        self.driver = driver          # vh sub-command
        self.mc = mc                  # {"quick": [(module, cfg, timeout)], "thorough": [...]}
        self.traces = traces          # [(suffix, module, cfg)]
        self.level = level
        self.rule = rule
        self.assumptions = assumptions
        self.sig_reset = sig_reset    # keys of the reset record that form the signature
        self.sig_event = sig_event    # keys of the rejected event that form the signature
        self.mutate = mutate          # negative control: event -> corrupted event | None
        self.design_ref = design_ref
        self.technique = technique
        self.race = race
        self.harness_timeout = harness_timeout
        self.post = post              # optional hook(summary, coverage)
        self.sig_fn = sig_fn          # optional (reset, event) -> dict overriding the default signature


PROPS = {}


def reg(p):
    PROPS[p.pid] = p
    return p


# ------------------------------------------------------------------------------------------------
# generic flow
# ------------------------------------------------------------------------------------------------

def _parse_summary(stdout):
    for line in reversed(stdout.splitlines()):
        if line.startswith("SUMMARY "):
            return json.loads(line[len("SUMMARY "):])
    raise vk.MachineryError("driver printed no SUMMARY line:\n" + stdout[-2000:])


def _signature(p, reset, event):
    if p.sig_fn:
        return p.sig_fn(reset, event)
    sig = {}
    for k in p.sig_reset:
        sig[k] = reset.get(k)
    for k in p.sig_event:
        sig[k] = None if event is None else event.get(k)
    return sig


CONTROL_CASE = 0


def _add_control(p, path, seed):
    """Negative control (binding demonstration): a copy of one recorded case with one observed field
    corrupted is appended as case 0; the trace specification must reject it."""
    if p.mutate is None:
        return False
    lines = vk.read_ndjson(path)
    cases = vk.split_cases(lines)
    rnd = random.Random(seed)
    ids = list(cases.keys())
    rnd.shuffle(ids)
    for cid in ids[:2000]:
        c = cases[cid]
        idxs = list(range(len(c["lines"])))
        rnd.shuffle(idxs)
        for i in idxs:
            m = p.mutate(copy.deepcopy(c["lines"][i]))
            if m is not None:
                with open(path, "a") as f:
                    r = dict(c["reset"])
                    r["case"] = CONTROL_CASE
                    r["control_of"] = cid
                    f.write(json.dumps(r) + "\n")
                    for j, rec in enumerate(c["lines"]):
                        f.write(json.dumps(m if j == i else rec) + "\n")
                return True
    return False


def _validate(p, v, wd, trace_files, seed, coverage, controls=True):
    """Validates every trace file; reports rejected cases through the Verdict."""
    total_events = 0
    tstates = 0
    for (suffix, module, cfg) in p.traces:
        path = trace_files[suffix]
        if not os.path.exists(path) or os.path.getsize(path) == 0:
            raise vk.MachineryError("driver wrote no trace %s" % path)
        has_control = controls and _add_control(p, path, seed)
        failed, r = vk.validate_trace(p.family, module, cfg, path)
        tstates += r.distinct
        lines = vk.read_ndjson(path)
        total_events += len(lines)
        cases = vk.split_cases(lines)
        failed_ids = [f["case"] for f in failed]
        if has_control:
            if CONTROL_CASE not in failed_ids:
                raise vk.MachineryError("negative control accepted by %s: the trace specification does not bind" % module)
            coverage["negative_controls_rejected"] = coverage.get("negative_controls_rejected", 0) + 1
        for f in failed:
            cid = f["case"]
            if cid == CONTROL_CASE and has_control:
                continue
            c = cases.get(cid)
            if c is None:
                raise vk.MachineryError("trace spec reported unknown case %s" % cid)
            k = f["line"] - c["first_line"] - 1
            ev = c["lines"][k] if 0 <= k < len(c["lines"]) else None
            sig = _signature(p, c["reset"], ev)
            if f.get("why"):
                sig["why"] = f["why"]
            rs = c["reset"]
            if rs.get("ev") == "one":
                rs = {kk: vv for kk, vv in rs.items() if kk not in ("toks", "in", "out") or len(json.dumps(vv)) < 3000}
            v.report(sig, {"driver": p.driver, "trace_spec": module, "input": c["reset"].get("input"),
                           "reset": rs, "events": c["lines"][:k + 1][-40:], "rejected_event": ev,
                           "rejected_at_event_index": k},
                     what="trace rejected by %s at event %d of case %s" % (module, k, cid))
    coverage["trace_events"] = total_events
    coverage["trace_states"] = tstates


def run(pid, tier, seed):
    p = PROPS[pid]
    t0 = time.time()
    v = vk.Verdict(pid, tier, seed)
    wd = vk.workdir(pid)
    coverage = {}
    try:
        binary = vk.build_harness(race=False)
        # 1. exhaustive model checking of the specification, in parallel with the driver
        ex = concurrent.futures.ThreadPoolExecutor(max_workers=8)
        futs = []
        mcs = p.mc.get(tier, p.mc.get("quick", []))
        nw = max(2, vk.NCPU // max(1, len(mcs)) // 2)
        for ent in mcs:
            module, cfg, tmo = ent[0], ent[1], ent[2]
            expect_ok = (len(ent) < 4 or ent[3] == "ok")
            futs.append((module, cfg, expect_ok, ex.submit(vk.model_check, p.family, module, cfg, tmo, nw, expect_ok)))
        # 2. the real code
        out = os.path.join(wd, "trace.ndjson")
        try:
            hp = vk.run_harness(binary, [p.driver, "-tier", tier, "-seed", str(seed), "-out", out], timeout=p.harness_timeout)
            summary = _parse_summary(hp.stdout)
        except vk.HarnessCrash as hc:
            # the code under test killed the driver's process (a fatal error cannot be recovered): the case that
            # was running is the observation; nothing else of this run can be judged
            cur = hc.current or {}
            sig = dict(cur.get("sig") or {})
            sig.update({"oracle": "crash", "frame": re.sub(r"[0-9]+", "#", hc.frame)})
            summary = {"cases": cur.get("case", 0), "events": 0, "nontrivial": 0, "samples": [], "extra": {"aborted": True},
                       "direct": [{"sig": sig, "input": cur.get("input"), "driver": p.driver,
                                   "what": "the code under test took the driver process down: %s @ %s" % (hc.head, hc.frame)}]}
        states = transitions = 0
        mcinfo = []
        for (module, cfg, expect_ok, f) in futs:
            r = f.result()
            if not expect_ok:
                # model-level negative control: the specification with a seeded design bug must be rejected
                if r.ok or not r.violated:
                    raise vk.MachineryError("model-level negative control %s %s was not rejected by TLC" % (module, cfg))
                coverage["model_negative_controls_rejected"] = coverage.get("model_negative_controls_rejected", 0) + 1
            else:
                states += r.distinct
                transitions += r.generated
            mcinfo.append({"module": module, "cfg": cfg, "distinct": r.distinct, "generated": r.generated,
                           "depth": r.depth, "wall_s": round(r.wall, 1),
                           "expected": "no error" if expect_ok else "violation (seeded design bug)",
                           "violated": r.violated})
        # 3. trace validation
        trace_files = {s: out + s for (s, _, _) in p.traces}
        aborted = isinstance(summary.get("extra"), dict) and summary["extra"].get("aborted")
        if p.traces and not aborted:
            _validate(p, v, wd, trace_files, seed, coverage)
        # direct observations (crash / hang / leak) made by the driver on the real code
        for d in summary.get("direct") or []:
            v.report(d.get("sig", {}), d, what=d.get("what", "direct observation"))
        # 4. evidence
        if states == 0:
            # no exhaustive configuration for this property: the trace-validation state counts stand in
            states = coverage.get("trace_states", 0)
            transitions = coverage.get("trace_states", 0)
        coverage.update({
            "states": states, "transitions": transitions,
            "traces_validated_against_impl": summary.get("cases", 0),
            "evaluations": summary.get("cases", 0),
            "distinct_nontrivial": summary.get("nontrivial", 0),
            "rule": p.rule,
            "samples": (summary.get("samples") or [])[:6],
            "model_checking_runs": mcinfo,
            "driver_events": summary.get("events", 0),
            "divergences": summary.get("divergences", 0),
            "exhaustive": bool(summary.get("extra", {}).get("exhaustive", False)) if isinstance(summary.get("extra"), dict) else False,
            "known_findings_hit": v.known_hits,
        })
        if summary.get("extra"):
            coverage["driver"] = summary["extra"]
        if p.post:
            p.post(summary, coverage)
        if not coverage["samples"]:
            coverage["samples"] = [{"note": "driver returned no sample"}]
        vk.write_evidence(pid, tier, seed, p.level, coverage, p.assumptions, time.time() - t0, len(v.violations))
        return v.exit_code()
    finally:
        vk.cleanup(wd)


def replay(pid, path):
    """Re-runs exactly the recorded case against the current tree and re-validates it."""
    p = PROPS[pid]
    rp = json.load(open(path))
    v = vk.Verdict(pid, rp.get("tier", "quick"), int(rp.get("seed", 1)))
    v.known = []  # a replay judges the case itself
    wd = vk.workdir(pid + "-replay")
    try:
        binary = vk.build_harness(race=False)
        out = os.path.join(wd, "trace.ndjson")
        only = json.dumps(rp.get("input"))
        hp = vk.run_harness(binary, [rp.get("driver", p.driver), "-tier", rp.get("tier", "quick"), "-seed", str(rp.get("seed", 1)),
                                     "-out", out, "-only", only], timeout=600)
        summary = _parse_summary(hp.stdout)
        coverage = {}
        trace_files = {s: out + s for (s, _, _) in p.traces}
        present = [t for t in p.traces if os.path.exists(trace_files[t[0]]) and os.path.getsize(trace_files[t[0]]) > 0]
        saved = p.traces
        p.traces = present
        try:
            if present:
                _validate(p, v, wd, trace_files, 1, coverage, controls=False)
        finally:
            p.traces = saved
        for d in summary.get("direct") or []:
            v.report(d.get("sig", {}), d, what=d.get("what", "direct observation"))
        return v.exit_code()
    finally:
        vk.cleanup(wd)


# ------------------------------------------------------------------------------------------------
# property table
# ------------------------------------------------------------------------------------------------

def _flip(field, a, b):
    def m(rec):
        if rec.get("ev") != "call" or field not in rec:
            return None
        rec[field] = b if rec[field] == a else a
        return rec
    return m


def _c20_mutate(rec):
    if rec.get("ev") != "call":
        return None
    rec["fwd"] = not rec["fwd"]
    return rec


reg(P("C20", "plugins", "c20",
      mc={"quick": [("CircuitBreaker", "CircuitBreaker_mc.cfg", 600), ("CircuitBreakerConc", "CircuitBreakerConc_add.cfg", 300),
                    ("CircuitBreakerConc", "CircuitBreakerConc_loadstore.cfg", 300, "violation"), ("CircuitBreakerConcInd", "apalache:CInitAdd:Init:IndInv:0", 600), ("CircuitBreakerConcInd", "apalache:CInitAdd:IndInit:IndInv:1", 600),
                    ("CircuitBreakerConcInd", "apalache:CInitAdd:IndInit:OpensAfterFailures:0", 600),
                    ("CircuitBreakerConcInd", "apalache:CInitLoadStore:IndInit:IndInv:1", 600, "violation")],
          "thorough": [("CircuitBreaker", "CircuitBreaker_mc_big.cfg", 1200), ("CircuitBreakerConc", "CircuitBreakerConc_add.cfg", 300),
                       ("CircuitBreakerConc", "CircuitBreakerConc_loadstore.cfg", 300, "violation"), ("CircuitBreakerConcInd", "apalache:CInitAdd:Init:IndInv:0", 600), ("CircuitBreakerConcInd", "apalache:CInitAdd:IndInit:IndInv:1", 600),
                    ("CircuitBreakerConcInd", "apalache:CInitAdd:IndInit:OpensAfterFailures:0", 600),
                    ("CircuitBreakerConcInd", "apalache:CInitLoadStore:IndInit:IndInv:1", 600, "violation")]},
      traces=[("", "CircuitBreakerTrace", "CircuitBreakerTrace.cfg")],
      level="model_checking",
      rule="cases = every outcome sequence over {ok,err,panic} up to the tier's length x threshold 0..3 x "
           "recovery {1ns, 1h, the largest duration} x mock on/off, plus seeded sequences with real waits around a 60 ms "
           "recovery time; rounds of threshold+1 forwarded calls failing at the same instant on a fresh breaker, "
           "then a probe that must be refused (CircuitBreakerConc.tla); a case is non-trivial when at least one downstream call fails; distinct by full input",
      assumptions=["time is observed through monotonic clock readings around each call; when those cannot decide "
                   "whether the recovery time had elapsed the monitor accepts both decisions",
                   "the half-open restart value of the failure counter is not fixed by the property (any value "
                   "in 0..threshold is accepted)"],
      sig_reset=("threshold", "mock", "recovery"), sig_event=("o", "el", "fwd", "res"),
      mutate=_c20_mutate, design_ref="DESIGN.md §3 C20",
      technique="TLC exhaustive model checking of CircuitBreaker.tla, TLC + Apalache (inductive invariant) on the failure counter under concurrency, TLC trace validation of real executions"))


def _c15_mutate(rec):
    if rec.get("ev") == "enter":
        rec["h"] = "i2" if rec["h"] != "i2" else "i3"
        return rec
    return None


reg(P("C15", "plugins", "c15",
      mc={"quick": [("PluginManagerImplMC", "PluginManagerImpl_mc.cfg", 600),
                    ("PluginManagerImplMC", "PluginManagerImpl_mc_service.cfg", 600),
                    ("PluginManagerImplMC", "PluginManagerImpl_bug1.cfg", 600, "violation"),
                    ("PluginManagerImplMC", "PluginManagerImpl_bug2.cfg", 600, "violation"),
                    ("PluginManagerRaceMC", "PluginManagerRace_ok.cfg", 600),
                    ("PluginManagerRaceMC", "PluginManagerRace_bug.cfg", 600, "violation")],
          "thorough": [("PluginManagerImplMC", "PluginManagerImpl_mc_big.cfg", 1500),
                       ("PluginManagerRaceMC", "PluginManagerRace_ok.cfg", 600),
                       ("PluginManagerRaceMC", "PluginManagerRace_bug.cfg", 600, "violation"),
                       ("PluginManagerImplMC", "PluginManagerImpl_mc_service.cfg", 600),
                       ("PluginManagerImplMC", "PluginManagerImpl_bug1.cfg", 600, "violation"),
                       ("PluginManagerImplMC", "PluginManagerImpl_bug2.cfg", 600, "violation")]},
      traces=[("", "PluginChainTrace", "PluginChainTrace.cfg")],
      level="model_checking",
      rule="cases = every history up to the tier's length over an alphabet of 36 operations (Use/Unuse of 14 handler "
           "lists incl. repeats and two-sided plugins, call, call suspended inside one of 5 handlers, resume) on "
           "Client and Service, plus seeded longer histories and free-running concurrent runs (1 mutator, 4 callers); "
           "non-trivial = contains at least one Use and one call (or is concurrent); distinct by full input",
      assumptions=["handlers are distinct top-level functions and methods of distinct plugin types (Unuse identifies a "
                   "handler by its code pointer)",
                   "'affects only later calls' is judged per plugin manager: the list a call traverses in a manager "
                   "is the manager's list at the moment the call fetched it (see DESIGN.md C15)"],
      sig_reset=("side", "conc", "twin"), sig_event=("ev", "mgr", "h"),
      mutate=_c15_mutate, design_ref="DESIGN.md §3 C15",
      technique="TLC refinement check PluginManagerImpl => PluginChain + TLC trace validation of recorded traversals"))


def _c16_mutate(rec):
    if rec.get("ev") == "callE" and isinstance(rec.get("res"), dict) and "k" in rec["res"]:
        rec["res"]["k"] = rec["res"]["k"] + 1
        return rec
    return None


reg(P("C16", "plugins", "c16",
      mc={"quick": [("ClusterImpl", "ClusterImpl_%s_%d.cfg" % (m, n), 300) for m in ("failover", "failtry", "failfast") for n in (1, 2, 3)]
                   + [("ClusterImpl", "ClusterImpl_bug_sharedindex.cfg", 300, "violation"),
                      ("ClusterIndex", "ClusterIndex_store.cfg", 300), ("ClusterIndex", "ClusterIndex_cas.cfg", 300, "violation"), ("ClusterIndexInd", "apalache:CInitStore:Init:IndInv:0", 600), ("ClusterIndexInd", "apalache:CInitStore:IndInit:IndInv:1", 600),
                      ("ClusterIndexInd", "apalache:CInitStore:IndInit:Recovers:0", 600), ("ClusterIndexInd", "apalache:CInitCas:IndInit:IndInv:1", 600, "violation")],
          "thorough": [("ClusterImpl", "ClusterImpl_%s_%d.cfg" % (m, n), 300) for m in ("failover", "failtry", "failfast") for n in (1, 2, 3)]
                      + [("ClusterImpl", "ClusterImpl_failover_big.cfg", 900),
                         ("ClusterImpl", "ClusterImpl_bug_sharedindex.cfg", 300, "violation"),
                         ("ClusterIndex", "ClusterIndex_store.cfg", 300), ("ClusterIndex", "ClusterIndex_cas.cfg", 300, "violation"), ("ClusterIndexInd", "apalache:CInitStore:Init:IndInv:0", 600), ("ClusterIndexInd", "apalache:CInitStore:IndInit:IndInv:1", 600),
                      ("ClusterIndexInd", "apalache:CInitStore:IndInit:Recovers:0", 600), ("ClusterIndexInd", "apalache:CInitCas:IndInit:IndInv:1", 600, "violation")]},
      traces=[("", "ClusterTrace", "ClusterTrace.cfg")],
      level="model_checking",
      rule="cases = (failover|failtry|failfast) x 1..3 servers x retry budget 0..max x plugin-default idempotent x per-call "
           "override x every outcome sequence over {ok,err,panic} of length retry+2; seeded sequences of 2-4 calls on one "
           "client with per-call retry overrides and up to 4 servers; sequential failover calls after a burst of 4-12 "
           "goroutines failing at once (the shared rotation index advanced and wrapped around concurrently; "
           "ClusterIndex.tla); (forking|broadcast) x 1..3 servers x every outcome "
           "vector x every completion order; non-trivial = at least one scripted failure; distinct by construction",
      assumptions=["retry intervals are configured to zero", "fan-out completion order is the order in which the harness "
                   "releases the parked attempts; a fork's success must be followed by the caller's return within 3 s"],
      sig_reset=("mode",), sig_event=("ev",),
      mutate=_c16_mutate, design_ref="DESIGN.md §3 C16",
      technique="TLC refinement check ClusterImpl => Cluster, TLC + Apalache (inductive invariant) on the shared index under concurrency, TLC trace validation of recorded attempts"))


def _c18_mutate(rec):
    if rec.get("ev") == "pick":
        rec["idx"] = 0
        return rec
    return None


_LB_Q = [("LoadBalanceImplMC", "LoadBalanceImpl_%s.cfg" % c, 600) for c in ("rr", "rrconc", "wrr", "nginx", "nginxfail")]
_LB_T = [("LoadBalanceImplMC", "LoadBalanceImpl_%s.cfg" % c, 1500) for c in ("rr", "rrconc", "wrr_big", "nginx_big", "nginxfail_big")]
reg(P("C18", "plugins", "c18",
      mc={"quick": _LB_Q, "thorough": _LB_T},
      traces=[("", "LoadBalanceTrace", "LoadBalanceTrace.cfg")],
      level="model_checking",
      rule="cases = every weight vector up to the tier's bound (n<=3,w<=4 quick; n<=4,w<=5 thorough) x the four weighted "
           "balancers run failure-free for 2.5 cycles; 1..6 servers x the three unweighted ones; seeded histories of "
           "10-40 operations (ok/err/panic calls, calls held in flight and finished in any order, quiescent "
           "reconfiguration, quiescence probes) for all seven; 16 concurrent pickers x 50 calls; non-trivial = more "
           "than one server or a history with failures",
      assumptions=["per-cycle proportions and least-active choices are judged on sequential histories (the harness "
                   "holds calls in flight); under concurrency only validity of the pick and counter conservation",
                   "the smooth weighted round-robin is judged as the nginx algorithm over effective weights, ties free",
                   "in-flight counters are read through a verif-only accessor"],
      sig_reset=("algo", "conc"), sig_event=("ev",),
      mutate=_c18_mutate, design_ref="DESIGN.md §3 C18",
      technique="TLC model checking of the transcribed algorithms (cycle exactness, refinement) + TLC trace validation of real picks"))


def _c17_mutate(rec):
    if rec.get("ev") == "quiesce":
        rec["cr"] = rec["cr"] + 1
        return rec
    if rec.get("ev") == "window":
        rec["tokens"] = rec["tokens"] + 50
        return rec
    return None


_LIM_Q = [("LimiterImplMC", "LimiterImpl_%s.cfg" % c, 600) for c in ("sem1", "sem2", "sem2nt", "rate")] + \
         [("LimiterImplMC", "LimiterImpl_rate_bug.cfg", 600, "violation"), ("LimiterImplMC", "LimiterImpl_sem_bug_cancel.cfg", 600, "violation"), ("SemaphoreInd", "apalache:CInitCode:Init:IndInv:0", 600), ("SemaphoreInd", "apalache:CInitCode:IndInit:IndInv:1", 600),
          ("SemaphoreInd", "apalache:CInitCode:IndInit:AtMostMax:0", 600), ("SemaphoreInd", "apalache:CInitAdmit:IndInit:IndInv:1", 600, "violation")]
_LIM_T = [("LimiterImplMC", "LimiterImpl_%s.cfg" % c, 1500) for c in ("sem1", "sem2", "sem2nt", "sem_big", "rate", "rate_big")] + \
         [("LimiterImplMC", "LimiterImpl_rate_bug.cfg", 600, "violation"), ("LimiterImplMC", "LimiterImpl_sem_bug_cancel.cfg", 600, "violation"), ("SemaphoreInd", "apalache:CInitCode:Init:IndInv:0", 600), ("SemaphoreInd", "apalache:CInitCode:IndInit:IndInv:1", 600),
          ("SemaphoreInd", "apalache:CInitCode:IndInit:AtMostMax:0", 600), ("SemaphoreInd", "apalache:CInitAdmit:IndInit:IndInv:1", 600, "violation")]
reg(P("C17", "plugins", "c17",
      mc={"quick": _LIM_Q, "thorough": _LIM_T},
      traces=[("", "LimiterTrace", "LimiterTrace.cfg")],
      level="model_checking",
      rule="semaphore: every script up to the tier's length over {start, finish ok/err/panic, quiesce} x capacity 1..2 "
           "with requests parked in the downstream handler, the same with a wait time-out and the latest caller's context "
           "being cancelled in the alphabet, seeded scripts with real waits around a 20 ms time-out, a "
           "capacity probe at the end of every case; rate limiter: seeded sequential scripts (1-3 tokens, sleeps, "
           "time-outs) judged by interval arithmetic, free-running concurrent acquirers and acquirers forced through "
           "the load/store yield point judged on sampled windows; non-trivial = at least 3 operations",
      assumptions=["time is read from the monotonic clock around each call; the monitor rejects only decisions that no "
                   "clock value inside the bracket explains",
                   "the bound is burst + rate*elapsed + two requests (the algorithm clamps after charging and admits on credit)"],
      sig_reset=("kind",), sig_event=("ev", "res"),
      mutate=_c17_mutate, design_ref="DESIGN.md §3 C17",
      technique="TLC model checking of LimiterImpl (semaphore interleavings, rate bound), Apalache inductive invariant of the semaphore, TLC trace validation with interval arithmetic"))


def _mux_mutate(rec):
    if rec.get("ev") == "ret" and rec.get("kind") == "resp":
        rec["rn"] = rec["rn"] + 1
        return rec
    if rec.get("ev") == "quiesce":
        rec["pending"] = 1
        return rec
    return None


_MUX_COMMON_ASSUME = ["the peer is scripted by the harness with its own implementation of the three frame formats",
                      "a call counts as hanging when it has not returned 2 s (plus its deadline) after the last step of "
                      "the schedule; normal latency is well under 10 ms"]
reg(P("C09", "mux", "c09",
      mc={"quick": [("MuxMC", "Mux_c09.cfg", 600), ("MuxMC", "Mux_c09_wrapfix.cfg", 600),
                    ("MuxMC", "Mux_c09_bug_wrap.cfg", 600, "violation"),
                    ("ReverseMC", "Reverse_fix.cfg", 600), ("ReverseMC", "Reverse_live.cfg", 600),
                    ("ReverseMC", "Reverse_bug_idle.cfg", 600, "violation"), ("ReverseMC", "Reverse_bug_stop.cfg", 600, "violation"),
                    ("ReverseMC", "Reverse_bug_wake.cfg", 600, "violation"), ("ReverseMC", "Reverse_bug_order.cfg", 600, "violation")],
          "thorough": [("MuxMC", "Mux_c09.cfg", 600), ("MuxMC", "Mux_c09_wrapfix.cfg", 600), ("MuxMC", "Mux_c10.cfg", 1200),
                       ("MuxMC", "Mux_c09_bug_wrap.cfg", 600, "violation"),
                       ("ReverseMC", "Reverse_fix.cfg", 600), ("ReverseMC", "Reverse_fix_big.cfg", 1500), ("ReverseMC", "Reverse_live.cfg", 600),
                       ("ReverseMC", "Reverse_bug_idle.cfg", 600, "violation"), ("ReverseMC", "Reverse_bug_stop.cfg", 600, "violation"),
                       ("ReverseMC", "Reverse_bug_wake.cfg", 600, "violation"), ("ReverseMC", "Reverse_bug_order.cfg", 600, "violation")]},
      traces=[("", "MuxTrace", "MuxTrace.cfg")],
      level="model_checking",
      rule="cases = {tcp, unix, udp, websocket} x {answers in reverse order, shuffled, with duplicated responses carrying "
           "foreign payloads, with stray indices, index wrap-around forced through the counter accessor} x rounds of "
           "concurrent callers on one connection; every caller's payload is unique and the reply is a function of the "
           "request; plus reverse calls (reverse.Caller -> reverse.Provider over tcp and mock): concurrent Invokes with "
           "seeded provider delays, the same with poll idle time-outs every 1-3 ms, calls after idle time-outs, and three "
           "gate-stepped schedules taken from the counterexamples of Reverse.tla (call handed over at the poll's time-out, "
           "call queued between a timed-out poll and the next, call queued between a poll's empty check and its "
           "registration); the peer is healthy in all of these, so an error return is a lost call; "
           "non-trivial = every case (>= 12 concurrent callers, a forced wrap, or a reverse scenario)",
      assumptions=_MUX_COMMON_ASSUME + ["wrap-around is produced by setting the request counter through a verif-only accessor"],
      sig_reset=("kind", "mode"), sig_event=("ev", "kind"),
      mutate=_mux_mutate, design_ref="DESIGN.md §3 C09",
      technique="TLC model checking of Mux.tla (OwnResponse over all interleavings, answer orders, duplicates, strays, wrap) and Reverse.tla (NoDeadLetter, NoStuckPoll, OwnResult, NoSleepingCall, liveness) + TLC trace validation of real concurrent calls and reverse calls against MuxMonitor"))

reg(P("C10", "mux", "c10",
      mc={"quick": [("MuxMC", "Mux_c10.cfg", 900),
                    ("MuxMC", "Mux_c10_bug_orphan.cfg", 600, "violation"), ("MuxMC", "Mux_c10_bug_leak.cfg", 600, "violation")],
          "thorough": [("MuxMC", "Mux_c10.cfg", 900), ("MuxMC", "Mux_c10_live.cfg", 1700), ("MuxMC", "Mux_c10_mid.cfg", 1700),
                       ("MuxMC", "Mux_c10_bug_orphan.cfg", 600, "violation"), ("MuxMC", "Mux_c10_bug_leak.cfg", 600, "violation")]},
      traces=[("", "MuxTrace", "MuxTrace.cfg")],
      level="model_checking",
      rule="cases = {tcp, unix, udp, websocket} x every interleaving of two callers' steps (obtain connection, register, "
           "select) x fault {peer close, Abort, garbage frame, error frame, silent peer with deadline} x every position "
           "of the fault in the interleaving (2740 schedules; thorough runs all, quick a seeded slice covering every "
           "(transport, fault, position) class); callers are stepped through verif yield points; non-trivial = a fault occurs",
      assumptions=_MUX_COMMON_ASSUME + ["goroutine census is taken when no connection is pooled, polled for up to 3 s"],
      sig_reset=("kind", "fault"), sig_event=("ev", "kind"),
      mutate=_mux_mutate, design_ref="DESIGN.md §3 C10",
      technique="TLC model checking of Mux.tla (NoOrphan, NoLeakedSender, CleanAtQuiescence, liveness under fairness) + gate-stepped schedules on the real transports validated against MuxMonitor"))


def _c19_mutate(rec):
    if rec.get("ev") == "pubE" and rec.get("okids"):
        rec["okids"] = []
        return rec
    return None


reg(P("C19", "push", "c19",
      mc={"quick": [("PushMC", "Push_fix.cfg", 600), ("PushMC", "Push_live.cfg", 600),
                    ("PushMC", "Push_bug.cfg", 600, "violation"), ("PushMC", "Push_bug_hb.cfg", 600, "violation"),
                    ("ProsumerMC", "Prosumer_queue.cfg", 600), ("ProsumerMC", "Prosumer_resub.cfg", 600),
                    ("ProsumerMC", "Prosumer_async.cfg", 600, "violation"), ("ProsumerMC", "Prosumer_two_loops.cfg", 600, "violation")],
          "thorough": [("PushMC", "Push_fix.cfg", 600), ("PushMC", "Push_fix_big.cfg", 900), ("PushMC", "Push_live.cfg", 900),
                       ("PushMC", "Push_bug.cfg", 600, "violation"), ("PushMC", "Push_bug_hb.cfg", 600, "violation"),
                       ("ProsumerMC", "Prosumer_queue.cfg", 600), ("ProsumerMC", "Prosumer_resub.cfg", 600),
                       ("ProsumerMC", "Prosumer_async.cfg", 600, "violation"), ("ProsumerMC", "Prosumer_two_loops.cfg", 600, "violation")]},
      traces=[("", "PushTrace", "PushTrace.cfg")],
      level="model_checking",
      rule="cases = every script up to the tier's length over 11 operations (subscribe, unsubscribe, unicast, multicast, "
           "broadcast, poll; 2 client ids, 2 topics) that contains a subscribe, with a poll time-out of a few ms; seeded "
           "longer scripts; free-running runs with 2-3 publishers and a poll loop per id whose time-outs collide with "
           "publishes; 4 gate-forced orders x 2 time-outs; heart-beat scenarios over tcp and mock (a publisher disconnects "
           "after its publish woke the poll, polls that find messages at once while publishers come and go, a client "
           "that lets the heart beat lapse); a real Prosumer with callbacks (a third of them slow) and 1-2 publishers over tcp "
           "and mock, every callback a delivery event, a third of the runs with a goroutine that subscribes/unsubscribes "
           "another topic during the traffic (Prosumer.tla: one poll loop, queued hand-over); every case ends with polls until two come back empty; "
           "non-trivial = at least one publish",
      assumptions=["except in the heart-beat scenarios the heartbeat is disabled (HeartBeat = 0) so that delivery is judged "
                   "independently of the heartbeat-driven offline detection", "one poll per client id at a time (as the Prosumer does)",
                   "clients talk to the broker over the mock transport (heart-beat scenarios: also tcp, one connection per client id)",
                   "heart-beat scenarios run in real time: heart beat 400 ms, the client polls again within 40 ms"],
      sig_reset=("mode", "scenario"), sig_event=("ev",),
      mutate=_c19_mutate, design_ref="DESIGN.md §3 C19",
      technique="TLC model checking of Push.tla (StaysOnline, NoDeadLetter, Conservation, InOrder, liveness of the time-out handshake) + TLC trace validation of real broker runs against the linearizable PushMonitor"))


import re as _re


def _fmt_sig(reset, event):
    """Signature of a rejected round trip: where (leaf kind, constructor chain), which oracle, what message."""
    r = reset
    shape = r.get("shape", "")
    leaf = r.get("leaf", "")
    ctor = shape.replace(leaf, "_") if leaf and leaf in shape else shape
    if r.get("encpanic", "none") != "none":
        oracle, detail = "encpanic", r["encpanic"]
    elif r.get("encerr", "none") != "none":
        oracle, detail = "encerr", r["encerr"]
    elif r.get("decpanic", "none") != "none":
        oracle, detail = "decpanic", r["decpanic"]
    elif r.get("outfault", "none") != "none":
        oracle, detail = "outfault", "decoded value holds a wild pointer"
    elif r.get("decerr", "none") != "none":
        oracle, detail = "decerr", r["decerr"]
    else:
        oracle, detail = "mismatch", ""
    detail = _re.sub(r"0x[0-9a-f]+", "0x..", detail)[:60]
    return {"leaf": leaf, "ctor": ctor, "oracle": oracle, "detail": detail, "class": r.get("class", ""), "mode": r.get("mode", ""),
            "ptr_iface": "ptr(iface)" in shape}


def _fmt_mutate_c01(rec):
    if rec.get("ev") == "one" and rec.get("kind") == "rt" and rec.get("out", {}).get("root", {}).get("k") == "int":
        rec["out"]["root"]["v"] = rec["out"]["root"]["v"] + "1"
        return rec
    return None


def _fmt_mutate_c03(rec):
    if rec.get("ev") == "one" and rec.get("toks") and len(rec["toks"]) >= 2:
        rec["toks"] = rec["toks"][:-1]
        return rec
    return None


_FMT_ASSUME = ["the byte lexer and the projection Abs of the harness are trusted (independent of /repo/io, ~700 lines)",
               "digit-level number formatting is delegated to strconv / math/big in the lexer",
               "scalars are atoms for TLC: compared by equality, never computed with"]
reg(P("C01", "format", "c01",
      mc={"quick": [("FormatSelf", "FormatSelf.cfg", 600)], "thorough": [("FormatSelf", "FormatSelf_big.cfg", 1500)]},
      traces=[("", "FormatTraceC01", "FormatTraceC01.cfg")],
      level="model_checking",
      rule="cases = type shapes (leaf kinds under pointer, slice, array 0/1/3, map incl. the 15x15 specialised key/value "
           "pairs, anonymous struct field + shared pointer fields, interface, 2-D slices, hand-declared named / tagged / "
           "embedded / all-widths / special-types structs; depth 2 for all leaves in thorough) x boundary value classes x "
           "{simple, reference}; distinct = (shape, value class, mode); non-trivial = all but the 8 bare bool/zero cells",
      assumptions=_FMT_ASSUME, sig_fn=_fmt_sig, mutate=_fmt_mutate_c01, design_ref="DESIGN.md §3 C01",
      technique="TLC evaluates HproseFormat!C01OK (SameValue over abstract value graphs) on every recorded round trip; generator-recogniser self check by TLC"))
reg(P("C03", "format", "c03",
      mc={"quick": [("FormatSelf", "FormatSelf.cfg", 600)], "thorough": [("FormatSelf", "FormatSelf_big.cfg", 1500)]},
      traces=[("", "FormatTraceC03", "FormatTraceC03.cfg")],
      level="model_checking",
      rule="cases = the C01 space; for each the encoder's bytes are lexed independently and TLC parses the tokens with the "
           "HproseFormat recogniser (lengths in UTF-16 units, counts, class tables, reference indices, nothing after "
           "the value) and checks that the denotation matches the input (WireMatch); plus sequences of values written "
           "to one encoder",
      assumptions=_FMT_ASSUME + ["the grammar is the published Hprose serialization grammar as transcribed in HproseFormat.tla"],
      sig_fn=_fmt_sig, mutate=_fmt_mutate_c03, design_ref="DESIGN.md §3 C03",
      technique="TLC runs the HproseFormat recogniser (Parse) and the WireMatch contract on the token stream of every real encoder output"))


def _fmt_mutate_c02(rec):
    if rec.get("ev") == "one" and rec.get("toks"):
        for t in rec["toks"]:
            if t.get("t") == "ref":
                t["n"] = t["n"] + 1
                return rec
    return None


reg(P("C02", "format", "c02",
      mc={"quick": [("FormatSelf", "FormatSelf.cfg", 600)], "thorough": [("FormatSelf", "FormatSelf.cfg", 1500)]},
      traces=[("", "FormatTraceC02", "FormatTraceC02.cfg")],
      level="model_checking",
      rule="cases = every rooted graph with up to N nodes and E edges (N=E=3 quick, 4 thorough) over a recursive struct with "
           "a pointer field, a slice of pointers, a map of pointers and an interface field (trees, DAGs, self-loops, "
           "longer cycles, cycles through slices and maps; a slice or map may hold a node twice), into typed and "
           "interface{} destinations; every sequence of up to 2 (thorough 3) referable items of 16 kinds followed by "
           "repeats of the first and the last; non-trivial = a graph with sharing or a cycle, or any prefix case",
      assumptions=_FMT_ASSUME + ["'written once' is judged for objects reached through Go pointers; a map or slice value "
                                 "stored twice and a complex number written as a list may be written again"],
      sig_fn=_fmt_sig, mutate=_fmt_mutate_c02, design_ref="DESIGN.md §3 C02",
      technique="TLC parses the real reference-mode streams (reference and class tables) and decides WireMatch / SameValue coinductively on the value graphs"))


def _fmt_mutate_c05(rec):
    if rec.get("ev") == "one" and rec.get("kind") == "stream" and rec["a"]["err"] == "none":
        rec["b"]["rest"] = rec["b"]["rest"] + 1
        return rec
    return None


def _c05_sig(reset, event):
    r = reset
    inp = r.get("input", {})
    plan = inp.get("plan", [])
    return {"leaf": r.get("leaf", ""), "mode": r.get("mode", ""), "chunk": plan[0] if plan else 0,
            "truncated": inp.get("cut", -1) >= 0, "dest": inp.get("dest", "")}


reg(P("C05", "format", "c05",
      mc={"quick": [("DecoderBufMC", "DecoderBuf_fixed.cfg", 600), ("DecoderBufMC", "DecoderBuf_orig.cfg", 600, "violation")],
          "thorough": [("DecoderBufMC", "DecoderBuf_fixed.cfg", 600), ("DecoderBufMC", "DecoderBuf_big.cfg", 1700),
                       ("DecoderBufMC", "DecoderBuf_orig.cfg", 600, "violation")]},
      traces=[("", "FormatTraceC05", "FormatTraceC05.cfg")],
      level="model_checking",
      rule="cases = real encoder outputs for a seeded walk over the C01 space (700 streams of up to 90 bytes in quick, "
           "6000 of up to 400 in thorough) x {every two-way split up to byte 40, every fixed chunk size 1..7, four "
           "seeded chunk sequences with zero-length reads, interface{} destination with chunk sizes 1-3} and, for "
           "streams of up to 36 bytes, every truncation read byte by byte and in two pieces; distinct = (fragmentation "
           "pattern, stream length); the contiguous decode of the same bytes is the reference",
      assumptions=_FMT_ASSUME + ["buffer sizes below the library's default are ignored by NewDecoderFromReader, so fragmentation "
                                 "is produced by the reader's chunking"],
      sig_fn=_c05_sig, mutate=_fmt_mutate_c05, design_ref="DESIGN.md §3 C05",
      technique="TLC model checking of DecoderBuf.tla (transcribed refill loop, all streams x chunk patterns) + TLC comparison of streamed and contiguous outcomes of the real decoder"))


def _c06_sig(reset, event):
    f = reset.get("facts", {})
    dest = reset.get("dest", "")
    fits = f.get("fits", {})
    ev = event or {}
    outcome = "panic" if ev.get("panic", "none") != "none" else ("error" if ev.get("err", "none") != "none" else "value")
    return {"form": reset.get("form"), "dest": dest, "pos": ev.get("pos"), "outcome": outcome,
            "overflow": bool(dest in fits and not fits[dest]), "canary": ev.get("canary", True), "fault": ev.get("fault", "none") != "none"}


def _c06_mutate(rec):
    if rec.get("ev") == "pos":
        rec["canary"] = False
        return rec
    return None


reg(P("C06", "format", "c06",
      mc={"quick": [("FormatSelf", "FormatSelf.cfg", 600)], "thorough": [("FormatSelf", "FormatSelf.cfg", 1500)]},
      traces=[("", "FormatTraceC06", "FormatTraceC06.cfg")],
      level="model_checking",
      rule="cases = 69 token forms written by the harness (long-form and boundary integers, integral / fractional / "
           "special reals, one-character and empty strings in both spellings, digit / float / guid text, bytes, the "
           "date and time forms, guid, lists, maps, back-references to strings and bytes, objects with exact, "
           "reordered, missing, extra fields, unknown class, map standing for an object) x 32 destination types x 8 "
           "positions (top level, Decoder.Read, struct field, pointer field, slice element, map value, behind one and "
           "two pointers); a case is a (form, destination) cell; every cell is non-trivial",
      assumptions=_FMT_ASSUME + ["facts about a token (fits which width, exactly representable as float32/64, decimal text) are "
                                 "computed by the harness with math/big, independently of the library",
                                 "conversions the property does not pin down are marked unspecified in FormatConv.tla and only "
                                 "checked for crashes, the canary and consistency across positions"],
      sig_fn=_c06_sig, mutate=_c06_mutate, design_ref="DESIGN.md §3 C06",
      technique="TLC parses each hand-written stream with the HproseFormat recogniser, derives the required outcome from the FormatConv conversion matrix and judges the real decoder's outcome at every position"))


def _c04_sig(reset, event):
    r = reset
    return {"mut": r.get("mut"), "entry": r.get("entry"), "dest": r.get("dest"), "outcome": r.get("outcome"),
            "detail": _re.sub(r"[0-9]+", "#", r.get("detail", ""))[:70]}


def _c04_mutate(rec):
    if rec.get("ev") == "one" and rec.get("kind") == "fuzz":
        rec["outcome"] = "panic"
        return rec
    return None


reg(P("C04", "format", "c04",
      mc={"quick": [("FormatSelf", "FormatSelf.cfg", 600)], "thorough": [("FormatSelf", "FormatSelf.cfg", 1500)]},
      traces=[("", "FormatTraceC04", "FormatTraceC04.cfg")],
      level="exploration",
      rule="inputs = mutations of ~95 well-formed streams (value forms, encoder outputs incl. a cyclic graph, RPC requests "
           "and responses): every truncation; single-byte substitutions, insertions and deletions over a 41-byte "
           "alphabet of tags, delimiters and UTF-8 lead bytes (sampled positions in quick, all in thorough); every "
           "decimal run that is a count, length or index replaced by 11 lies (-1, 0, +-1, 2^31-1, 2^32, 2^63-1, 10^11, "
           "10^20); reference / class index, negative length, huge count, unhashable key, self reference and deep "
           "nesting specials, also wrapped as call arguments and results; seeded random bytes; x destination types x "
           "{Unmarshal, reader, service request, client response}; distinct non-trivial = (mutation class, destination, entry point)",
      assumptions=_FMT_ASSUME + ["each input runs in a child process with an 8 GiB address-space limit, a 64 MiB stack limit and a 3 s "
                                 "deadline; over-allocation = TotalAlloc delta above 256 x len + 1 MiB",
                                 "'all byte strings' is sampled, not exhausted, beyond the one-edit neighbourhoods"],
      sig_fn=_c04_sig, mutate=_c04_mutate, design_ref="DESIGN.md §3 C04",
      technique="grammar-aware mutation of streams, direct observation of crash / hang / allocation in a child process; the HproseFormat recogniser (TLC) labels each stream malformed or not and demands an error for malformed ones"))


def _c07_mutate(rec):
    if rec.get("ev") == "one" and rec.get("kind") == "rpc" and rec.get("sname") not in (None, "none"):
        rec["sname"] = rec["sname"] + "x"
        return rec
    return None


reg(P("C07", "format", "c07",
      mc={"quick": [("FormatSelf", "FormatSelf.cfg", 600)], "thorough": [("FormatSelf", "FormatSelf.cfg", 1500)]},
      traces=[("", "FormatTraceC07", "FormatTraceC07.cfg")],
      level="model_checking",
      rule="cases = 33 call shapes (0..5 arguments of struct / pointer / map / slice / interface / big / time types, the same "
           "string or pointer repeated across arguments, header values and the method name, variadic tails, fewer and "
           "more arguments than parameters, upper / mixed case and non-ASCII names, 0 / 1 / several results incl. shared "
           "ones and fewer than declared, error / panic error / non-ASCII error) x Simple on either side x 4 sets of "
           "LongType / RealType / MapType / StructType / ListType / Debug options per side; 30 exchanges through the "
           "JSON-RPC 2.0 codec pair (ids going up; strings with escapes, non-ASCII names, variadic tails, maps, lists, "
           "structs, several results, errors, panic errors, method not found, invalid params, too many params); "
           "every case is non-trivial",
      assumptions=_FMT_ASSUME + ["JSON messages are parsed by the harness with encoding/json (integers kept apart from other numbers); "
                                 "for struct values what is on the wire is not compared with the value passed (JSON keys are Go's field names)"],
      sig_fn=lambda reset, event: {"label": reset.get("label"), "csimple": reset.get("csimple"), "ssimple": reset.get("ssimple"),
                                   "types": (reset.get("opts") or {}).get("types")},
      mutate=_c07_mutate, design_ref="DESIGN.md §3 C07",
      technique="TLC recognises the real request and response bytes segment by segment (RpcCodec.tla: reference scopes, simple header) and compares what each codec decoded with what the other side passed; JSON-RPC exchanges judged by RpcCodec!JsonWhy"))


def _c08_mutate(rec):
    if rec.get("ev") == "ret" and rec.get("kind") == "values":
        rec["kind"] = "error"
        rec["msg"] = "mutated"
        return rec
    return None


reg(P("C08", "calls", "c08",
      mc={"quick": [], "thorough": []},
      traces=[("", "RpcCallTrace", "RpcCallTrace.cfg")],
      level="model_checking",
      rule="cases = one per call: 42 calls (15 published functions: no / one / many parameters and results, variadic, "
           "context-taking, error-returning, panicking with string / int / error, struct / pointer / map / slice / "
           "interface / bytes / float32 / uint8 parameters, a namespaced instance method, exact / upper / mixed case and "
           "unknown names, nil arguments, a 10 kB string; raw Invoke and UseService proxies) x transports {mock, tcp, udp, "
           "net/http} in quick and all eight (incl. unix, fasthttp, websocket on net/http and fasthttp) in thorough x "
           "worker pool on/off where the handler has one x simple mode x missing-method handler on/off; plus seeded histories in which the method table changes while the service runs (publish / remove of functions under names that differ only in case, of the missing-method handler) interleaved with calls spelled in varying case",
      assumptions=["servers run inside the harness process on ephemeral ports", "calls are issued one after the other, so an "
                   "invocation is attributed to the call in progress"],
      sig_fn=lambda reset, event: {"kind": reset.get("kind"), "call": reset.get("callname"), "ev": (event or {}).get("ev"),
                                   "retkind": (event or {}).get("kind")},
      mutate=_c08_mutate, design_ref="DESIGN.md §3 C08",
      technique="TLC trace validation of real remote calls against the RpcCall monitor (lookup, exactly-once invocation, argument and result equality by SameValue)"))


def _calls_sig(reset, event):
    ev = event or {}
    if ev.get("ev") == "msg":
        return {"kind": reset.get("kind"), "ev": "msg", "from": ev.get("from"), "nbody": len(ev.get("body") or []), "decl": ev.get("decl"),
                "crc": ev.get("crc"), "outcome": ev.get("outcome")}
    return {"kind": reset.get("kind"), "sc": reset.get("sc"), "ev": ev.get("ev"), "what": ev.get("what", ev.get("where", "")),
            "retkind": ev.get("kind", ""), "detail": _re.sub(r"[0-9]+", "#", str(ev.get("detail", "")))[:60]}


def _calls_mutate(field, value):
    def m(rec):
        if rec.get("ev") == "msg":      # the Framing replay trace: claim another outcome
            rec["outcome"] = "refused" if rec.get("outcome") != "refused" else "delivered"
            return rec
        if rec.get("ev") == field[0] and field[1] in rec:
            rec[field[1]] = value
            return rec
        return None
    return m


def _c13_mutate(rec):
    """an honest request within the limit is claimed to have been far above it: its handling must be rejected"""
    if rec.get("ev") == "msg":
        rec["outcome"] = "refused" if rec.get("outcome") != "refused" else "delivered"
        return rec
    if rec.get("ev") == "req" and rec.get("decl") == "truthful" and rec.get("n", 0) <= rec.get("limit", 0) and rec.get("n", 0) >= 4:
        rec["n"] = rec["limit"] * 1000 + 7
        return rec
    return None


_CALLS_ASSUME = ["every case runs in a child process; a child that dies is the observation 'crash'",
                 "servers and scripted peers run on ephemeral ports on the loopback interface",
                 "payloads are identified by length and a 48-bit SHA-1 prefix"]
_FRAMING_MC = {"quick": [("FramingMC", "Framing_dgram_small.cfg", 600), ("FramingMC", "Framing_stream_small.cfg", 600), ("FramingMC", "Framing_http_small.cfg", 600), ("FramingMC", "Framing_bug_udp.cfg", 600, "violation"), ("FramingMC", "Framing_bug_chunked.cfg", 600, "violation"), ("FramingMC", "Framing_bug_truncate.cfg", 600, "violation")],
               "thorough": [("FramingMC", "Framing_dgram.cfg", 900), ("FramingMC", "Framing_stream.cfg", 900), ("FramingMC", "Framing_http.cfg", 900), ("FramingMC", "Framing_bug_udp.cfg", 600, "violation"), ("FramingMC", "Framing_bug_chunked.cfg", 600, "violation"), ("FramingMC", "Framing_bug_truncate.cfg", 600, "violation")]}
reg(P("C12", "calls", "c12",
      mc=_FRAMING_MC, traces=[("", "CallsTrace", "CallsTrace.cfg"), (".framing", "FramingTrace", "FramingTrace.cfg")], level="model_checking",
      rule="cases = transports x {honest traffic: request lengths around header sizes, 255/256, 4 KiB, 65 491..65 537, 1 MiB +- 1 "
           "(up to the transport's limit) x {zeros, header-looking bytes, random}; crafted request frames from a raw socket "
           "after another client left a recognisable payload: declared length larger / much larger / smaller / zero, short "
           "frame, bad checksum and every single-bit flip of the 64/96 header bits; crafted response frames from a scripted "
           "peer to a real client}; plus the replay of the Framing model's message space into udp / tcp / net/http "
           "(every single message, seeded sequences of 2-3); every case is non-trivial",
      assumptions=_CALLS_ASSUME, sig_fn=_calls_sig, mutate=_calls_mutate(("handled", "h"), "000000000000"),
      design_ref="DESIGN.md §3 C12",
      technique="TLC model checking of Framing.tla (receivers of the datagram / stream / http frame layers against lying senders: ExactOrNothing, NoForeignBytes; three defect variants refuted) + replay of the model's message space into the real transports validated by FramingTrace + TLC trace validation of recorded deliveries against the Framing monitor"))
reg(P("C13", "calls", "c13",
      mc=_FRAMING_MC, traces=[("", "CallsTrace", "CallsTrace.cfg"), (".framing", "FramingTrace", "FramingTrace.cfg")], level="model_checking",
      rule="cases = transports x limits {8, 1000} (thorough: 5, 8, 1000, 65499) x body sizes limit-1, limit, limit+1, 5*limit+3 "
           "x declaration {truthful (honest client), absent (HTTP chunked), smaller than actual (HTTP Content-Length, raw "
           "socket / UDP frame), truthful raw frame}; every case is non-trivial",
      assumptions=_CALLS_ASSUME, sig_fn=_calls_sig, mutate=_c13_mutate,
      design_ref="DESIGN.md §3 C13",
      technique="TLC model checking of Framing.tla (NeverOverLimit, RefusedIfOver for declared, absent and lying lengths) + replay of the model's message space into the real transports validated by FramingTrace + TLC trace validation of recorded requests against the MaxLen monitor"))
reg(P("C11", "calls", "c11",
      mc={"quick": [], "thorough": []}, traces=[("", "CallsTrace", "CallsTrace.cfg")], level="fault_enumeration",
      rule="faults = {function panic with string / error / nil dereference / custom value, invoke-plugin panic, IO-plugin "
           "panic, missing-method handler panic, mismatched arguments, undecodable and garbage requests, request above "
           "MaxRequestLength, request and response beyond what the transport can carry, crafted request frames (short, "
           "bad checksum, lying length, bit flips), crafted responses to a real client (short / empty message, garbage "
           "header, malformed / wrong-type / empty body, error frame, negative count)} x transports x worker pool on/off; "
           "after every fault a sentinel call on the same client and on another client; distinct = (transport, scenario)",
      assumptions=_CALLS_ASSUME + ["closing the one connection a malformed frame arrived on is allowed"],
      sig_fn=_calls_sig, mutate=_calls_mutate(("sentinel", "ok"), False),
      design_ref="DESIGN.md §3 C11",
      technique="fault enumeration in child processes; TLC trace validation against the Containment monitor"))


def _c14_mutate(rec):
    if rec.get("ev") == "one" and rec.get("kind") == "c14" and isinstance(rec.get("got"), str):
        rec["got"] = rec["got"] + "00"
        return rec
    return None


reg(P("C14", "coders", "c14",
      mc={"quick": [("LazyRegistryMC", "LazyRegistry_nested.cfg", 300), ("LazyRegistryMC", "LazyRegistry_cyclic.cfg", 300),
                    ("CoderPool", "CoderPool_ok.cfg", 300),
                    ("LazyRegistryMC", "LazyRegistry_bug.cfg", 300, "violation"), ("CoderPool", "CoderPool_bug.cfg", 300, "violation")],
          "thorough": [("LazyRegistryMC", "LazyRegistry_nested.cfg", 300), ("LazyRegistryMC", "LazyRegistry_cyclic.cfg", 300),
                       ("CoderPool", "CoderPool_ok.cfg", 300),
                       ("LazyRegistryMC", "LazyRegistry_bug.cfg", 300, "violation"), ("CoderPool", "CoderPool_bug.cfg", 300, "violation")]},
      traces=[("", "CodersTrace", "CodersTrace.cfg")],
      level="model_checking",
      rule="observations = gate-forced first use (the constructor of a named struct coder parked right after publication "
           "while another goroutine codes a value that embeds the type; encode and decode; fresh generated types), "
           "free-running simultaneous first use of fresh nested and mutually recursive types from 8 goroutines (encode and "
           "decode), every sequence of up to 2 (thorough 3) uses out of 7 kinds (reference / simple mode, class "
           "definitions, failing inputs, decoder options, defaults, dangling reference) of pooled encoders and decoders "
           "against fresh coders, and 9 inputs x 8 destinations x {slice, reader, pooled} decoders whose input buffer is "
           "overwritten (and whose decoder is recycled) after decoding; a case is one scenario",
      assumptions=["absence of data races is observed (thorough: with the race detector build), not proved: TLA+ states are "
                   "sequentially consistent", "48 fresh named type families per process"],
      sig_fn=lambda reset, event: {"what": _re.sub(r"[0-9]+", "#", reset.get("what", ""))[:60]},
      mutate=_c14_mutate, design_ref="DESIGN.md §3 C14",
      technique="TLC model checking of LazyRegistry.tla and CoderPool.tla + gate-forced schedules and pooled-coder sequences on the real coders judged by Coders!C14Why"))
