"""verifkit: shared plumbing for the hprose-golang TLA+ verification checks.

Responsibilities
  * build the Go harness against $VERIF_REPO (default /repo) with the `verif` build tag
  * run TLC (exhaustive model checking, simulation, trace validation) under a timeout, in a
    scratch directory that is removed afterwards, and parse its statistics
  * known-findings matching, VIOLATION / KNOWN-FINDING lines, replay files, evidence files

Exit codes used by every check: 0 property held on everything explored (possibly with KNOWN-FINDING
lines), 1 at least one VIOLATION, 2 the machinery itself failed (tool crash, timeout, build error,
negative control accepted, unreproduced lead).  A machinery failure is never reported as a violation.
"""
import json
import atexit
import os
import re
import shutil
import subprocess
import sys
import tempfile
import time

VERIF = os.path.dirname(os.path.dirname(os.path.abspath(__file__)))
REPO = os.environ.get("VERIF_REPO", "/repo")
SPEC = os.path.join(VERIF, "spec")
HARNESS = os.path.join(VERIF, "harness")
BUILD = os.path.join(VERIF, ".build")
# evidence describes /repo; runs against another tree (VERIF_REPO: seeded changes, older commits) write elsewhere
EVIDENCE = os.path.join(VERIF, "evidence") if REPO == "/repo" else os.path.join(VERIF, ".build", "evidence-other-tree")
if os.environ.get("VERIF_EVIDENCE"):      # development runs that must not replace the committed evidence
    EVIDENCE = os.path.abspath(os.environ["VERIF_EVIDENCE"])
REPLAYS = os.path.join(EVIDENCE, "replays")
MODULE = "github.com/hprose/hprose-golang/v3"
NCPU = os.cpu_count() or 4


class MachineryError(Exception):
    """The tooling failed; exit 2, never a violation."""


def log(*a):
    print(*a, file=sys.stderr, flush=True)


def goenv():
    env = dict(os.environ)
    env.update({
        "GOFLAGS": "-mod=mod", "GOPROXY": "off", "GOSUMDB": "off", "GOTOOLCHAIN": "local",
        "CGO_ENABLED": env.get("CGO_ENABLED", "1"),
    })
    return env


# ------------------------------------------------------------------------------------------------
# Go harness
# ------------------------------------------------------------------------------------------------

def _modfile():
    """go.mod used for the build: harness/go.mod pins replace => /repo; for another VERIF_REPO a
    sibling modfile is generated under .build (never under /tmp)."""
    src = os.path.join(HARNESS, "go.mod")
    os.makedirs(BUILD, exist_ok=True)
    tag = re.sub(r"[^A-Za-z0-9]", "_", os.path.abspath(REPO))
    dst = os.path.join(BUILD, "go.%s.mod" % tag)
    text = open(src).read()
    text = re.sub(r"(replace\s+%s\s*=>\s*)\S+" % re.escape(MODULE), r"\g<1>" + os.path.abspath(REPO), text)
    if not os.path.exists(dst) or open(dst).read() != text:
        with open(dst, "w") as f:
            f.write(text)
    # go.sum next to the modfile: the repository's sums plus the harness's own (none beyond it)
    sums = ""
    for p in (os.path.join(REPO, "go.sum"), os.path.join(HARNESS, "go.sum.extra")):
        if os.path.exists(p):
            sums += open(p).read()
    dsum = dst[:-4] + ".sum"
    if not os.path.exists(dsum) or open(dsum).read() != sums:
        with open(dsum, "w") as f:
            f.write(sums)
    return dst


def build_harness(race=False):
    """Builds harness/cmd/vh against the repository's current working tree. Returns the binary."""
    # one binary per check process: checks of several properties, or against several trees (VERIF_REPO), may
    # run at the same time
    tag = re.sub(r"[^A-Za-z0-9]+", "_", REPO)
    out = os.path.join(BUILD, "%s.%s.%d" % ("vh-race" if race else "vh", tag, os.getpid()))
    atexit.register(lambda: os.path.exists(out) and os.remove(out))
    cmd = ["go", "build", "-modfile", _modfile(), "-tags", "verif", "-o", out]
    if race:
        cmd.append("-race")
    cmd.append("./cmd/vh")
    t0 = time.time()
    p = subprocess.run(cmd, cwd=HARNESS, env=goenv(), stdout=subprocess.PIPE, stderr=subprocess.STDOUT, text=True)
    if p.returncode != 0:
        raise MachineryError("harness build failed:\n" + p.stdout[-4000:])
    log("[vk] harness built (%s) in %.1fs" % ("race" if race else "plain", time.time() - t0))
    return out


class HarnessCrash(Exception):
    """The driver process died with a Go panic / fatal error whose stack runs through the library under test: the
    code under test took its process down (that is an observation, not a failure of the machinery)."""
    def __init__(self, head, frame, current):
        Exception.__init__(self, head)
        self.head, self.frame, self.current = head, frame, current


def _crash_of_code_under_test(stderr):
    m = re.search(r"^(fatal error: .*|panic: .*|runtime: goroutine stack exceeds.*)$", stderr, re.M)
    if not m:
        return None
    # the goroutine that crashed: the first one listed as running; its innermost frames outside the Go runtime
    # must belong to the library (a crash in the harness's own code is a failure of the machinery)
    g = re.search(r"^goroutine \d+ [^\n]*\[running[^\n]*\]:\n((?:.+\n)+)", stderr[m.start():], re.M)
    if not g:
        return None
    frames = [ln.strip() for ln in g.group(1).splitlines() if ln and not ln.startswith("\t")]
    frames = [f for f in frames if not re.match(r"^(runtime\.|panic\(|testing\.|reflect\.|sync\.|\[)", f)]
    if not frames or "github.com/hprose/hprose-golang/v3/" not in frames[0]:
        return None
    f = re.search(r"github\.com/hprose/hprose-golang/v3/(.+?)\((?:0x|\{|\.\.\.|\)|$)", frames[0])
    return m.group(1)[:200], (f.group(1) if f else frames[0])[:120]


def run_harness(binary, args, timeout=1800, env_extra=None, check=True):
    env = goenv()
    env["VERIF_REPO"] = REPO
    current = None
    if "-out" in args:
        current = args[args.index("-out") + 1] + ".current"
        env["VH_CURRENT"] = current
    if env_extra:
        env.update(env_extra)
    t0 = time.time()
    try:
        p = subprocess.run([binary] + args, cwd=VERIF, env=env, stdout=subprocess.PIPE, stderr=subprocess.PIPE,
                           text=True, timeout=timeout)
    except subprocess.TimeoutExpired:
        raise MachineryError("harness timed out after %ss: %s" % (timeout, " ".join(args)))
    if check and p.returncode != 0:
        crash = _crash_of_code_under_test(p.stderr)
        if crash:
            cur = {}
            try:
                cur = json.load(open(current)) if current and os.path.exists(current) else {}
            except Exception:
                cur = {}
            raise HarnessCrash(crash[0], crash[1], cur)
        raise MachineryError("harness failed (%d): %s\n%s\n%s" % (p.returncode, " ".join(args), p.stdout[-3000:], p.stderr[-6000:]))
    log("[vk] harness %s: %.1fs" % (" ".join(args[:6]), time.time() - t0))
    return p


# ------------------------------------------------------------------------------------------------
# TLC
# ------------------------------------------------------------------------------------------------

class TLCResult:
    def __init__(self):
        self.rc = None
        self.out = ""
        self.generated = 0
        self.distinct = 0
        self.depth = 0
        self.violated = None      # name of violated invariant / property, if any
        self.wall = 0.0
        self.ok = False


_RE_STATS = re.compile(r"(\d+) states generated, (\d+) distinct states found")
_RE_DEPTH = re.compile(r"The depth of the complete state graph search is (\d+)")


def run_tlc(family, module, cfg, timeout=900, workers=None, env_extra=None, extra=None, simulate=None,
            heap=None, deadlock=True, keep=None):
    """Runs TLC on spec/<family>/<module>.tla with <cfg> in a scratch copy of the family directory.
    `keep`: list of file names to copy back from the scratch dir into the returned result's .files.
    """
    src = os.path.join(SPEC, family)
    scratch = tempfile.mkdtemp(prefix="vk_tlc_")
    res = TLCResult()
    res.files = {}
    try:
        for f in os.listdir(src):
            if f.endswith(".tla") or f.endswith(".cfg"):
                shutil.copy(os.path.join(src, f), scratch)
        common = os.path.join(SPEC, "common")
        if os.path.isdir(common):
            for f in os.listdir(common):
                if f.endswith(".tla"):
                    shutil.copy(os.path.join(common, f), scratch)
        cmd = ["timeout", str(timeout), "java", "-XX:+UseParallelGC"]
        cmd += ["-Xss64m", "-Djava.io.tmpdir=" + scratch]      # (TLC and SANY leave directories in the JVM's tmpdir)
        if heap:
            cmd += ["-Xmx" + heap]
        cmd += ["-cp", "/opt/veriftools/tla/tla2tools.jar:/opt/veriftools/tla/CommunityModules-deps.jar", "tlc2.TLC"]
        cmd += ["-metadir", os.path.join(scratch, "meta"), "-config", cfg]
        cmd += ["-workers", str(workers if workers else "auto")]
        if not deadlock:
            cmd += ["-deadlock"]
        if simulate:
            cmd += ["-simulate", simulate]
        if extra:
            cmd += extra
        cmd += [module + ".tla"]
        env = dict(os.environ)
        env["VK_SCRATCH"] = scratch
        if env_extra:
            env.update(env_extra)
        t0 = time.time()
        p = subprocess.run(cmd, cwd=scratch, env=env, stdout=subprocess.PIPE, stderr=subprocess.STDOUT, text=True)
        res.wall = time.time() - t0
        res.rc = p.returncode
        res.out = p.stdout
        for m in _RE_STATS.finditer(p.stdout):
            res.generated, res.distinct = int(m.group(1)), int(m.group(2))
        m = _RE_DEPTH.search(p.stdout)
        if m:
            res.depth = int(m.group(1))
        m = re.search(r"Invariant (\S+) is violated", p.stdout)
        if m:
            res.violated = m.group(1)
        m = re.search(r"Temporal properties were violated", p.stdout)
        if m and not res.violated:
            res.violated = "temporal"
        m = re.search(r"Action property (\S+) is violated", p.stdout)
        if m and not res.violated:
            res.violated = m.group(1)
        if "Deadlock reached" in p.stdout and not res.violated:
            res.violated = "deadlock"
        res.ok = (p.returncode == 0)
        if p.returncode == 124:
            raise MachineryError("TLC timed out after %ss on %s/%s %s" % (timeout, family, module, cfg))
        if keep:
            for k in keep:
                fp = os.path.join(scratch, k)
                if os.path.exists(fp):
                    with open(fp) as f:
                        res.files[k] = f.read()
        return res
    finally:
        shutil.rmtree(scratch, ignore_errors=True)


def run_apalache(family, module, cinit, init, inv, length, timeout=600):
    """apalache-mc check --cinit --init --inv --length on spec/<family>/<module>.tla in a scratch copy
    (inductive-invariant steps: unbounded in the length of the execution). rc 0 = no error, 12 = the
    invariant is violated; anything else is a tool problem."""
    src = os.path.join(SPEC, family)
    scratch = tempfile.mkdtemp(prefix="vk_apa_")
    res = TLCResult()
    res.files = {}
    try:
        shutil.copy(os.path.join(src, module + ".tla"), scratch)
        cmd = ["timeout", str(timeout), "apalache-mc", "check", "--cinit=" + cinit, "--init=" + init, "--inv=" + inv,
               "--length=" + str(length), "--out-dir=" + os.path.join(scratch, "out"), module + ".tla"]
        t0 = time.time()
        env = dict(os.environ)
        env["JAVA_TOOL_OPTIONS"] = (env.get("JAVA_TOOL_OPTIONS", "") + " -Djava.io.tmpdir=" + scratch).strip()
        p = subprocess.run(cmd, cwd=scratch, env=env, stdout=subprocess.PIPE, stderr=subprocess.STDOUT, text=True)
        res.wall = time.time() - t0
        res.rc, res.out = p.returncode, p.stdout
        res.ok = p.returncode == 0 and "EXITCODE: OK" in p.stdout
        if p.returncode == 12:
            res.violated = inv
        elif not res.ok:
            raise MachineryError("apalache-mc did not decide %s/%s %s (exit %s):\n%s" % (family, module, inv, p.returncode, p.stdout[-2000:]))
        return res
    finally:
        shutil.rmtree(scratch, ignore_errors=True)


def model_check(family, module, cfg, timeout=900, workers=None, expect_ok=True, **kw):
    """Exhaustive TLC run whose success is a precondition of the check (design-level result).
    A violated invariant on the *specification* is a machinery/spec problem (exit 2): verdicts about
    the repository only ever come from real-code observations.
    cfg "apalache:<cinit>:<init>:<inv>:<length>" runs one step of an inductive-invariant argument with
    Apalache instead."""
    if cfg.startswith("apalache:"):
        _, cinit, init, inv, length = cfg.split(":")
        r = run_apalache(family, module, cinit, init, inv, int(length), timeout=timeout)
        log("[vk] Apalache %s/%s %s: rc=%s %.1fs" % (family, module, cfg, r.rc, r.wall))
        if expect_ok and not r.ok:
            raise MachineryError("Apalache reported a problem on the specification %s/%s (%s)\n%s" % (family, module, cfg, r.out[-3000:]))
        return r
    r = run_tlc(family, module, cfg, timeout=timeout, workers=workers, **kw)
    log("[vk] TLC %s/%s %s: rc=%s generated=%d distinct=%d depth=%d %.1fs" % (
        family, module, cfg, r.rc, r.generated, r.distinct, r.depth, r.wall))
    if expect_ok and not r.ok:
        raise MachineryError("TLC reported a problem on the specification %s/%s (%s): %s\n%s" % (
            family, module, cfg, r.violated, r.out[-3000:]))
    return r


def _validate_one(family, module, cfg, trace_path, timeout, extra_env):
    env = {"TRACE": os.path.abspath(trace_path)}
    if extra_env:
        env.update(extra_env)
    r = run_tlc(family, module, cfg, timeout=timeout, workers=1, env_extra=env, deadlock=False,
                keep=["failed.json"])
    if "failed.json" not in r.files:
        raise MachineryError("trace validation did not finish (%s/%s):\n%s" % (family, module, r.out[-4000:]))
    data = json.loads(r.files["failed.json"])
    if not data.get("complete"):
        raise MachineryError("trace validation stopped before the end of the trace (line %s of %s):\n%s" % (
            data.get("l"), data.get("len"), r.out[-3000:]))
    if r.rc != 0:
        raise MachineryError("trace validation TLC exit %s:\n%s" % (r.rc, r.out[-4000:]))
    return data.get("failed", []), r


SHARD_LINES = 12000     # a trace longer than twice this is validated in shards, in parallel
MAX_SHARDS = 14


def validate_trace(family, module, cfg, trace_path, timeout=3000, extra_env=None):
    """Trace validation. The trace specs are deterministic monitors: they consume the ndjson file
    line by line (variable `l`), keep the *set* of abstract states compatible with the observations so
    far and, when that set becomes empty, append the case id to `failed` and skip to the next `reset`
    record.  The POSTCONDITION writes `failed` to $VK_SCRATCH/failed.json and requires that every line
    was consumed.  Cases are independent (every case starts from its own `reset` / `one` record), so a
    long trace is cut at case boundaries into shards that are validated by TLC processes in parallel;
    line numbers of rejections are translated back.  Returns (list of failed case records, TLCResult)."""
    t0 = time.time()
    with open(trace_path) as f:
        lines = [ln for ln in f if ln.strip()]
    if len(lines) < 2 * SHARD_LINES:
        failed, r = _validate_one(family, module, cfg, trace_path, timeout, extra_env)
        log("[vk] TLC trace %s/%s on %s: rc=%s states=%d %.1fs" % (family, module, os.path.basename(trace_path), r.rc, r.distinct, r.wall))
        return failed, r
    nshards = min(MAX_SHARDS, max(2, len(lines) // SHARD_LINES))
    target = (len(lines) + nshards - 1) // nshards
    starts = [0]
    for i, ln in enumerate(lines):
        if i - starts[-1] >= target and ('"ev":"reset"' in ln.replace('": "', '":"') or '"ev":"one"' in ln.replace('": "', '":"')):
            starts.append(i)
    shards = []
    for k, a in enumerate(starts):
        b = starts[k + 1] if k + 1 < len(starts) else len(lines)
        path = "%s.shard%d" % (trace_path, k)
        with open(path, "w") as f:
            f.writelines(lines[a:b])
        shards.append((path, a))
    import concurrent.futures
    results = []
    try:
        with concurrent.futures.ThreadPoolExecutor(max_workers=len(shards)) as ex:
            futs = [ex.submit(_validate_one, family, module, cfg, path, timeout, extra_env) for (path, _) in shards]
            for (path, off), fu in zip(shards, futs):
                failed, r = fu.result()
                results.append((off, failed, r))
    finally:
        for (path, _) in shards:
            if os.path.exists(path):
                os.remove(path)
    allfailed = []
    total = TLCResult()
    total.rc, total.ok = 0, True
    for off, failed, r in results:
        for fr in failed:
            fr = dict(fr)
            if "line" in fr:
                fr["line"] = fr["line"] + off
            allfailed.append(fr)
        total.distinct += r.distinct
        total.generated += r.generated
    total.wall = time.time() - t0
    log("[vk] TLC trace %s/%s on %s: %d shards, states=%d %.1fs" % (family, module, os.path.basename(trace_path), len(shards), total.distinct, total.wall))
    return allfailed, total


# ------------------------------------------------------------------------------------------------
# traces
# ------------------------------------------------------------------------------------------------

def read_ndjson(path):
    out = []
    with open(path) as f:
        for line in f:
            line = line.strip()
            if line:
                out.append(json.loads(line))
    return out


def split_cases(lines):
    """Groups trace lines by case (a `reset` record opens a case)."""
    cases = {}
    cur = None
    for i, rec in enumerate(lines):
        if rec.get("ev") == "one":
            cases[rec["case"]] = {"reset": rec, "lines": [], "first_line": i + 1}
            cur = None
        elif rec.get("ev") == "reset":
            cur = rec["case"]
            cases[cur] = {"reset": rec, "lines": [], "first_line": i + 1}
        elif cur is not None:
            cases[cur]["lines"].append(rec)
    return cases


# ------------------------------------------------------------------------------------------------
# known findings, verdict lines, replay files, evidence
# ------------------------------------------------------------------------------------------------

def load_known(prop):
    path = os.path.join(VERIF, "known_findings.jsonl")
    out = []
    if os.path.exists(path):
        for line in open(path):
            line = line.strip()
            if not line or line.startswith("#"):
                continue
            rec = json.loads(line)
            if rec.get("property") == prop and rec.get("status") == "known":
                out.append(rec)
    return out


def match_known(known, sig):
    """A finding matches when every key of its signature equals the observed signature's value
    (exact match on the keys the finding names; lists mean 'one of')."""
    for k in known:
        ks = k["signature"]
        ok = True
        for key, want in ks.items():
            got = sig.get(key)
            if isinstance(want, list):
                if got not in want:
                    ok = False
                    break
            elif got != want:
                ok = False
                break
        if ok:
            return k
    return None


class Verdict:
    """Collects violations of one check run and prints the interface lines."""

    def __init__(self, prop, tier, seed):
        self.prop, self.tier, self.seed = prop, tier, seed
        self.known = load_known(prop)
        self.violations = []      # (sig, replay_path)
        self.known_hits = {}      # finding id -> count
        self.t0 = time.time()
        os.makedirs(REPLAYS, exist_ok=True)
        import glob
        for old in glob.glob(os.path.join(REPLAYS, "%s-%s-%d-*.json" % (prop, tier, seed))):
            os.remove(old)

    def report(self, sig, replay, what=""):
        """sig: dict of stable coordinates of the failing case; replay: JSON-serialisable dict."""
        k = match_known(self.known, sig)
        if k is not None:
            if k["id"] not in self.known_hits:
                print("KNOWN-FINDING: property=%s %s [%s]" % (self.prop, k["what"], k["id"]), flush=True)
            self.known_hits[k["id"]] = self.known_hits.get(k["id"], 0) + 1
            return False
        n = len(self.violations) + 1
        path = os.path.join(REPLAYS, "%s-%s-%d-%d.json" % (self.prop, self.tier, self.seed, n))
        replay = dict(replay)
        replay.update({"property": self.prop, "tier": self.tier, "seed": self.seed, "sig": sig, "what": what})
        if n <= 50:
            with open(path, "w") as f:
                json.dump(replay, f, indent=1, sort_keys=True)
            print("VIOLATION property=%s replay=%s" % (self.prop, path), flush=True)
            if what:
                log("   ", what, json.dumps(sig, sort_keys=True))
        self.violations.append((sig, path))
        return True

    def exit_code(self):
        return 1 if self.violations else 0


def write_evidence(prop, tier, seed, level, coverage, assumptions, wall, violations):
    os.makedirs(EVIDENCE, exist_ok=True)
    ev = {
        "property_id": prop, "tier": tier, "seed": int(seed), "level": level,
        "coverage": coverage, "assumptions": assumptions, "wall_s": round(wall, 2),
        "violations": int(violations),
    }
    path = os.path.join(EVIDENCE, prop + ".json")
    tmp = path + ".tmp"
    with open(tmp, "w") as f:
        json.dump(ev, f, indent=1, sort_keys=True)
    os.replace(tmp, path)
    return path


def workdir(prop):
    """Per-run scratch directory for traces (under /verif/.build, not /tmp: replays may refer to it)."""
    d = os.path.join(BUILD, "run", "%s-%d" % (prop, os.getpid()))
    shutil.rmtree(d, ignore_errors=True)
    os.makedirs(d)
    return d


def cleanup(d):
    shutil.rmtree(d, ignore_errors=True)
