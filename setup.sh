#!/bin/sh
# Builds the verification harness offline from files on disk and checks the TLA+ tools start.
set -e
cd "$(dirname "$0")"
export GOFLAGS=-mod=mod GOPROXY=off GOSUMDB=off GOTOOLCHAIN=local
python3 - <<'PY'
import sys, os
sys.path.insert(0, os.path.join(os.getcwd(), "lib"))
import vk
vk.build_harness()
PY
java -cp /opt/veriftools/tla/tla2tools.jar tlc2.TLC -h >/dev/null 2>&1 || true
echo setup ok
