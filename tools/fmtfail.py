#!/usr/bin/env python3
import json, sys, collections, re
trace, failed = sys.argv[1], sys.argv[2]
fails = {f['case'] for f in json.load(open(failed))['failed']}
cnt = collections.Counter(); ex = {}
for l in open(trace):
    r = json.loads(l)
    if r.get('case') in fails:
        shape = re.sub(r'\b(u?int\d*|uintptr)\b', 'INT', r['shape'])
        key = (r.get('leaf'), r['class'] if len(r['class']) < 25 else r['class'][:25], r['mode'])
        key = (r.get('leaf'), r['mode'], r.get('encpanic','')[:30], r.get('decerr','')[:40], r.get('decpanic','')[:30], r.get('outfault','')[:20])
        cnt[key] += 1
        ex.setdefault(key, []).append((r['shape'], r['class'], r.get('bytes', '')[:70]))
for k, v in cnt.most_common(int(sys.argv[3]) if len(sys.argv) > 3 else 50):
    print(v, k)
    for e in ex[k][:3]: print('      ', e)
