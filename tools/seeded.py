#!/usr/bin/env python3
"""Seeded changes (/verif/seeded/<id>/): confirmation and detection runs.

  tools/seeded.py confirm <srcdir> [<id>]   confirm a candidate (patch.diff + demonstration + meta.json) in a scratch
                                            worktree of /repo: it applies and compiles, the repository's suite passes
                                            with it (stable_pass list of /root/.vp/BASELINE.json), the demonstration
                                            fails with it and passes without it; then store it as seeded/<id>/
  tools/seeded.py run [--tier quick|thorough|both] [<id> ...]
                                            run the check of the property each stored change breaks against a scratch
                                            worktree with the change applied (VERIF_REPO), record who catches what in
                                            seeded/results.json and seeded/RESULTS.md

Scratch worktrees live under /tmp/vseed and are removed (git worktree remove --force) after each use.
"""
import json, os, re, shutil, subprocess, sys, time

HERE = os.path.dirname(os.path.abspath(__file__))
VERIF = os.path.dirname(HERE)
REPO = "/repo"
SCR = "/tmp/vseed"
ENV = dict(os.environ, GOFLAGS="-mod=mod", GOPROXY="off", GOSUMDB="off", GOTOOLCHAIN="local")


def sh(cmd, cwd=None, timeout=1800, env=None):
    p = subprocess.run(cmd, cwd=cwd, env=env or ENV, stdout=subprocess.PIPE, stderr=subprocess.STDOUT, text=True,
                       timeout=timeout, shell=isinstance(cmd, str))
    return p.returncode, p.stdout


def worktree(name):
    wt = os.path.join(SCR, name)
    os.makedirs(SCR, exist_ok=True)
    if os.path.exists(wt):
        drop(wt)
    rc, out = sh(["git", "-C", REPO, "worktree", "add", "--detach", "-f", wt, "HEAD"])
    if rc != 0:
        raise RuntimeError(out)
    return wt


def drop(wt):
    tag = re.sub(r"[^A-Za-z0-9]", "_", os.path.abspath(wt))
    for f in (os.path.join(VERIF, ".build", "go.%s.mod" % tag), os.path.join(VERIF, ".build", "go.%s.sum" % tag)):
        if os.path.exists(f):
            os.remove(f)
    sh(["git", "-C", REPO, "worktree", "remove", "--force", wt])
    shutil.rmtree(wt, ignore_errors=True)
    sh(["git", "-C", REPO, "worktree", "prune"])


def apply(wt, patch):
    rc, out = sh(["git", "-C", wt, "apply", "--whitespace=nowarn", patch])
    if rc != 0:
        rc, out = sh(["git", "-C", wt, "apply", "--3way", "--whitespace=nowarn", patch])
    return rc == 0, out


def demo_layout(src):
    d = os.path.join(src, "demo") if os.path.isdir(os.path.join(src, "demo")) else src
    return d, os.path.exists(os.path.join(d, "go.mod"))


def run_demo(src, wt, tag):
    """returns (passed, output tail)"""
    d, is_mod = demo_layout(src)
    if is_mod:
        scratch = os.path.join(SCR, "demo_" + tag)
        shutil.rmtree(scratch, ignore_errors=True)
        os.makedirs(scratch)
        for f in os.listdir(d):
            if f.endswith(".go") or f in ("go.mod",):
                shutil.copy(os.path.join(d, f), scratch)
        gm = open(os.path.join(scratch, "go.mod")).read()
        gm = re.sub(r"(replace\s+github.com/hprose/hprose-golang/v3\s*=>\s*)\S+", r"\g<1>" + wt, gm)
        open(os.path.join(scratch, "go.mod"), "w").write(gm)
        shutil.copy(os.path.join(wt, "go.sum"), scratch)
        rc, out = sh(["go", "test", "-vet=off", "-count=1", "-timeout", "600s", "./..."], cwd=scratch, timeout=700)
        shutil.rmtree(scratch, ignore_errors=True)
        return rc == 0, out[-1500:]
    # an external test file of package io_test (or the package named in its header) inside the worktree
    text = open(os.path.join(d, "demo_test.go")).read()
    m = re.search(r"cp \S+ (\S+/)zz_seed_demo_test.go", text)
    sub = m.group(1) if m else "io/"
    dst = os.path.join(wt, sub, "zz_seed_demo_test.go")
    shutil.copy(os.path.join(d, "demo_test.go"), dst)
    try:
        rc, out = sh(["go", "test", "-vet=off", "-count=1", "-timeout", "600s", "-run", "TestSeedDemo", "./" + sub], cwd=wt, timeout=700)
    finally:
        os.remove(dst)
    return rc == 0, out[-1500:]


def suite(wt):
    env = dict(ENV, VERIF_REPO=wt)
    for attempt in range(2):
        rc, out = sh([sys.executable, os.path.join(HERE, "baseline_check.py")], env=env, timeout=3000)
        if rc == 0:
            return True, out.strip().splitlines()[0]
    return False, out[-1500:]


def confirm(src, sid=None):
    sid = sid or os.path.basename(src.rstrip("/"))
    patch = os.path.join(src, "patch.diff")
    rec = {"id": sid, "when": time.strftime("%Y-%m-%dT%H:%M:%SZ", time.gmtime())}
    meta = {}
    if os.path.exists(os.path.join(src, "meta.json")):
        try:
            meta = json.load(open(os.path.join(src, "meta.json")))
        except Exception as e:
            meta = {"unreadable": str(e)}
    if not os.path.exists(patch):
        rec["kept"] = False
        rec["why"] = "no patch.diff"
        return rec
    wt = worktree("c_" + sid)
    try:
        head = sh(["git", "-C", wt, "rev-parse", "--short", "HEAD"])[1].strip()
        ok_clean, out_clean = run_demo(src, wt, sid)
        rec["demo_without_change"] = "passes" if ok_clean else "FAILS"
        ok, out = apply(wt, patch)
        rec["applies"] = ok
        if not ok:
            rec["kept"] = False
            rec["why"] = "patch does not apply to " + head + ": " + out[-300:]
            return rec
        rc, out = sh(["go", "build", "./..."], cwd=wt)
        rec["compiles"] = rc == 0
        rc2, out2 = sh(["go", "vet", "-tags", "verif", "./..."], cwd=wt) if rc == 0 else (1, "")
        rc3, out3 = sh(["go", "build", "-tags", "verif", "./..."], cwd=wt) if rc == 0 else (1, "")
        rec["compiles_with_verif_tag"] = rc3 == 0
        ok_mut, out_mut = run_demo(src, wt, sid)
        rec["demo_with_change"] = "passes" if ok_mut else "fails"
        rec["demo_output_with_change"] = out_mut[-600:]
        if rec["compiles"] and not ok_mut and ok_clean:
            sp, so = suite(wt)
            rec["suite_with_change"] = so if sp else "FAILS: " + so
            rec["kept"] = sp
            if not sp:
                rec["why"] = "the existing suite does not pass with the change"
        else:
            rec["kept"] = False
            rec["why"] = "demonstration does not discriminate" if rec["compiles"] else "does not compile"
        rec["repo_head"] = head
    finally:
        drop(wt)
    if rec.get("kept"):
        dst = os.path.join(VERIF, "seeded", sid)
        shutil.rmtree(dst, ignore_errors=True)
        os.makedirs(dst)
        shutil.copy(patch, dst)
        d, is_mod = demo_layout(src)
        os.makedirs(os.path.join(dst, "demo"))
        for f in os.listdir(d):
            if f.endswith(".go") or f == "go.mod":
                shutil.copy(os.path.join(d, f), os.path.join(dst, "demo"))
        prop = meta.get("property") or sid.split("-")[0]
        out_meta = {"id": sid, "property": prop, "summary": meta.get("summary", ""), "needs": meta.get("needs", ""),
                    "author_ran": meta.get("ran", ""),
                    "confirmed": {k: rec[k] for k in ("when", "repo_head", "applies", "compiles", "compiles_with_verif_tag",
                                                     "suite_with_change", "demo_with_change", "demo_without_change")},
                    "how_confirmed": "tools/seeded.py confirm: scratch worktree of /repo at repo_head; git apply patch.diff; go build ./...; "
                                     "tools/baseline_check.py (all stable_pass tests of BASELINE.json, packages that fail in the "
                                     "parallel run re-run alone); demonstration run with the change (fails) and without it (passes)"}
        json.dump(out_meta, open(os.path.join(dst, "meta.json"), "w"), indent=1)
    return rec


def run_checks(ids, tier, seed="1"):
    sd = os.path.join(VERIF, "seeded")
    resf = os.path.join(sd, "results.json")
    results = json.load(open(resf)) if os.path.exists(resf) else {}
    all_ids = sorted(d for d in os.listdir(sd) if os.path.isdir(os.path.join(sd, d)))
    for sid in (ids or all_ids):
        meta = json.load(open(os.path.join(sd, sid, "meta.json")))
        prop = meta["property"]
        wt = worktree("r_" + sid)
        try:
            ok, out = apply(wt, os.path.join(sd, sid, "patch.diff"))
            if not ok:
                results[sid] = {"property": prop, "error": "patch does not apply: " + out[-300:]}
                continue
            r = results.get(sid, {"property": prop})
            r["property"] = prop
            tiers = ["quick", "thorough"] if tier == "both" else [tier]
            for tr_ in tiers:
                if tr_ == "thorough" and tier == "both" and r.get("quick", {}).get("caught"):
                    continue
                t0 = time.time()
                env = dict(os.environ, VERIF_REPO=wt)
                try:
                    rc, out = sh([os.path.join(VERIF, "check"), prop, "--tier", tr_, "--seed", seed], cwd=VERIF, env=env,
                                 timeout=7200 if tr_ == "thorough" else 1800)
                except subprocess.TimeoutExpired:
                    rc, out = 124, "timeout"
                viol = [l for l in out.splitlines() if l.startswith("VIOLATION")]
                what = [l.strip() for l in out.splitlines() if l.startswith("    ")][:3]
                key = tr_ if seed == "1" else "%s@seed%s" % (tr_, seed)
                r[key] = {"rc": rc, "caught": rc == 1 and bool(viol), "violations": len(viol), "first": what[:2],
                          "seconds": int(time.time() - t0)}
                print(sid, prop, tr_, "rc=%d" % rc, "violations=%d" % len(viol), (what or [""])[0][:160], flush=True)
            results[sid] = r
        finally:
            drop(wt)
            json.dump(results, open(resf, "w"), indent=1, sort_keys=True)
    # evidence/replays written during these runs belong to the mutated trees, not to /repo
    write_md(results)


def write_md(results):
    sd = os.path.join(VERIF, "seeded")
    lines = ["# Seeded changes: which check catches which", "",
             "Each change compiles, passes the repository's suite and breaks the named property (see its meta.json).",
             "`tools/seeded.py run` applies it to a scratch worktree and runs `./check <property>` against that tree.", "",
             "| change | property | needs | quick | thorough | first report |", "|---|---|---|---|---|---|"]
    for sid in sorted(results):
        r = results[sid]
        mp = os.path.join(sd, sid, "meta.json")
        needs = json.load(open(mp)).get("needs", "") if os.path.exists(mp) else ""
        def cell(t):
            x = r.get(t)
            if not x:
                return "-"
            return ("caught (%d)" % x["violations"]) if x["caught"] else ("MISSED rc=%d" % x["rc"])
        first = ""
        for t in ("quick", "thorough"):
            if r.get(t, {}).get("first"):
                first = r[t]["first"][0]
                break
        others = sorted(k for k in r if "@seed" in k)
        oc = ", ".join("%s: %s" % (k.split("@")[1], "caught" if r[k]["caught"] else "MISSED") for k in others)
        lines.append("| %s | %s | %s | %s | %s | %s |" % (sid, r.get("property"), needs.replace("|", "/").replace("\n", " ")[:160],
                                                      cell("quick") + (" (" + oc + ")" if oc else ""), cell("thorough"),
                                                      first.replace("|", "/")[:140]))
    open(os.path.join(sd, "RESULTS.md"), "w").write("\n".join(lines) + "\n")


if __name__ == "__main__":
    if len(sys.argv) < 2:
        print(__doc__)
        sys.exit(2)
    if sys.argv[1] == "confirm":
        rec = confirm(sys.argv[2], sys.argv[3] if len(sys.argv) > 3 else None)
        print(json.dumps(rec, indent=1))
        sys.exit(0 if rec.get("kept") else 1)
    if sys.argv[1] == "run":
        args = sys.argv[2:]
        tier, seed = "quick", "1"
        while args and args[0] in ("--tier", "--seed"):
            if args[0] == "--tier":
                tier = args[1]
            else:
                seed = args[1]
            args = args[2:]
        run_checks(args, tier, seed)
