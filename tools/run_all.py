#!/usr/bin/env python3
"""Runs every registered check (tier and seeds from argv) and prints one line per run."""
import json, subprocess, sys, time, os
tier = sys.argv[1] if len(sys.argv) > 1 else "quick"
seeds = [int(x) for x in sys.argv[2].split(",")] if len(sys.argv) > 2 else [1]
only = sys.argv[3].split(",") if len(sys.argv) > 3 else None
m = json.load(open(os.path.join(os.path.dirname(__file__), "..", "MANIFEST.json")))
bad = 0
for seed in seeds:
    for c in m["checks"]:
        pid = c["property_id"]
        if only and pid not in only:
            continue
        t0 = time.time()
        p = subprocess.run(["./check", pid, "--tier", tier, "--seed", str(seed)], cwd=os.path.join(os.path.dirname(__file__), ".."),
                           stdout=subprocess.PIPE, stderr=subprocess.PIPE, text=True)
        v = p.stdout.count("VIOLATION")
        k = p.stdout.count("KNOWN-FINDING")
        print("%s seed=%d tier=%s rc=%d violations=%d known=%d %.0fs" % (pid, seed, tier, p.returncode, v, k, time.time() - t0), flush=True)
        if p.returncode != 0:
            bad += 1
            print("   ", (p.stdout + p.stderr)[-600:].replace("\n", "\n    "), flush=True)
sys.exit(1 if bad else 0)
