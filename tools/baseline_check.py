#!/usr/bin/env python3
"""Runs the repository's test suite with the verif guard OFF and checks that every test of
/root/.vp/BASELINE.json's stable_pass list passes. Packages share fixed TCP ports, so a package that
fails in the parallel run is re-run alone before a failure is believed."""
import json, os, subprocess, sys
repo = os.environ.get("VERIF_REPO", "/repo")
env = dict(os.environ, GOFLAGS="-mod=mod", GOPROXY="off", GOSUMDB="off", GOTOOLCHAIN="local")
base = json.load(open("/root/.vp/BASELINE.json"))
stable = set(base["stable_pass"])

# The rpc tests listen on fixed ports: inside a private network namespace (own loopback) they cannot collide with
# other sessions running the same suite on this machine. Used when unshare works (VERIF_NO_NETNS=1 turns it off).
def _netns():
    if os.environ.get("VERIF_NO_NETNS"):
        return False
    try:
        return subprocess.run(["unshare", "-n", "sh", "-c", "ip link set lo up"], stdout=subprocess.DEVNULL,
                              stderr=subprocess.DEVNULL, timeout=20).returncode == 0
    except Exception:
        return False

NETNS = _netns()

def run(pkgs):
    cmd = ["go", "test", "-json", "-vet=off", "-count=1", "-timeout", "25m"] + pkgs
    if NETNS:
        cmd = ["unshare", "-n", "sh", "-c", "ip link set lo up; exec \"$@\"", "sh"] + cmd
    p = subprocess.run(cmd, cwd=repo, env=env,
                       stdout=subprocess.PIPE, stderr=subprocess.DEVNULL, text=True)
    res = {}
    for line in p.stdout.splitlines():
        try:
            r = json.loads(line)
        except Exception:
            continue
        if r.get("Test") and r.get("Action") in ("pass", "fail", "skip"):
            res[r["Package"] + "::" + r["Test"]] = r["Action"]
    return res

res = run(["./..."])
bad = [t for t in stable if res.get(t) != "pass"]
if bad:
    pkgs = sorted(set(t.split("::")[0] for t in bad))
    for pk in pkgs:
        r2 = run([pk])
        for t, a in r2.items():
            if a == "pass":
                res[t] = a
    bad = [t for t in stable if res.get(t) != "pass"]
print("stable_pass: %d, passing now: %d" % (len(stable), len(stable) - len(bad)))
for t in bad[:40]:
    print("NOT PASSING:", t, res.get(t))
sys.exit(1 if bad else 0)
