#!/usr/bin/env python3
"""Rewrites the table of DESIGN.md section 6 (between the SEEDED-TABLE markers) from seeded/results.json and the
seeded/<id>/meta.json files."""
import json, os, re
V = os.path.dirname(os.path.dirname(os.path.abspath(__file__)))
res = json.load(open(os.path.join(V, "seeded", "results.json")))
rows = ["| change | breaks | what was changed | caught by (quick tier, seed 1) | other seeds |", "|---|---|---|---|---|"]
for sid in sorted(res):
    r = res[sid]
    mp = os.path.join(V, "seeded", sid, "meta.json")
    m = json.load(open(mp)) if os.path.exists(mp) else {}
    patch = open(os.path.join(V, "seeded", sid, "patch.diff")).read() if os.path.exists(os.path.join(V, "seeded", sid, "patch.diff")) else ""
    files = sorted(set(l[6:] for l in patch.splitlines() if l.startswith("+++ b/")))
    what = re.sub(r"\s+", " ", m.get("summary", ""))[:150].replace("|", "/")
    q = r.get("quick", {})
    by = "MISSED" if not q.get("caught") else ""
    if q.get("caught") and q.get("first"):
        f = q["first"][0]
        mm = re.search(r"rejected by (\w+) at event (-?\d+) of case \d+ (\{.*)", f)
        if mm:
            try:
                sig = json.loads(mm.group(3))
            except Exception:
                sig = {}
            keys = [k for k in ("mode", "sc", "scenario", "fault", "what", "why", "label", "form", "dest", "algo", "kind", "ev", "class", "entry", "mut") if sig.get(k) not in (None, "", False)]
            by = "%s: %s (%d rejections)" % (mm.group(1), ", ".join("%s=%s" % (k, str(sig[k])[:40]) for k in keys[:4]), q.get("violations", 0))
        else:
            by = f[:110]
    others = ", ".join("%s %s" % (k.split("@")[1], "caught" if r[k]["caught"] else "MISSED") for k in sorted(r) if "@seed" in k)
    rows.append("| %s | %s | `%s`: %s | %s | %s |" % (sid, r.get("property"), ", ".join(files), what, by.replace("|", "/"), others))
p = os.path.join(V, "DESIGN.md")
s = open(p).read()
a, b = "<!-- SEEDED-TABLE-BEGIN -->", "<!-- SEEDED-TABLE-END -->"
assert a in s and b in s
s = s[:s.index(a) + len(a)] + "\n" + "\n".join(rows) + "\n" + s[s.index(b):]
open(p, "w").write(s)
print("rows:", len(rows) - 2)
