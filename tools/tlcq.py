#!/usr/bin/env python3
"""Quick TLC runner for spec development: tools/tlcq.py <family> <module> <cfg>... (prints stats, violated property, trace tail)"""
import sys, os
sys.path.insert(0, os.path.join(os.path.dirname(os.path.abspath(__file__)), "..", "lib"))
import vk
fam, mod = sys.argv[1], sys.argv[2]
for cfg in sys.argv[3:]:
    try:
        r = vk.run_tlc(fam, mod, cfg, timeout=int(os.environ.get("TLCQ_TIMEOUT", "280")))
        print(cfg, "rc=%s generated=%s distinct=%s depth=%s violated=%s %.1fs" % (r.rc, r.generated, r.distinct, r.depth, r.violated, r.wall))
        if r.rc not in (0,) and os.environ.get("TLCQ_OUT"):
            print(r.out[-int(os.environ["TLCQ_OUT"]):])
    except Exception as e:
        print(cfg, "ERR", str(e)[-3000:])
