// Package peers provides scripted RPC peers for the multiplexing transports: a server that speaks
// the frame format of rpc/socket (tcp, unix), rpc/udp or rpc/websocket with the harness's own
// header code, records every request it receives and answers only when the driver says so - in
// any order, twice, with an index nobody waits for, with garbage, or by closing the connection.
package peers

import (
	"encoding/binary"
	"fmt"
	"hash/crc32"
	"io"
	"net"
	"net/http"
	"os"
	"sync"
	"time"

	"github.com/fasthttp/websocket"
)

// Request is one frame received from the client.
type Request struct {
	Conn  int // connection generation (1, 2, ...)
	Index int
	Body  []byte
}

// Peer is a scripted server.
type Peer struct {
	Kind string // tcp | unix | udp | ws
	URL  string
	Reqs chan Request

	mu     sync.Mutex
	ln     net.Listener
	pc     net.PacketConn
	srv    *http.Server
	conns  map[int]io.Closer
	tcp    map[int]net.Conn
	wsc    map[int]*websocket.Conn
	udpTo  map[int]net.Addr
	nconns int
	path   string
	closed bool
	wmu    sync.Mutex
}

// ---- frame formats (harness-owned implementation) ----

// SocketHeader builds the 12-byte header of rpc/socket.
func SocketHeader(length, index int, errFlag bool) []byte {
	h := make([]byte, 12)
	binary.BigEndian.PutUint32(h[4:], uint32(length)|0x80000000)
	v := uint32(index)
	if errFlag {
		v |= 0x80000000
	}
	binary.BigEndian.PutUint32(h[8:], v)
	binary.BigEndian.PutUint32(h[0:], crc32.ChecksumIEEE(h[4:]))
	return h
}

// UDPHeader builds the 8-byte header of rpc/udp.
func UDPHeader(length, index int, errFlag bool) []byte {
	h := make([]byte, 8)
	binary.BigEndian.PutUint16(h[4:], uint16(length))
	v := uint16(index)
	if errFlag {
		v |= 0x8000
	}
	binary.BigEndian.PutUint16(h[6:], v)
	binary.BigEndian.PutUint32(h[0:], crc32.ChecksumIEEE(h[4:]))
	return h
}

// WSHeader builds the 4-byte header of rpc/websocket.
func WSHeader(index int, errFlag bool) []byte {
	h := make([]byte, 4)
	v := uint32(index)
	if errFlag {
		v |= 0x80000000
	}
	binary.BigEndian.PutUint32(h, v)
	return h
}

// New starts a peer of the given kind on an ephemeral port / temporary socket path.
func New(kind string) (*Peer, error) {
	p := &Peer{Kind: kind, Reqs: make(chan Request, 4096), conns: map[int]io.Closer{}, tcp: map[int]net.Conn{},
		wsc: map[int]*websocket.Conn{}, udpTo: map[int]net.Addr{}}
	switch kind {
	case "tcp":
		ln, err := net.Listen("tcp", "127.0.0.1:0")
		if err != nil {
			return nil, err
		}
		p.ln = ln
		p.URL = "tcp://" + ln.Addr().String()
		go p.acceptLoop()
	case "unix":
		f, err := os.CreateTemp("", "vhpeer*.sock")
		if err != nil {
			return nil, err
		}
		p.path = f.Name()
		f.Close()
		os.Remove(p.path)
		ln, err := net.Listen("unix", p.path)
		if err != nil {
			return nil, err
		}
		p.ln = ln
		p.URL = "unix://" + p.path
		go p.acceptLoop()
	case "udp":
		pc, err := net.ListenPacket("udp", "127.0.0.1:0")
		if err != nil {
			return nil, err
		}
		p.pc = pc
		p.URL = "udp://" + pc.LocalAddr().String()
		go p.udpLoop()
	case "ws":
		ln, err := net.Listen("tcp", "127.0.0.1:0")
		if err != nil {
			return nil, err
		}
		p.ln = ln
		p.URL = "ws://" + ln.Addr().String() + "/"
		up := websocket.Upgrader{Subprotocols: []string{"hprose"}, CheckOrigin: func(*http.Request) bool { return true }}
		p.srv = &http.Server{Handler: http.HandlerFunc(func(w http.ResponseWriter, r *http.Request) {
			c, err := up.Upgrade(w, r, nil)
			if err != nil {
				return
			}
			p.mu.Lock()
			p.nconns++
			id := p.nconns
			p.wsc[id] = c
			p.conns[id] = c
			p.mu.Unlock()
			for {
				mt, msg, err := c.ReadMessage()
				if err != nil {
					return
				}
				if mt != websocket.BinaryMessage || len(msg) < 4 {
					continue
				}
				idx := int(binary.BigEndian.Uint32(msg[:4]) & 0x7fffffff)
				p.Reqs <- Request{id, idx, append([]byte(nil), msg[4:]...)}
			}
		})}
		go p.srv.Serve(ln)
	default:
		return nil, fmt.Errorf("peer kind %s", kind)
	}
	return p, nil
}

func (p *Peer) acceptLoop() {
	for {
		c, err := p.ln.Accept()
		if err != nil {
			return
		}
		p.mu.Lock()
		p.nconns++
		id := p.nconns
		p.tcp[id] = c
		p.conns[id] = c
		p.mu.Unlock()
		go func() {
			for {
				h := make([]byte, 12)
				if _, err := io.ReadFull(c, h); err != nil {
					return
				}
				if crc32.ChecksumIEEE(h[4:]) != binary.BigEndian.Uint32(h[0:]) {
					return
				}
				n := int(binary.BigEndian.Uint32(h[4:]) & 0x7fffffff)
				idx := int(binary.BigEndian.Uint32(h[8:]) & 0x7fffffff)
				body := make([]byte, n)
				if _, err := io.ReadFull(c, body); err != nil {
					return
				}
				p.Reqs <- Request{id, idx, body}
			}
		}()
	}
}

func (p *Peer) udpLoop() {
	buf := make([]byte, 65536)
	seen := map[string]int{}
	for {
		n, addr, err := p.pc.ReadFrom(buf)
		if err != nil {
			return
		}
		if n < 8 {
			continue
		}
		p.mu.Lock()
		id, ok := seen[addr.String()]
		if !ok {
			p.nconns++
			id = p.nconns
			seen[addr.String()] = id
			p.udpTo[id] = addr
		}
		p.mu.Unlock()
		idx := int(binary.BigEndian.Uint16(buf[6:8]) & 0x7fff)
		p.Reqs <- Request{id, idx, append([]byte(nil), buf[8:n]...)}
	}
}

// Respond sends a well-formed response frame carrying index and body on connection conn.
func (p *Peer) Respond(conn, index int, body []byte) error {
	return p.respond(conn, index, body, false)
}

// RespondError sends a frame with the error flag set.
func (p *Peer) RespondError(conn, index int, body []byte) error {
	return p.respond(conn, index, body, true)
}

func (p *Peer) respond(conn, index int, body []byte, errFlag bool) error {
	p.wmu.Lock()
	defer p.wmu.Unlock()
	switch p.Kind {
	case "tcp", "unix":
		p.mu.Lock()
		c := p.tcp[conn]
		p.mu.Unlock()
		if c == nil {
			return fmt.Errorf("no conn %d", conn)
		}
		_, err := c.Write(append(SocketHeader(len(body), index, errFlag), body...))
		return err
	case "udp":
		p.mu.Lock()
		a := p.udpTo[conn]
		p.mu.Unlock()
		if a == nil {
			return fmt.Errorf("no conn %d", conn)
		}
		_, err := p.pc.WriteTo(append(UDPHeader(len(body), index, errFlag), body...), a)
		return err
	case "ws":
		p.mu.Lock()
		c := p.wsc[conn]
		p.mu.Unlock()
		if c == nil {
			return fmt.Errorf("no conn %d", conn)
		}
		return c.WriteMessage(websocket.BinaryMessage, append(WSHeader(index, errFlag), body...))
	}
	return nil
}

// Raw writes arbitrary bytes (a whole datagram / WebSocket message / stream segment).
func (p *Peer) Raw(conn int, b []byte) error {
	p.wmu.Lock()
	defer p.wmu.Unlock()
	switch p.Kind {
	case "tcp", "unix":
		p.mu.Lock()
		c := p.tcp[conn]
		p.mu.Unlock()
		if c == nil {
			return fmt.Errorf("no conn %d", conn)
		}
		_, err := c.Write(b)
		return err
	case "udp":
		p.mu.Lock()
		a := p.udpTo[conn]
		p.mu.Unlock()
		if a == nil {
			return fmt.Errorf("no conn %d", conn)
		}
		_, err := p.pc.WriteTo(b, a)
		return err
	case "ws":
		p.mu.Lock()
		c := p.wsc[conn]
		p.mu.Unlock()
		if c == nil {
			return fmt.Errorf("no conn %d", conn)
		}
		return c.WriteMessage(websocket.BinaryMessage, b)
	}
	return nil
}

// CloseConn closes one client connection (stream transports).
func (p *Peer) CloseConn(conn int) {
	p.mu.Lock()
	c := p.conns[conn]
	delete(p.conns, conn)
	p.mu.Unlock()
	if c != nil {
		c.Close()
	}
}

// Conns returns the number of connections seen so far.
func (p *Peer) Conns() int {
	p.mu.Lock()
	defer p.mu.Unlock()
	return p.nconns
}

// Next waits for the next request.
func (p *Peer) Next(timeout time.Duration) (Request, bool) {
	select {
	case r := <-p.Reqs:
		return r, true
	case <-time.After(timeout):
		return Request{}, false
	}
}

// Close shuts the peer down.
func (p *Peer) Close() {
	p.mu.Lock()
	if p.closed {
		p.mu.Unlock()
		return
	}
	p.closed = true
	cs := p.conns
	p.conns = map[int]io.Closer{}
	p.mu.Unlock()
	if p.srv != nil {
		p.srv.Close()
	}
	if p.ln != nil {
		p.ln.Close()
	}
	if p.pc != nil {
		p.pc.Close()
	}
	for _, c := range cs {
		c.Close()
	}
	if p.path != "" {
		os.Remove(p.path)
	}
}
