// Package gate is the controller behind the repository's verif yield points
// (internal/verifhook.Gate). A rule per point decides what an arriving goroutine does: pass, wait
// at a barrier until n goroutines have arrived (or a timeout expires), or wait until the driver
// releases it. Every arrival is logged with a sequence number under the controller's mutex.
package gate

import (
	"sync"
	"time"

	"github.com/hprose/hprose-golang/v3/verifctl"
)

// Arrival is one logged event.
type Arrival struct {
	Seq    int
	Point  string
	Args   []interface{}
	Forced bool
}

type barrier struct {
	n       int
	timeout time.Duration
	waiting []chan struct{}
}

// Hold is a goroutine parked at a point, waiting for Release.
type Hold struct {
	Point string
	Args  []interface{}
	ch    chan struct{}
}

// Release lets the parked goroutine continue.
func (h *Hold) Release() { close(h.ch) }

// Controller implements the rules.
type Controller struct {
	mu          sync.Mutex
	seq         int
	Log         []Arrival
	barriers    map[string]*barrier
	holds       map[string]func(args []interface{}) bool // point -> predicate: park this arrival?
	Parked      chan *Hold
	HoldTimeout time.Duration
	Forced      int
}

// New installs a fresh controller as the gate function.
func New() *Controller {
	c := &Controller{barriers: map[string]*barrier{}, holds: map[string]func([]interface{}) bool{}, Parked: make(chan *Hold, 256), HoldTimeout: 5 * time.Second}
	verifctl.SetGate(c.arrive)
	return c
}

// Close removes the controller.
func (c *Controller) Close() { verifctl.SetGate(nil) }

// Barrier makes arrivals at point wait until n have arrived or timeout has passed.
func (c *Controller) Barrier(point string, n int, timeout time.Duration) {
	c.mu.Lock()
	c.barriers[point] = &barrier{n: n, timeout: timeout}
	c.mu.Unlock()
}

// HoldAt parks every arrival at point for which pred returns true until the driver releases it
// (or HoldTimeout passes: the step is then counted as forced).
func (c *Controller) HoldAt(point string, pred func(args []interface{}) bool) {
	c.mu.Lock()
	if pred == nil {
		delete(c.holds, point)
	} else {
		c.holds[point] = pred
	}
	c.mu.Unlock()
}

func (c *Controller) arrive(point string, args ...interface{}) {
	c.mu.Lock()
	c.seq++
	c.Log = append(c.Log, Arrival{Seq: c.seq, Point: point, Args: args})
	if b := c.barriers[point]; b != nil {
		ch := make(chan struct{})
		b.waiting = append(b.waiting, ch)
		if len(b.waiting) >= b.n {
			for _, w := range b.waiting {
				close(w)
			}
			b.waiting = nil
			c.mu.Unlock()
			return
		}
		to := b.timeout
		c.mu.Unlock()
		select {
		case <-ch:
		case <-time.After(to):
			c.mu.Lock()
			// leave the barrier; release nobody else
			for i, w := range b.waiting {
				if w == ch {
					b.waiting = append(b.waiting[:i], b.waiting[i+1:]...)
					break
				}
			}
			c.Forced++
			c.mu.Unlock()
		}
		return
	}
	if pred := c.holds[point]; pred != nil && pred(args) {
		h := &Hold{Point: point, Args: args, ch: make(chan struct{})}
		to := c.HoldTimeout
		c.mu.Unlock()
		c.Parked <- h
		select {
		case <-h.ch:
		case <-time.After(to):
			c.mu.Lock()
			c.Forced++
			c.mu.Unlock()
		}
		return
	}
	c.mu.Unlock()
}

// Count returns how often point has been reached.
func (c *Controller) Count(point string) int {
	c.mu.Lock()
	defer c.mu.Unlock()
	n := 0
	for _, a := range c.Log {
		if a.Point == point {
			n++
		}
	}
	return n
}
