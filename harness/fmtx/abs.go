package fmtx

import (
	"container/list"
	"encoding/hex"
	"fmt"
	"math"
	"math/big"
	"reflect"
	"sort"
	"strconv"
	"strings"
	"time"
	"unicode/utf8"

	"github.com/google/uuid"
)

// AV is an abstract value (JSON object). Kinds (field k):
//
//	nil | bool v | int v(decimal) | real w(32|64) cls b(hex bits) | complex w re im
//	str s(hex) valid u16 | bytes s(hex) | bigint v | bigfloat v | bigrat num den
//	time date time ns utc local instant | guid v | error s
//	node id  - a container; the node table entry is
//	    list items go(slice|array|list) | map ents[[k,v]..] | struct name fields[[name,v]..]
type AV = map[string]interface{}

// Graph is a rooted value graph: containers live in Nodes (numbered in order of first visit,
// depth first, before their children), everything else is inline.
type Graph struct {
	Nodes []AV `json:"nodes"`
	Root  AV   `json:"root"`
	// Extra counts repeated occurrences of containers that are not reached through a Go pointer (a map or
	// slice value stored twice): the encoder may legitimately write those again.
	Extra int `json:"extra"`
}

type absKey struct {
	kind reflect.Kind
	ptr  uintptr
	n    int
	t    reflect.Type
}

type absCtx struct {
	nodes []AV
	seen  map[absKey]int
	extra int
}

var (
	bigIntType   = reflect.TypeOf(big.Int{})
	bigFloatType = reflect.TypeOf(big.Float{})
	bigRatType   = reflect.TypeOf(big.Rat{})
	timeType     = reflect.TypeOf(time.Time{})
	uuidType     = reflect.TypeOf(uuid.UUID{})
	listType     = reflect.TypeOf(list.List{})
	errorType    = reflect.TypeOf((*error)(nil)).Elem()
	bytesType    = reflect.TypeOf([]byte(nil))
)

// Abs projects a Go value.
func Abs(v interface{}) Graph {
	c := &absCtx{seen: map[absKey]int{}}
	root := c.abs(reflect.ValueOf(v))
	if c.nodes == nil {
		c.nodes = []AV{}
	}
	return Graph{c.nodes, root, c.extra}
}

// AbsValue projects a reflect.Value.
func AbsValue(v reflect.Value) Graph {
	c := &absCtx{seen: map[absKey]int{}}
	root := c.abs(v)
	if c.nodes == nil {
		c.nodes = []AV{}
	}
	return Graph{c.nodes, root, c.extra}
}

func realAV(f float64, w int) AV {
	cls := "fin"
	switch {
	case math.IsNaN(f):
		cls = "nan"
	case math.IsInf(f, 1):
		cls = "pinf"
	case math.IsInf(f, -1):
		cls = "ninf"
	}
	b := fmt.Sprintf("%016x", math.Float64bits(f))
	if w == 32 {
		b = fmt.Sprintf("%08x", math.Float32bits(float32(f)))
	}
	if cls == "nan" {
		b = "nan"
	}
	av := AV{"k": "real", "w": w, "cls": cls, "b": b}
	if w == 32 && cls == "fin" {
		// the double that the shortest decimal text of this float32 denotes
		d, _ := strconv.ParseFloat(strconv.FormatFloat(f, 'g', -1, 32), 64)
		av["b64s"] = fmt.Sprintf("%016x", math.Float64bits(d))
	} else {
		av["b64s"] = b
	}
	return av
}

func strAV(s string) AV {
	n, _ := utf16Units([]byte(s))
	return AV{"k": "str", "s": hex.EncodeToString([]byte(s)), "valid": utf8.ValidString(s), "u16": n}
}

// FieldName is the name the serializer gives a struct field: tag hprose, else tag json, else the Go
// name with its first letter in lower case.
func FieldName(f reflect.StructField) (string, bool) {
	for _, tag := range []string{"hprose", "json"} {
		if t, ok := f.Tag.Lookup(tag); ok {
			name := strings.Split(t, ",")[0]
			if name == "-" {
				return "", false
			}
			if name != "" {
				return name, true
			}
		}
	}
	// the library lowers an ASCII capital first letter and leaves every other name as it is
	n := f.Name
	if n[0] >= 'A' && n[0] <= 'Z' {
		return string(n[0]-'A'+'a') + n[1:], true
	}
	return n, true
}

func (c *absCtx) node(key absKey, build func(id int) AV) AV {
	if key.ptr != 0 {
		if id, ok := c.seen[key]; ok {
			if key.kind != reflect.Ptr {
				c.extra++
			}
			return AV{"k": "node", "id": id}
		}
	}
	id := len(c.nodes)
	c.nodes = append(c.nodes, nil)
	if key.ptr != 0 {
		c.seen[key] = id
	}
	c.nodes[id] = build(id)
	return AV{"k": "node", "id": id}
}

// withWrap: an integer outside the int64 range carries w64, its value modulo 2^64 read as a signed
// number - what the known finding C01-K2 (silent wrap through the default LongType) turns it into, and
// nothing else
func withWrap(av AV, x *big.Int) AV {
	if !x.IsInt64() {
		m := new(big.Int).And(x, new(big.Int).SetUint64(math.MaxUint64)) // two's complement low 64 bits (And works on the infinite sign extension)
		av["w64"] = fmt.Sprintf("%d", int64(m.Uint64()))
	}
	return av
}

func (c *absCtx) abs(v reflect.Value) AV {
	if !v.IsValid() {
		return AV{"k": "nil"}
	}
	t := v.Type()
	// special types first (by value or behind the pointer handled below)
	switch t {
	case bigIntType:
		x := v.Interface().(big.Int)
		return withWrap(AV{"k": "bigint", "v": x.String()}, &x)
	case bigFloatType:
		x := v.Interface().(big.Float)
		av := AV{"k": "bigfloat", "v": x.Text('p', 0), "inf": x.IsInf()}
		if f, acc := x.Float64(); acc == big.Exact {
			av["b64"] = fmt.Sprintf("%016x", math.Float64bits(f))
		}
		// what the known finding C01-K1 turns it into, and nothing else: the shortest decimal text for its
		// own precision, read back with a 64-bit mantissa (p64) or, through an interface{}, as a float64 (r64)
		if !x.IsInf() {
			text := x.Text('g', -1)
			if y, ok := new(big.Float).SetString(text); ok {
				av["p64"] = y.Text('p', 0)
			}
			if f, err := strconv.ParseFloat(text, 64); err == nil {
				av["r64"] = fmt.Sprintf("%016x", math.Float64bits(f))
			}
		}
		return av
	case bigRatType:
		x := v.Interface().(big.Rat)
		return withWrap(AV{"k": "bigrat", "num": x.Num().String(), "den": x.Denom().String(), "txt": hex.EncodeToString([]byte(x.String()))}, x.Num())
	case timeType:
		x := v.Interface().(time.Time)
		return AV{"k": "time", "date": fmt.Sprintf("%04d%02d%02d", x.Year(), int(x.Month()), x.Day()),
			"year": x.Year(), "time": fmt.Sprintf("%02d%02d%02d", x.Hour(), x.Minute(), x.Second()),
			"ns": fmt.Sprintf("%09d", x.Nanosecond()), "utc": x.Location() == time.UTC, "local": x.Location() == time.Local,
			"instant": fmt.Sprintf("%d.%09d", x.Unix(), x.Nanosecond()),
			"ldate":   fmt.Sprintf("%04d%02d%02d", x.Local().Year(), int(x.Local().Month()), x.Local().Day()),
			"ltime":   fmt.Sprintf("%02d%02d%02d", x.Local().Hour(), x.Local().Minute(), x.Local().Second())}
	case uuidType:
		x := v.Interface().(uuid.UUID)
		return AV{"k": "guid", "v": hex.EncodeToString(x[:])}
	case listType:
		x := v.Interface().(list.List)
		return c.node(absKey{}, func(int) AV {
			items := []AV{}
			for e := x.Front(); e != nil; e = e.Next() {
				items = append(items, c.abs(reflect.ValueOf(e.Value)))
			}
			return AV{"k": "list", "items": items, "go": "list"}
		})
	}
	if v.Kind() != reflect.Interface && t.Implements(errorType) {
		if (v.Kind() == reflect.Ptr || v.Kind() == reflect.Map || v.Kind() == reflect.Slice) && v.IsNil() {
			return AV{"k": "nil"}
		}
		return AV{"k": "error", "s": hex.EncodeToString([]byte(v.Interface().(error).Error()))}
	}
	switch v.Kind() {
	case reflect.Bool:
		return AV{"k": "bool", "v": v.Bool()}
	case reflect.Int, reflect.Int8, reflect.Int16, reflect.Int32, reflect.Int64:
		return AV{"k": "int", "v": fmt.Sprintf("%d", v.Int())}
	case reflect.Uint, reflect.Uint8, reflect.Uint16, reflect.Uint32, reflect.Uint64, reflect.Uintptr:
		return withWrap(AV{"k": "int", "v": fmt.Sprintf("%d", v.Uint())}, new(big.Int).SetUint64(v.Uint()))
	case reflect.Float32:
		return realAV(v.Float(), 32)
	case reflect.Float64:
		return realAV(v.Float(), 64)
	case reflect.Complex64:
		x := v.Complex()
		if imag(x) != 0 {
			c.extra++ // written as a two-element list
		}
		return AV{"k": "complex", "w": 32, "re": realAV(real(x), 32), "im": realAV(imag(x), 32)}
	case reflect.Complex128:
		x := v.Complex()
		if imag(x) != 0 {
			c.extra++
		}
		return AV{"k": "complex", "w": 64, "re": realAV(real(x), 64), "im": realAV(imag(x), 64)}
	case reflect.String:
		return strAV(v.String())
	case reflect.Interface:
		if v.IsNil() {
			return AV{"k": "nil"}
		}
		if t.Implements(errorType) && t != reflect.TypeOf((*interface{})(nil)).Elem() {
			return AV{"k": "error", "s": hex.EncodeToString([]byte(v.Interface().(error).Error()))}
		}
		return c.abs(v.Elem())
	case reflect.Ptr:
		if v.IsNil() {
			return AV{"k": "nil"}
		}
		e := v.Elem()
		switch e.Kind() {
		case reflect.Struct, reflect.Array:
			if e.Type() == bigIntType || e.Type() == bigFloatType || e.Type() == bigRatType || e.Type() == timeType || e.Type() == uuidType {
				return c.abs(e)
			}
			if e.Type() == listType {
				return c.node(absKey{reflect.Ptr, v.Pointer(), 0, t}, func(int) AV {
					items := []AV{}
					l := v.Interface().(*list.List)
					for x := l.Front(); x != nil; x = x.Next() {
						items = append(items, c.abs(reflect.ValueOf(x.Value)))
					}
					return AV{"k": "list", "items": items, "go": "list"}
				})
			}
			// identity of the pointee is the pointer
			return c.container(e, absKey{reflect.Ptr, v.Pointer(), 0, t})
		case reflect.Slice, reflect.Map:
			return c.container(e, absKey{reflect.Ptr, v.Pointer(), 0, t})
		}
		if v.Type().Implements(errorType) {
			return AV{"k": "error", "s": hex.EncodeToString([]byte(v.Interface().(error).Error()))}
		}
		return c.abs(e)
	case reflect.Slice:
		if t == bytesType {
			if v.IsNil() {
				return AV{"k": "bytes", "s": "", "isnil": true}
			}
			return AV{"k": "bytes", "s": hex.EncodeToString(v.Bytes())}
		}
		key := absKey{}
		// (zero-size elements all live at one address: such slices have no identity)
		if !v.IsNil() && v.Len() > 0 && t.Elem().Size() > 0 {
			key = absKey{reflect.Slice, v.Pointer(), v.Len(), t}
		}
		return c.container(v, key)
	case reflect.Array:
		if t.Elem().Kind() == reflect.Uint8 {
			b := make([]byte, v.Len())
			for i := range b {
				b[i] = byte(v.Index(i).Uint())
			}
			return AV{"k": "bytes", "s": hex.EncodeToString(b)}
		}
		return c.container(v, absKey{})
	case reflect.Map:
		key := absKey{}
		if !v.IsNil() {
			key = absKey{reflect.Map, v.Pointer(), 0, t}
		}
		return c.container(v, key)
	case reflect.Struct:
		return c.container(v, absKey{})
	}
	return AV{"k": "unsupported", "v": t.String()}
}

func (c *absCtx) container(v reflect.Value, key absKey) AV {
	t := v.Type()
	switch v.Kind() {
	case reflect.Slice, reflect.Array:
		if t == bytesType || (v.Kind() == reflect.Array && t.Elem().Kind() == reflect.Uint8) {
			return c.abs(v)
		}
		return c.node(key, func(int) AV {
			items := []AV{}
			for i := 0; i < v.Len(); i++ {
				items = append(items, c.abs(v.Index(i)))
			}
			gk := "slice"
			if v.Kind() == reflect.Array {
				gk = "array"
			}
			return AV{"k": "list", "items": items, "go": gk, "isnil": v.Kind() == reflect.Slice && v.IsNil()}
		})
	case reflect.Map:
		return c.node(key, func(int) AV {
			type ent struct {
				k, v AV
				s    string
			}
			var es []ent
			it := v.MapRange()
			for it.Next() {
				k := c.abs(it.Key())
				es = append(es, ent{k, nil, fmt.Sprint(k)})
			}
			// values are projected in a deterministic key order
			sort.Slice(es, func(i, j int) bool { return es[i].s < es[j].s })
			ents := [][]AV{}
			it = v.MapRange()
			vals := map[string]reflect.Value{}
			for it.Next() {
				vals[fmt.Sprint(c.peek(it.Key()))] = it.Value()
			}
			for _, e := range es {
				ents = append(ents, []AV{e.k, c.abs(vals[e.s])})
			}
			return AV{"k": "map", "ents": ents, "isnil": v.IsNil()}
		})
	case reflect.Struct:
		if t == bigIntType || t == bigFloatType || t == bigRatType || t == timeType || t == uuidType || t == listType {
			return c.abs(v)
		}
		return c.node(key, func(int) AV {
			fields := [][]interface{}{}
			c.structFields(v, &fields)
			return AV{"k": "struct", "name": t.Name(), "hname": hex.EncodeToString([]byte(t.Name())), "fields": fields}
		})
	}
	return c.abs(v)
}

// peek projects a map key without allocating nodes (keys are scalars in every enumerated type)
func (c *absCtx) peek(v reflect.Value) AV {
	saved := len(c.nodes)
	a := c.abs(v)
	c.nodes = c.nodes[:saved]
	return a
}

func (c *absCtx) structFields(v reflect.Value, out *[][]interface{}) {
	t := v.Type()
	for i := 0; i < t.NumField(); i++ {
		f := t.Field(i)
		if f.Anonymous && f.Type.Kind() == reflect.Struct {
			// only structs embedded by value are flattened; an embedded pointer is an ordinary field
			c.structFields(v.Field(i), out)
			continue
		}
		if f.PkgPath != "" {
			continue
		}
		name, ok := FieldName(f)
		if !ok {
			continue
		}
		*out = append(*out, []interface{}{hex.EncodeToString([]byte(name)), c.abs(v.Field(i))})
	}
}
