// Package fmtx holds the harness's own view of the Hprose serialization format, written from the
// published grammar and independent of /repo/io: a one-pass byte lexer (bytes -> tokens), a renderer
// (tokens -> bytes, including spellings the library never emits) and the projection of Go values
// to abstract values. Tokens and abstract values are JSON-serialisable; scalars are atoms
// (canonical strings) that the TLA+ specification compares by equality only.
package fmtx

import (
	"encoding/hex"
	"fmt"
	"math"
	"math/big"
	"strconv"
	"unicode/utf8"
)

// Tok is one token. Field use by T:
//
//	int      V decimal (digit, i or l spelling in Sp)
//	real     Cls fin|nan|pinf|ninf, B64, B32 (hex bit patterns of the value parsed as float64 / float32), V text
//	true false null empty
//	char     S hex of the UTF-8 bytes, U16 number of UTF-16 units of that character
//	str      N declared length, U16 actual UTF-16 units between the quotes, S hex, Closed
//	bytes    N declared length, S hex, Closed
//	dt       Date yyyymmdd|"" Time hhmmss|"" Frac digits Utc
//	guid     V 32 hex digits lower-case, OK format
//	list map N count          (followed by N resp. 2N values and a close)
//	class    S hex of name, N declared name length, U16 actual, M field count (followed by M str tokens and a close)
//	obj      N class index    (followed by the field values and a close)
//	close
//	ref      N index
//	err                       (followed by a string value)
//	bad      V description: the bytes are not a token of the grammar
type Tok struct {
	T      string `json:"t"`
	Sp     string `json:"sp"`
	V      string `json:"v"`
	Cls    string `json:"cls"`
	B64    string `json:"b64"`
	B32    string `json:"b32"`
	S      string `json:"s"`
	N      int    `json:"n"`
	M      int    `json:"m"`
	U16    int    `json:"u16"`
	Closed bool   `json:"closed"`
	Date   string `json:"date"`
	Time   string `json:"time"`
	Frac   string `json:"frac"`
	Utc    bool   `json:"utc"`
	Pos    int    `json:"pos"`
}

// Lexer reads tokens from a byte slice.
type Lexer struct {
	b   []byte
	pos int
}

// NewLexer starts at offset 0.
func NewLexer(b []byte) *Lexer { return &Lexer{b: b} }

// Pos is the current offset.
func (l *Lexer) Pos() int { return l.pos }

func (l *Lexer) bad(start int, why string) Tok {
	l.pos = len(l.b)
	return Tok{T: "bad", V: why, Pos: start}
}

// until reads up to (not including) delim and consumes delim.
func (l *Lexer) until(delims string) (string, byte, bool) {
	start := l.pos
	for l.pos < len(l.b) {
		c := l.b[l.pos]
		for i := 0; i < len(delims); i++ {
			if c == delims[i] {
				s := string(l.b[start:l.pos])
				l.pos++
				return s, c, true
			}
		}
		l.pos++
	}
	return string(l.b[start:]), 0, false
}

func isDigits(s string) bool {
	if s == "" {
		return false
	}
	for i := 0; i < len(s); i++ {
		if s[i] < '0' || s[i] > '9' {
			return false
		}
	}
	return true
}

func canonInt(s string) (string, bool) {
	t := s
	if len(t) > 0 && (t[0] == '-' || t[0] == '+') {
		t = t[1:]
	}
	if !isDigits(t) {
		return "", false
	}
	n, ok := new(big.Int).SetString(s, 10)
	if !ok {
		return "", false
	}
	return n.String(), true
}

// count reads an optional non-negative decimal count terminated by delim ("" means 0).
func (l *Lexer) count(delim string) (int, bool) {
	s, _, ok := l.until(delim)
	if !ok {
		return 0, false
	}
	if s == "" {
		return 0, true
	}
	if !isDigits(s) || len(s) > 9 {
		return 0, false
	}
	n, _ := strconv.Atoi(s)
	return n, true
}

// utf16Units counts UTF-16 code units of valid UTF-8 text; ok=false on invalid UTF-8.
func utf16Units(b []byte) (int, bool) {
	n := 0
	for len(b) > 0 {
		r, size := utf8.DecodeRune(b)
		if r == utf8.RuneError && size <= 1 {
			return n, false
		}
		if r >= 0x10000 {
			n += 2
		} else {
			n++
		}
		b = b[size:]
	}
	return n, true
}

// quoted reads `"` + text of exactly n UTF-16 units + `"`.
func (l *Lexer) quoted(n int) (text []byte, u16 int, closed bool) {
	if l.pos >= len(l.b) || l.b[l.pos] != '"' {
		return nil, 0, false
	}
	l.pos++
	start := l.pos
	units := 0
	for units < n && l.pos < len(l.b) {
		r, size := utf8.DecodeRune(l.b[l.pos:])
		if r == utf8.RuneError && size <= 1 {
			return l.b[start:l.pos], units, false
		}
		if r >= 0x10000 {
			units += 2
		} else {
			units++
		}
		l.pos += size
	}
	text = l.b[start:l.pos]
	if units != n || l.pos >= len(l.b) || l.b[l.pos] != '"' {
		return text, units, false
	}
	l.pos++
	return text, units, true
}

// Next returns the next token; ok=false at the end of the input.
func (l *Lexer) Next() (Tok, bool) {
	if l.pos >= len(l.b) {
		return Tok{}, false
	}
	start := l.pos
	c := l.b[l.pos]
	l.pos++
	switch {
	case c >= '0' && c <= '9':
		return Tok{T: "int", Sp: "digit", V: string(c), Pos: start}, true
	}
	switch c {
	case 'i', 'l':
		s, _, ok := l.until(";")
		v, okc := canonInt(s)
		if !ok || !okc {
			return l.bad(start, "integer"), true
		}
		sp := "i"
		if c == 'l' {
			sp = "l"
		}
		return Tok{T: "int", Sp: sp, V: v, Pos: start}, true
	case 'd':
		s, _, ok := l.until(";")
		f, err := strconv.ParseFloat(s, 64)
		if !ok || err != nil && !(math.IsInf(f, 0)) {
			return l.bad(start, "double"), true
		}
		f32, _ := strconv.ParseFloat(s, 32)
		return Tok{T: "real", Cls: "fin", V: s, B64: fmt.Sprintf("%016x", math.Float64bits(f)),
			B32: fmt.Sprintf("%08x", math.Float32bits(float32(f32))), Pos: start}, true
	case 'N':
		return Tok{T: "real", Cls: "nan", Pos: start}, true
	case 'I':
		if l.pos < len(l.b) && (l.b[l.pos] == '+' || l.b[l.pos] == '-') {
			cls := "pinf"
			if l.b[l.pos] == '-' {
				cls = "ninf"
			}
			l.pos++
			return Tok{T: "real", Cls: cls, Pos: start}, true
		}
		return l.bad(start, "infinity sign"), true
	case 't':
		return Tok{T: "true", Pos: start}, true
	case 'f':
		return Tok{T: "false", Pos: start}, true
	case 'n':
		return Tok{T: "null", Pos: start}, true
	case 'e':
		return Tok{T: "empty", Pos: start}, true
	case 'u':
		if l.pos >= len(l.b) {
			return l.bad(start, "char truncated"), true
		}
		r, size := utf8.DecodeRune(l.b[l.pos:])
		if r == utf8.RuneError && size <= 1 {
			return l.bad(start, "char utf8"), true
		}
		s := l.b[l.pos : l.pos+size]
		l.pos += size
		u := 1
		if r >= 0x10000 {
			u = 2
		}
		return Tok{T: "char", S: hex.EncodeToString(s), U16: u, Pos: start}, true
	case 's':
		n, ok := l.count("\"")
		if !ok {
			return l.bad(start, "string length"), true
		}
		l.pos-- // count consumed the opening quote
		text, u16, closed := l.quoted(n)
		t := Tok{T: "str", N: n, U16: u16, S: hex.EncodeToString(text), Closed: closed, Pos: start}
		if !closed {
			l.pos = len(l.b)
		}
		return t, true
	case 'b':
		n, ok := l.count("\"")
		if !ok {
			return l.bad(start, "bytes length"), true
		}
		if l.pos+n+1 > len(l.b) || l.b[l.pos+n] != '"' {
			rest := l.b[l.pos:]
			l.pos = len(l.b)
			return Tok{T: "bytes", N: n, S: hex.EncodeToString(rest), Closed: false, Pos: start}, true
		}
		text := l.b[l.pos : l.pos+n]
		l.pos += n + 1
		return Tok{T: "bytes", N: n, S: hex.EncodeToString(text), Closed: true, Pos: start}, true
	case 'D', 'T':
		return l.datetime(start, c), true
	case 'g':
		if l.pos+38 > len(l.b) || l.b[l.pos] != '{' || l.b[l.pos+37] != '}' {
			return l.bad(start, "guid"), true
		}
		g := string(l.b[l.pos+1 : l.pos+37])
		l.pos += 38
		if len(g) != 36 || g[8] != '-' || g[13] != '-' || g[18] != '-' || g[23] != '-' {
			return l.bad(start, "guid format"), true
		}
		hx := g[0:8] + g[9:13] + g[14:18] + g[19:23] + g[24:]
		if _, err := hex.DecodeString(hx); err != nil {
			return l.bad(start, "guid hex"), true
		}
		low := []byte(hx)
		for i, ch := range low {
			if ch >= 'A' && ch <= 'F' {
				low[i] = ch + 32
			}
		}
		return Tok{T: "guid", V: string(low), Pos: start}, true
	case 'a', 'm':
		n, ok := l.count("{")
		if !ok {
			return l.bad(start, "count"), true
		}
		t := "list"
		if c == 'm' {
			t = "map"
		}
		return Tok{T: t, N: n, Pos: start}, true
	case 'c':
		n, ok := l.count("\"")
		if !ok {
			return l.bad(start, "class name length"), true
		}
		l.pos--
		text, u16, closed := l.quoted(n)
		if !closed {
			return l.bad(start, "class name"), true
		}
		m, ok := l.count("{")
		if !ok {
			return l.bad(start, "class field count"), true
		}
		return Tok{T: "class", N: n, U16: u16, S: hex.EncodeToString(text), M: m, Closed: true, Pos: start}, true
	case 'o':
		n, ok := l.count("{")
		if !ok {
			return l.bad(start, "class index"), true
		}
		return Tok{T: "obj", N: n, Pos: start}, true
	case '}':
		return Tok{T: "close", Pos: start}, true
	case 'r':
		n, ok := l.count(";")
		if !ok {
			return l.bad(start, "reference index"), true
		}
		return Tok{T: "ref", N: n, Pos: start}, true
	case 'E':
		return Tok{T: "err", Pos: start}, true
	case 'H':
		return Tok{T: "hdr", Pos: start}, true
	case 'C':
		return Tok{T: "call", Pos: start}, true
	case 'R':
		return Tok{T: "result", Pos: start}, true
	case 'z':
		return Tok{T: "end", Pos: start}, true
	}
	return l.bad(start, fmt.Sprintf("tag 0x%02x", c)), true
}

func (l *Lexer) datetime(start int, tag byte) Tok {
	t := Tok{T: "dt", Pos: start}
	readTime := func() bool {
		if l.pos+6 > len(l.b) || !isDigits(string(l.b[l.pos:l.pos+6])) {
			return false
		}
		t.Time = string(l.b[l.pos : l.pos+6])
		l.pos += 6
		if l.pos < len(l.b) && l.b[l.pos] == '.' {
			l.pos++
			s := l.pos
			for l.pos < len(l.b) && l.b[l.pos] >= '0' && l.b[l.pos] <= '9' {
				l.pos++
			}
			t.Frac = string(l.b[s:l.pos])
			if n := len(t.Frac); n != 3 && n != 6 && n != 9 {
				return false
			}
		}
		return true
	}
	if tag == 'D' {
		// yyyymmdd; a year may be negative or have more than four digits only by extension: not grammar
		if l.pos+8 > len(l.b) || !isDigits(string(l.b[l.pos:l.pos+8])) {
			return l.bad(start, "date digits")
		}
		t.Date = string(l.b[l.pos : l.pos+8])
		l.pos += 8
		if l.pos < len(l.b) && l.b[l.pos] == 'T' {
			l.pos++
			if !readTime() {
				return l.bad(start, "time digits")
			}
		}
	} else if !readTime() {
		return l.bad(start, "time digits")
	}
	if l.pos >= len(l.b) || (l.b[l.pos] != 'Z' && l.b[l.pos] != ';') {
		return l.bad(start, "date end")
	}
	t.Utc = l.b[l.pos] == 'Z'
	l.pos++
	return t
}

// Lex tokenises the whole input.
func Lex(b []byte) []Tok {
	l := NewLexer(b)
	var out []Tok
	for {
		t, ok := l.Next()
		if !ok {
			return out
		}
		out = append(out, t)
	}
}
