// Package gen enumerates the type x value space of the serializer with reflect: leaf kinds with
// their boundary values, and the type constructors (pointer, slice, array, map, struct field,
// interface) applied to them. No expectation is attached: the TLA+ specification judges.
package gen

import (
	"container/list"
	"errors"
	"fmt"
	"math"
	"math/big"
	"reflect"
	"strings"
	"time"

	"github.com/google/uuid"
	hio "github.com/hprose/hprose-golang/v3/io"
)

// Val is one value with the name of its class.
type Val struct {
	V     reflect.Value
	Class string
}

// Gen is a type with representative values.
type Gen struct {
	Name  string // type shape, e.g. "slice(ptr(int8))"
	T     reflect.Type
	Vals  []Val
	Depth int
	Leaf  string // name of the leaf kind at the bottom
}

func val(x interface{}, class string) Val { return Val{reflect.ValueOf(x), class} }

// Some of the named struct types are registered by name, so that an interface{} destination gets a
// pointer to the struct (the registered path); the others (Plain, Node, ...) stay unregistered and come
// back as maps.
func init() {
	hio.Register((*Tagged)(nil))
	hio.Register((*Derived)(nil))
	hio.Register((*Deep)(nil))
	hio.Register((*OneMap)(nil))
	hio.Register((*Ünï)(nil))
	hio.Register((*Widths)(nil))
	hio.Register((*Node2)(nil))
}

// named types for the named paths of the coders
type (
	MyInt    int
	MyInt8   int8
	MyUint16 uint16
	MyString string
	MyFloat  float64
	MyBool   bool
	MyBytes  []byte
	MySlice  []int
	MyMap    map[string]int
)

// Plain is a named struct with plain fields.
type Plain struct {
	A int
	B string
	C float64
}

// Tagged has aliases and a skipped field.
type Tagged struct {
	Name  string `hprose:"n"`
	Age   int    `json:"age"`
	Skip  int    `hprose:"-"`
	inner int
	Ptr   *int
}

// Base is embedded by Derived.
type Base struct {
	ID  int
	Tag string
}

// Derived embeds Base by value and Extra by pointer.
type Derived struct {
	Base
	*Extra
	Own bool
}

// Mid embeds Base between two fields of its own (the embedded struct does not start at offset 0).
type Mid struct {
	A int8
	Base
	B string
}

// Deep embeds Mid, again not at offset 0, next to a pointer and a slice.
type Deep struct {
	F float64
	P *int
	Mid
	L []string
}

// hidden is an unexported struct type; embedded, its exported fields are promoted.
type hidden struct {
	H int
	S string
}

// WithHidden embeds an unexported struct type between fields of its own, and has an unexported field.
type WithHidden struct {
	A int
	hidden
	skipped int
	B       string
}

// single-field structs: held by value in an interface, a struct whose only field is pointer-shaped (pointer,
// map, one-element array of a pointer, a struct of that kind) is stored in the interface word itself
type OnePtr struct{ P *int }
type OneMap struct{ M map[string]int }
type OneArr struct{ A [1]*int }
type OneOne struct{ O OneMap }
type OneSlice struct{ S []int }
type OneIface struct{ I interface{} }
type OneStr struct{ S string }

// Ünï has a non-ASCII name and non-ASCII, astral and multi-byte field names and aliases.
type Ünï struct {
	Ключ  int    `hprose:"ключ"`
	A名    string `hprose:"名前"`
	Smile bool   `hprose:"s\U0001F600e"`
	Ünï   *Ünï
}

// Extra is embedded by pointer.
type Extra struct {
	Note string
}

// Widths has one field and one pointer field per integer and float width (the handler tables).
type Widths struct {
	I8   int8
	I16  int16
	I32  int32
	I64  int64
	I    int
	U8   uint8
	U16  uint16
	U32  uint32
	U64  uint64
	U    uint
	F32  float32
	F64  float64
	B    bool
	S    string
	PI8  *int8
	PI16 *int16
	PI32 *int32
	PI64 *int64
	PI   *int
	PU8  *uint8
	PU16 *uint16
	PU32 *uint32
	PU64 *uint64
	PU   *uint
	PF32 *float32
	PF64 *float64
	PB   *bool
	PS   *string
}

// Specials has the library's special types as fields and pointer fields.
type Specials struct {
	T   time.Time
	PT  *time.Time
	U   uuid.UUID
	PU  *uuid.UUID
	BI  *big.Int
	BF  *big.Float
	BR  *big.Rat
	By  []byte
	C64 complex64
	C   complex128
	PC  *complex128
	Any interface{}
	L   *list.List
}

// Node is the recursive type of the graph space.
type Node struct {
	V    int
	Next *Node
	Kids []*Node
	M    map[string]*Node
	Any  interface{}
}

// Node2 reaches its neighbours through pointers to containers and through an array held by value.
type Node2 struct {
	V   int
	Arr *[2]*Node2
	PS  *[]*Node2
	PM  *map[string]*Node2
	Val [1]*Node2
}

func intVals(t reflect.Type) []Val {
	var out []Val
	add := func(i int64, class string) {
		v := reflect.New(t).Elem()
		if v.OverflowInt(i) {
			return
		}
		v.SetInt(i)
		out = append(out, Val{v, class})
	}
	add(0, "zero")
	add(1, "one")
	add(9, "nine")
	add(10, "ten")
	add(-1, "minus1")
	add(-10, "minus10")
	bits := t.Bits()
	add(-1<<(uint(bits)-1), "min")
	add(1<<(uint(bits)-1)-1, "max")
	add(math.MaxInt32, "maxint32")
	add(math.MaxInt32+1, "maxint32+1")
	add(math.MinInt32, "minint32")
	add(math.MinInt32-1, "minint32-1")
	add(127, "127")
	add(128, "128")
	add(255, "255")
	add(256, "256")
	add(65535, "65535")
	add(65536, "65536")
	add(99, "99")
	add(100, "100")
	add(999, "999")
	add(1000, "1000")
	return out
}

func uintVals(t reflect.Type) []Val {
	var out []Val
	add := func(i uint64, class string) {
		v := reflect.New(t).Elem()
		if v.OverflowUint(i) {
			return
		}
		v.SetUint(i)
		out = append(out, Val{v, class})
	}
	add(0, "zero")
	add(1, "one")
	add(9, "nine")
	add(10, "ten")
	bits := t.Bits()
	if bits == 64 {
		add(math.MaxUint64, "max")
		add(math.MaxInt64, "maxint64")
		add(math.MaxInt64+1, "maxint64+1")
	} else {
		add(1<<uint(bits)-1, "max")
	}
	add(math.MaxInt32, "maxint32")
	add(math.MaxInt32+1, "maxint32+1")
	add(math.MaxUint32, "maxuint32")
	add(127, "127")
	add(128, "128")
	add(255, "255")
	add(256, "256")
	add(65535, "65535")
	add(65536, "65536")
	add(100, "100")
	add(1000, "1000")
	return out
}

func floatVals(t reflect.Type) []Val {
	var out []Val
	add := func(f float64, class string) {
		v := reflect.New(t).Elem()
		v.SetFloat(f)
		out = append(out, Val{v, class})
	}
	add(0, "zero")
	add(math.Copysign(0, -1), "negzero")
	add(1, "one")
	add(1.5, "1.5")
	add(-2.25, "-2.25")
	add(0.1, "0.1")
	add(math.Inf(1), "pinf")
	add(math.Inf(-1), "ninf")
	add(math.NaN(), "nan")
	add(1e21, "1e21")
	add(1e-7, "1e-7")
	add(123456789, "int-valued")
	if t.Bits() == 32 {
		add(math.MaxFloat32, "max")
		add(math.SmallestNonzeroFloat32, "subnormal")
		add(16777217, "2^24+1")
	} else {
		add(math.MaxFloat64, "max")
		add(math.SmallestNonzeroFloat64, "subnormal")
		add(9007199254740993, "2^53+1")
		add(math.MaxInt64, "maxint64f")
	}
	return out
}

// Strings returns the string value classes.
func Strings() []Val {
	return []Val{
		val("", "empty"), val("a", "1ascii"), val("ab", "2ascii"), val("hello world", "ascii"),
		val("é", "1x2byte"), val("中", "1x3byte"), val("\U0001F600", "1xastral"),
		val("a\U0001F600b中é", "mixed"), val("\xed\xa0\x80", "surrogate-bytes"), val("\xff\xfe", "invalid"),
		val("ab\xffcd", "invalid-mid"), val(strings.Repeat("x中", 150), "long"), val("quote\"brace{}semi;", "delims"),
		val("\x00", "nul"), val("0", "digit"), val("12345", "digits"),
	}
}

func timeVals() []time.Time {
	fixed := time.FixedZone("X", 3*3600+1800)
	out := []time.Time{
		time.Date(2021, 1, 2, 3, 4, 5, 0, time.UTC),
		time.Date(2021, 1, 2, 0, 0, 0, 0, time.UTC),
		time.Date(1970, 1, 1, 12, 30, 45, 0, time.UTC),
		time.Date(1970, 1, 1, 0, 0, 0, 0, time.UTC),
		time.Date(2021, 12, 31, 23, 59, 59, 123000000, time.UTC),
		time.Date(2021, 12, 31, 23, 59, 59, 123456000, time.UTC),
		time.Date(2021, 12, 31, 23, 59, 59, 123456789, time.UTC),
		time.Date(2021, 6, 15, 10, 20, 30, 5000, time.Local),
		time.Date(2021, 6, 15, 0, 0, 0, 0, time.Local),
		time.Date(1, 1, 1, 0, 0, 0, 0, time.UTC),
		time.Date(9999, 12, 31, 23, 59, 59, 999999999, time.UTC),
		time.Date(2021, 6, 15, 10, 20, 30, 0, fixed),
		{},
	}
	// the wire forms crossed: {time only (1970-01-01), date and time} x {no fraction, ms, us, ns} x {UTC, local}
	for _, d := range [][3]int{{1970, 1, 1}, {2038, 1, 19}} {
		for _, ns := range []int{0, 120000000, 123450000, 123456780, 1} {
			for _, loc := range []*time.Location{time.UTC, time.Local} {
				out = append(out, time.Date(d[0], time.Month(d[1]), d[2], 3, 14, 7, ns, loc))
			}
		}
	}
	// the first second of a day with a fraction: neither the date-only nor (1970) the bare form
	for _, ns := range []int{500000000, 1} {
		out = append(out, time.Date(2021, 3, 4, 0, 0, 0, ns, time.UTC), time.Date(1970, 1, 1, 0, 0, 0, ns, time.UTC),
			time.Date(2021, 3, 4, 0, 0, 0, ns, time.Local), time.Date(2021, 3, 4, 0, 0, 59, ns, time.UTC))
	}
	return out
}

var timeClasses = []string{"utc-datetime", "utc-date", "utc-1970-time", "utc-1970-midnight", "ms", "us", "ns", "local-datetime", "local-date", "year1", "year9999", "fixedzone", "zero"}

func timeClass(i int) string {
	if i < len(timeClasses) {
		return timeClasses[i]
	}
	i -= len(timeClasses)
	if i >= 20 {
		return fmt.Sprintf("midnight+fraction%d", i-20)
	}
	return []string{"1970-time", "datetime"}[i/10] + []string{"", "+ms", "+us", "+ns", "+1ns"}[i%10/2] + []string{"-utc", "-local"}[i%2]
}

// ExtremeTimes are dates outside four-digit years.
func ExtremeTimes() []Val {
	return []Val{val(time.Date(10000, 1, 1, 0, 0, 0, 0, time.UTC), "year10000"), val(time.Date(-1, 1, 1, 0, 0, 0, 0, time.UTC), "year-1")}
}

func bigInts() []*big.Int {
	h, _ := new(big.Int).SetString("123456789012345678901234567890", 10)
	n, _ := new(big.Int).SetString("-98765432109876543210", 10)
	return []*big.Int{big.NewInt(0), big.NewInt(7), big.NewInt(-1), big.NewInt(math.MaxInt64), h, n}
}

// Leaves returns the leaf generators.
func Leaves() []Gen {
	var out []Gen
	add := func(name string, t reflect.Type, vals []Val) {
		out = append(out, Gen{Name: name, T: t, Vals: vals, Leaf: name})
	}
	add("bool", reflect.TypeOf(false), []Val{val(false, "false"), val(true, "true")})
	for _, t := range []reflect.Type{reflect.TypeOf(int(0)), reflect.TypeOf(int8(0)), reflect.TypeOf(int16(0)), reflect.TypeOf(int32(0)), reflect.TypeOf(int64(0))} {
		add(t.Name(), t, intVals(t))
	}
	for _, t := range []reflect.Type{reflect.TypeOf(uint(0)), reflect.TypeOf(uint8(0)), reflect.TypeOf(uint16(0)), reflect.TypeOf(uint32(0)), reflect.TypeOf(uint64(0)), reflect.TypeOf(uintptr(0))} {
		add(t.Name(), t, uintVals(t))
	}
	add("float32", reflect.TypeOf(float32(0)), floatVals(reflect.TypeOf(float32(0))))
	add("float64", reflect.TypeOf(float64(0)), floatVals(reflect.TypeOf(float64(0))))
	add("complex64", reflect.TypeOf(complex64(0)), []Val{val(complex64(0), "zero"), val(complex64(complex(1.5, 0)), "real-only"),
		val(complex64(complex(1.5, 2.5)), "imag"), val(complex64(complex(0, -1)), "imag-only"), val(complex64(complex(float32(math.Inf(1)), 0)), "re-inf")})
	add("complex128", reflect.TypeOf(complex128(0)), []Val{val(complex128(0), "zero"), val(complex(1.5, 0), "real-only"),
		val(complex(1.5, 2.5), "imag"), val(complex(0, -1), "imag-only"), val(complex(math.NaN(), 0), "re-nan"), val(complex(0.1, math.Copysign(0, -1)), "imag-negzero")})
	add("string", reflect.TypeOf(""), Strings())
	add("bytes", reflect.TypeOf([]byte(nil)), []Val{val([]byte(nil), "nil"), val([]byte{}, "empty"), val([]byte{0}, "zero-byte"),
		val([]byte("hello"), "ascii"), val([]byte("q\"}{;\xff\x00"), "delims"), val(make([]byte, 300), "long")})
	var bi, bf, br []Val
	for i, x := range bigInts() {
		bi = append(bi, val(x, fmt.Sprintf("bigint%d", i)))
	}
	add("*big.Int", reflect.TypeOf((*big.Int)(nil)), append(bi, val((*big.Int)(nil), "nil")))
	for i, f := range []float64{0, 1.5, -2.25, 1e100, 0.1} {
		bf = append(bf, val(big.NewFloat(f), fmt.Sprintf("bigfloat%d", i)))
	}
	pf, _, _ := big.ParseFloat("3.14159265358979323846264338327950288419716939937510582097494459", 10, 200, big.ToNearestEven)
	bf = append(bf, val(pf, "bigfloat-prec200"), val((*big.Float)(nil), "nil"),
		val(new(big.Float).SetInf(false), "bigfloat+inf"), val(new(big.Float).SetInf(true), "bigfloat-inf"))
	add("*big.Float", reflect.TypeOf((*big.Float)(nil)), bf)
	for i, r := range []*big.Rat{big.NewRat(0, 1), big.NewRat(1, 3), big.NewRat(4, 2), big.NewRat(-7, 5), new(big.Rat).SetFrac(bigInts()[4], big.NewInt(7))} {
		br = append(br, val(r, fmt.Sprintf("bigrat%d", i)))
	}
	add("*big.Rat", reflect.TypeOf((*big.Rat)(nil)), append(br, val((*big.Rat)(nil), "nil")))
	add("big.Int", reflect.TypeOf(big.Int{}), []Val{val(*big.NewInt(0), "zero"), val(*big.NewInt(77), "small"), val(*bigInts()[4], "huge")})
	add("big.Float", reflect.TypeOf(big.Float{}), []Val{val(*big.NewFloat(1.5), "1.5")})
	add("big.Rat", reflect.TypeOf(big.Rat{}), []Val{val(*big.NewRat(1, 3), "1/3"), val(*big.NewRat(4, 2), "integral")})
	var tv []Val
	for i, x := range timeVals() {
		tv = append(tv, val(x, timeClass(i)))
	}
	add("time.Time", reflect.TypeOf(time.Time{}), tv)
	u1 := uuid.MustParse("01234567-89ab-cdef-0123-456789abcdef")
	add("uuid.UUID", reflect.TypeOf(uuid.UUID{}), []Val{val(uuid.UUID{}, "zero"), val(u1, "mixed"), val(uuid.MustParse("ffffffff-ffff-ffff-ffff-ffffffffffff"), "ff")})
	l0 := list.New()
	l1 := list.New()
	l1.PushBack(1)
	l1.PushBack("x")
	l1.PushBack(nil)
	add("*list.List", reflect.TypeOf((*list.List)(nil)), []Val{val(l0, "empty"), val(l1, "mixed"), val((*list.List)(nil), "nil")})
	add("MyInt", reflect.TypeOf(MyInt(0)), []Val{val(MyInt(0), "zero"), val(MyInt(-12345), "neg"), val(MyInt(math.MaxInt32+1), "maxint32+1")})
	add("MyInt8", reflect.TypeOf(MyInt8(0)), []Val{val(MyInt8(-128), "min"), val(MyInt8(127), "max")})
	add("MyUint16", reflect.TypeOf(MyUint16(0)), []Val{val(MyUint16(65535), "max"), val(MyUint16(10), "ten")})
	add("MyString", reflect.TypeOf(MyString("")), []Val{val(MyString(""), "empty"), val(MyString("x"), "1ascii"), val(MyString("a\U0001F600"), "astral")})
	add("MyFloat", reflect.TypeOf(MyFloat(0)), []Val{val(MyFloat(1.5), "1.5"), val(MyFloat(math.NaN()), "nan")})
	add("MyBool", reflect.TypeOf(MyBool(false)), []Val{val(MyBool(true), "true"), val(MyBool(false), "false")})
	add("MyBytes", reflect.TypeOf(MyBytes(nil)), []Val{val(MyBytes("ab"), "ascii"), val(MyBytes(nil), "nil")})
	return out
}

// ---- constructors ----

// pick returns up to n values spread over g.Vals (always including the first and the last)
func pick(g Gen, n int) []Val {
	if len(g.Vals) <= n {
		return g.Vals
	}
	out := []Val{}
	for i := 0; i < n; i++ {
		out = append(out, g.Vals[i*(len(g.Vals)-1)/(n-1)])
	}
	return out
}

// Ptr builds *T with nil and pointers to each value.
func Ptr(g Gen) Gen {
	t := reflect.PtrTo(g.T)
	out := Gen{Name: "ptr(" + g.Name + ")", T: t, Depth: g.Depth + 1, Leaf: g.Leaf}
	out.Vals = append(out.Vals, Val{reflect.Zero(t), "nilptr"})
	for _, v := range g.Vals {
		p := reflect.New(g.T)
		p.Elem().Set(v.V)
		out.Vals = append(out.Vals, Val{p, "&" + v.Class})
	}
	return out
}

// Slice builds []T: nil, empty, singleton of each picked value, and one slice of all picked values with a repeat.
func Slice(g Gen) Gen {
	t := reflect.SliceOf(g.T)
	out := Gen{Name: "slice(" + g.Name + ")", T: t, Depth: g.Depth + 1, Leaf: g.Leaf}
	out.Vals = append(out.Vals, Val{reflect.Zero(t), "nil"}, Val{reflect.MakeSlice(t, 0, 0), "empty"})
	vs := pick(g, 6)
	for _, v := range vs {
		s := reflect.MakeSlice(t, 1, 1)
		s.Index(0).Set(v.V)
		out.Vals = append(out.Vals, Val{s, "[" + v.Class + "]"})
	}
	all := reflect.MakeSlice(t, 0, len(g.Vals)+1)
	for _, v := range g.Vals {
		all = reflect.Append(all, v.V)
	}
	if len(g.Vals) > 0 {
		all = reflect.Append(all, g.Vals[len(g.Vals)-1].V)
	}
	out.Vals = append(out.Vals, Val{all, "all+repeat"})
	// more elements than a decoder pre-allocates (4096), and not a power-of-two multiple of that
	if (g.Name == "int" || g.Name == "string" || g.Name == "float64") && len(g.Vals) > 0 {
		long := reflect.MakeSlice(t, 4100, 4100)
		for i := 0; i < 4100; i++ {
			long.Index(i).Set(g.Vals[i%len(g.Vals)].V)
		}
		out.Vals = append(out.Vals, Val{long, "n4100"})
	}
	return out
}

// Array builds [n]T.
func Array(g Gen, n int) Gen {
	t := reflect.ArrayOf(n, g.T)
	out := Gen{Name: fmt.Sprintf("array%d(%s)", n, g.Name), T: t, Depth: g.Depth + 1, Leaf: g.Leaf}
	out.Vals = append(out.Vals, Val{reflect.Zero(t), "zero"})
	if n > 0 {
		vs := pick(g, 4)
		a := reflect.New(t).Elem()
		for i := 0; i < n; i++ {
			a.Index(i).Set(vs[i%len(vs)].V)
		}
		out.Vals = append(out.Vals, Val{a, "filled"})
		b := reflect.New(t).Elem()
		for i := 0; i < n; i++ {
			b.Index(i).Set(vs[(i+len(vs)-1)%len(vs)].V)
		}
		out.Vals = append(out.Vals, Val{b, "filled2"})
	}
	return out
}

// KeyOK reports whether values of g can be map keys the serializer is expected to support.
func KeyOK(g Gen) bool {
	if !g.T.Comparable() {
		return false
	}
	switch g.T.Kind() {
	case reflect.Bool, reflect.Int, reflect.Int8, reflect.Int16, reflect.Int32, reflect.Int64, reflect.Uint, reflect.Uint8,
		reflect.Uint16, reflect.Uint32, reflect.Uint64, reflect.Uintptr, reflect.Float32, reflect.Float64, reflect.String, reflect.Interface:
		return true
	}
	return false
}

// Map builds map[K]V: nil, empty, one entry, several entries.
func Map(k, v Gen) Gen {
	t := reflect.MapOf(k.T, v.T)
	out := Gen{Name: "map(" + k.Name + "," + v.Name + ")", T: t, Depth: maxInt(k.Depth, v.Depth) + 1, Leaf: k.Leaf + "/" + v.Leaf}
	out.Vals = append(out.Vals, Val{reflect.Zero(t), "nil"}, Val{reflect.MakeMap(t), "empty"})
	ks, vs := pick(k, 5), pick(v, 5)
	m1 := reflect.MakeMap(t)
	m1.SetMapIndex(ks[0].V, vs[len(vs)-1].V)
	out.Vals = append(out.Vals, Val{m1, "one"})
	m := reflect.MakeMap(t)
	for i, kv := range ks {
		if kv.V.Kind() == reflect.Float32 || kv.V.Kind() == reflect.Float64 {
			if math.IsNaN(kv.V.Float()) {
				continue // NaN keys cannot be looked up again
			}
		}
		m.SetMapIndex(kv.V, vs[i%len(vs)].V)
	}
	out.Vals = append(out.Vals, Val{m, "several"})
	return out
}

func maxInt(a, b int) int {
	if a > b {
		return a
	}
	return b
}

// Iface builds interface{} holding each value (and nil).
func Iface(g Gen) Gen {
	t := reflect.TypeOf((*interface{})(nil)).Elem()
	out := Gen{Name: "iface(" + g.Name + ")", T: t, Depth: g.Depth + 1, Leaf: g.Leaf}
	out.Vals = append(out.Vals, Val{reflect.Zero(t), "nil"})
	for _, v := range g.Vals {
		x := reflect.New(t).Elem()
		x.Set(v.V)
		out.Vals = append(out.Vals, Val{x, "=" + v.Class})
	}
	return out
}

// AnonStruct builds struct{ F T; P *T; Q *T } (anonymous): P and Q share the pointee in one value.
func AnonStruct(g Gen) Gen {
	t := reflect.StructOf([]reflect.StructField{
		{Name: "F", Type: g.T}, {Name: "P", Type: reflect.PtrTo(g.T)}, {Name: "Q", Type: reflect.PtrTo(g.T)},
	})
	out := Gen{Name: "anon{F,P,Q " + g.Name + "}", T: t, Depth: g.Depth + 1, Leaf: g.Leaf}
	out.Vals = append(out.Vals, Val{reflect.Zero(t), "zero"})
	for _, v := range pick(g, 6) {
		s := reflect.New(t).Elem()
		s.Field(0).Set(v.V)
		p := reflect.New(g.T)
		p.Elem().Set(v.V)
		s.Field(1).Set(p)
		s.Field(2).Set(p)
		out.Vals = append(out.Vals, Val{s, "{" + v.Class + ",shared}"})
	}
	return out
}

// Fixed returns generators over the hand-declared named struct types.
func Fixed() []Gen {
	one, s := 1, "x"
	i8, i16, i32, i64, i := int8(-8), int16(-16), int32(-32), int64(-64), -1
	u8, u16, u32, u64, u := uint8(200), uint16(60000), uint32(4000000000), uint64(math.MaxUint64), uint(77)
	f32, f64, b := float32(1.5), 2.5, true
	tm := time.Date(2021, 1, 2, 3, 4, 5, 6000, time.UTC)
	uu := uuid.MustParse("01234567-89ab-cdef-0123-456789abcdef")
	c := complex(1.5, 2.5)
	l := list.New()
	l.PushBack(1)
	out := []Gen{
		{Name: "Plain", T: reflect.TypeOf(Plain{}), Vals: []Val{val(Plain{}, "zero"), val(Plain{1, "x", 1.5}, "filled")}, Leaf: "struct"},
		{Name: "Tagged", T: reflect.TypeOf(Tagged{}), Vals: []Val{val(Tagged{}, "zero"), val(Tagged{"n", 3, 0, 0, &one}, "filled")}, Leaf: "struct"},
		{Name: "Derived", T: reflect.TypeOf(Derived{}), Vals: []Val{val(Derived{}, "zero"), val(Derived{Base{1, "t"}, &Extra{"note"}, true}, "filled")}, Leaf: "struct"},
		{Name: "Mid", T: reflect.TypeOf(Mid{}), Vals: []Val{val(Mid{}, "zero"), val(Mid{-3, Base{7, "tag"}, "b"}, "filled")}, Leaf: "struct"},
		{Name: "Deep", T: reflect.TypeOf(Deep{}), Vals: []Val{val(Deep{}, "zero"), val(Deep{1.5, &one, Mid{4, Base{9, "deep"}, "bb"}, []string{"l", "l"}}, "filled")}, Leaf: "struct"},
		{Name: "Widths", T: reflect.TypeOf(Widths{}), Vals: []Val{val(Widths{}, "zero"),
			val(Widths{-8, -16, -32, -64, -1, 200, 60000, 4000000000, math.MaxUint64, 77, 1.5, 2.5, true, "x",
				&i8, &i16, &i32, &i64, &i, &u8, &u16, &u32, &u64, &u, &f32, &f64, &b, &s}, "filled")}, Leaf: "struct"},
		{Name: "Specials", T: reflect.TypeOf(Specials{}), Vals: []Val{val(Specials{}, "zero"),
			val(Specials{tm, &tm, uu, &uu, big.NewInt(5), big.NewFloat(1.5), big.NewRat(1, 3), []byte("ab"), complex64(complex(1, 0)), complex(1.5, 0), &c, "any", l}, "filled")}, Leaf: "struct"},
	}
	seven := 7
	st := func(name string, zero interface{}, filled ...interface{}) {
		g := Gen{Name: name, T: reflect.TypeOf(zero), Vals: []Val{val(zero, "zero")}, Leaf: "struct"}
		for i, f := range filled {
			g.Vals = append(g.Vals, val(f, fmt.Sprintf("filled%d", i)))
		}
		out = append(out, g)
	}
	st("WithHidden", WithHidden{}, WithHidden{1, hidden{2, "hs"}, 3, "b"})
	st("OnePtr", OnePtr{}, OnePtr{&seven})
	st("OneMap", OneMap{}, OneMap{map[string]int{}}, OneMap{map[string]int{"k": 1, "l": 2}})
	st("OneArr", OneArr{}, OneArr{[1]*int{&seven}})
	st("OneOne", OneOne{}, OneOne{OneMap{map[string]int{"k": 1}}})
	st("OneSlice", OneSlice{}, OneSlice{[]int{}}, OneSlice{[]int{1, 2}})
	st("OneIface", OneIface{}, OneIface{"x"}, OneIface{&seven}, OneIface{OneMap{map[string]int{"k": 1}}})
	st("OneStr", OneStr{}, OneStr{"x"})
	uni := &Ünï{Ключ: 1, A名: "値", Smile: true}
	st("Ünï", Ünï{}, Ünï{Ключ: 2, A名: "\U0001F600", Smile: false, Ünï: uni})
	for i := range out {
		out[i].Depth = 1
	}
	out = append(out, Gen{Name: "error", T: reflect.TypeOf((*error)(nil)).Elem(), Vals: []Val{val(errors.New("boom"), "errors.New")}, Leaf: "error", Depth: 0})
	// interface{} positions holding what the decoder's default settings give back for the tag: a pointer to a
	// registered struct, []interface{}, map[interface{}]interface{}, int, float64 - at the top, in a list, in
	// a map, in a field
	ifaceT := reflect.TypeOf((*interface{})(nil)).Elem()
	iv := func(x interface{}, class string) Val {
		v := reflect.New(ifaceT).Elem()
		v.Set(reflect.ValueOf(x))
		return Val{v, class}
	}
	// (every value is built afresh: a slice or map that occurred twice by value would be one node for the
	// projection and two items on the wire)
	tg := func() *Tagged { o := 1; return &Tagged{Name: "n", Age: 3, Ptr: &o} }
	zoo := func() []interface{} {
		return []interface{}{tg(), []interface{}{1, 2.5, "s"}, map[interface{}]interface{}{"k": 1, 2: "v"}, 7, 1.5, &OneMap{map[string]int{"k": 1}}}
	}
	out = append(out, Gen{Name: "ifacezoo", T: ifaceT, Leaf: "iface", Depth: 2, Vals: []Val{
		iv(tg(), "ptr-to-registered"), iv([]interface{}{1, "a"}, "list"), iv(map[interface{}]interface{}{"k": 1}, "iimap"),
		iv(zoo(), "list-of-all"), iv(map[interface{}]interface{}{"all": zoo(), "one": tg()}, "map-of-all"),
		iv(&OneIface{zoo()}, "field-of-all")}})
	return out
}
