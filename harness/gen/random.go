package gen

import (
	"fmt"
	"math"
	"reflect"

	"verif/harness/tr"
)

// Random composition: a seeded random type term over the leaves and the constructors (pointer,
// slice, array, map, interface{}, anonymous struct) to a given depth, with one random value of it.
// Values share pointers, slices and maps now and then, so that reference mode has something to refer
// to. The enumerated space (fmtSpace) covers every constructor over every leaf once; this covers the
// compositions it cannot enumerate.

var ifaceType = reflect.TypeOf((*interface{})(nil)).Elem()

type randCtx struct {
	r       *tr.Rng
	leaves  []Gen
	keys    []Gen
	fixed   []Gen
	pool    map[reflect.Type][]reflect.Value // pointers, slices and maps built so far, by type
	ptrOnly bool                             // share pointers only (slices and maps held by value have no identity on the wire)
	byType  map[reflect.Type]Gen
}

var randLeaves, randFixed []Gen

func newRandCtx(r *tr.Rng) *randCtx {
	if randLeaves == nil {
		randLeaves, randFixed = Leaves(), Fixed()
	}
	c := &randCtx{r: r, leaves: randLeaves, pool: map[reflect.Type][]reflect.Value{}, byType: map[reflect.Type]Gen{}}
	for _, l := range c.leaves {
		c.byType[l.T] = l
		if KeyOK(l) {
			c.keys = append(c.keys, l)
		}
	}
	for _, f := range randFixed {
		if f.Name == "error" || f.T.Kind() == reflect.Interface {
			continue // (interface{} positions get a random dynamic value of their own, not a canned one)
		}
		c.fixed = append(c.fixed, f)
		c.byType[f.T] = f
	}
	return c
}

func (c *randCtx) typ(depth int) (reflect.Type, string) {
	k := c.r.Intn(100)
	if depth <= 0 || k < 22 {
		if c.r.Intn(8) == 0 && len(c.fixed) > 0 {
			f := c.fixed[c.r.Intn(len(c.fixed))]
			return f.T, f.Name
		}
		l := c.leaves[c.r.Intn(len(c.leaves))]
		return l.T, l.Name
	}
	switch {
	case k < 36:
		t, n := c.typ(depth - 1)
		return reflect.PtrTo(t), "ptr(" + n + ")"
	case k < 52:
		t, n := c.typ(depth - 1)
		return reflect.SliceOf(t), "slice(" + n + ")"
	case k < 60:
		t, n := c.typ(depth - 1)
		m := c.r.Intn(4)
		return reflect.ArrayOf(m, t), fmt.Sprintf("array%d(%s)", m, n)
	case k < 76:
		kg := c.keys[c.r.Intn(len(c.keys))]
		t, n := c.typ(depth - 1)
		return reflect.MapOf(kg.T, t), "map(" + kg.Name + "," + n + ")"
	case k < 84:
		return ifaceType, "iface"
	default:
		nf := 1 + c.r.Intn(3)
		fs := make([]reflect.StructField, nf)
		name := "anon{"
		for i := range fs {
			t, n := c.typ(depth - 1)
			fs[i] = reflect.StructField{Name: fmt.Sprintf("F%d", i), Type: t}
			if i > 0 {
				name += ","
			}
			name += n
		}
		return reflect.StructOf(fs), name + "}"
	}
}

func (c *randCtx) share(t reflect.Type) (reflect.Value, bool) {
	if c.ptrOnly && (t.Kind() != reflect.Ptr || t.Elem().Kind() == reflect.Interface) {
		// (a *interface{} is transparent to the reference table: what it shares is what the interface{} holds -
		// a map or slice held by value there is shared by value)
		return reflect.Value{}, false
	}
	if p := c.pool[t]; len(p) > 0 && c.r.Intn(4) == 0 {
		return p[c.r.Intn(len(p))], true
	}
	return reflect.Value{}, false
}

func (c *randCtx) value(t reflect.Type, depth int) reflect.Value {
	if g, ok := c.byType[t]; ok {
		return g.Vals[c.r.Intn(len(g.Vals))].V
	}
	switch t.Kind() {
	case reflect.Ptr:
		if c.r.Intn(6) == 0 {
			return reflect.Zero(t)
		}
		if v, ok := c.share(t); ok {
			return v
		}
		p := reflect.New(t.Elem())
		p.Elem().Set(c.value(t.Elem(), depth-1))
		c.pool[t] = append(c.pool[t], p)
		return p
	case reflect.Slice:
		switch c.r.Intn(8) {
		case 0:
			return reflect.Zero(t)
		case 1:
			return reflect.MakeSlice(t, 0, 0)
		}
		if v, ok := c.share(t); ok {
			return v
		}
		n := 1 + c.r.Intn(4)
		s := reflect.MakeSlice(t, n, n)
		for i := 0; i < n; i++ {
			s.Index(i).Set(c.value(t.Elem(), depth-1))
		}
		c.pool[t] = append(c.pool[t], s)
		return s
	case reflect.Array:
		a := reflect.New(t).Elem()
		for i := 0; i < t.Len(); i++ {
			a.Index(i).Set(c.value(t.Elem(), depth-1))
		}
		return a
	case reflect.Map:
		switch c.r.Intn(8) {
		case 0:
			return reflect.Zero(t)
		case 1:
			return reflect.MakeMap(t)
		}
		if v, ok := c.share(t); ok {
			return v
		}
		m := reflect.MakeMap(t)
		n := 1 + c.r.Intn(4)
		for i := 0; i < n; i++ {
			k := c.value(t.Key(), 0)
			if (k.Kind() == reflect.Float32 || k.Kind() == reflect.Float64) && math.IsNaN(k.Float()) {
				continue // NaN keys cannot be looked up again
			}
			m.SetMapIndex(k, c.value(t.Elem(), depth-1))
		}
		c.pool[t] = append(c.pool[t], m)
		return m
	case reflect.Interface:
		if c.r.Intn(6) == 0 {
			return reflect.Zero(t)
		}
		it, _ := c.typ(depth - 1)
		for it.Kind() == reflect.Interface {
			it, _ = c.typ(0)
		}
		x := reflect.New(t).Elem()
		v := c.value(it, depth-1)
		if !v.IsValid() {
			return reflect.Zero(t)
		}
		x.Set(v)
		return x
	case reflect.Struct:
		s := reflect.New(t).Elem()
		for i := 0; i < t.NumField(); i++ {
			s.Field(i).Set(c.value(t.Field(i).Type, depth-1))
		}
		return s
	}
	return reflect.Zero(t)
}

// Random returns the case of the given seed: a type shape of at most the given depth with one value.
func Random(seed int64, depth int) Gen { return RandomOpt(seed, depth, false) }

// RandomOpt: with ptrOnly, sub-objects are shared through pointers only.
func RandomOpt(seed int64, depth int, ptrOnly bool) Gen {
	c := newRandCtx(tr.NewRng(seed))
	c.ptrOnly = ptrOnly
	t, name := c.typ(depth)
	g := Gen{Name: "random:" + name, T: t, Depth: depth, Leaf: "random"}
	g.Vals = []Val{{c.value(t, depth), fmt.Sprintf("seed:%d", seed)}}
	return g
}
