// Package tr writes ndjson traces for TLC trace validation and holds the small helpers every
// driver shares (seeded rng, case counting).
package tr

import (
	"bufio"
	"bytes"
	"encoding/json"
	"os"
	"sync"
)

// Rec is one trace record.
type Rec map[string]interface{}

// Writer appends records to an ndjson file; safe for concurrent use; every record receives a
// sequence number under the writer's mutex.
type Writer struct {
	mu    sync.Mutex
	f     *os.File
	w     *bufio.Writer
	seq   int
	Cases int
	Lines int
}

// New creates the file.
func New(path string) *Writer {
	f, err := os.Create(path)
	if err != nil {
		panic(err)
	}
	return &Writer{f: f, w: bufio.NewWriterSize(f, 1<<20)}
}

// Reset opens a new case. cfg is merged into the record.
func (t *Writer) Reset(caseID int, cfg Rec) {
	r := Rec{"ev": "reset", "case": caseID}
	for k, v := range cfg {
		r[k] = v
	}
	t.mu.Lock()
	t.Cases++
	t.mu.Unlock()
	t.Emit(r)
}

// Emit writes one record.
func (t *Writer) Emit(r Rec) {
	t.mu.Lock()
	defer t.mu.Unlock()
	t.seq++
	r["seq"] = t.seq
	b, err := json.Marshal(r)
	if err != nil {
		panic(err)
	}
	if bytes.Contains(b, []byte("null")) {
		// the TLA+ Json module cannot read null: replace every JSON null by the string "null"
		var v interface{}
		if json.Unmarshal(b, &v) == nil {
			b, _ = json.Marshal(denull(v))
		}
	}
	t.w.Write(b)
	t.w.WriteByte('\n')
	t.Lines++
}

// Close flushes.
func (t *Writer) Close() {
	t.mu.Lock()
	defer t.mu.Unlock()
	t.w.Flush()
	t.f.Close()
}

// Rng is a small deterministic generator (splitmix64) so that runs depend on VERIF_SEED only.
type Rng struct{ s uint64 }

// NewRng seeds.
// The seed goes through the output function first: with the state starting at a multiple of the increment the
// streams of consecutive seeds would be one another shifted by one.
func NewRng(seed int64) *Rng {
	z := uint64(seed) + 0x1234567
	z = (z ^ (z >> 30)) * 0xBF58476D1CE4E5B9
	z = (z ^ (z >> 27)) * 0x94D049BB133111EB
	return &Rng{z ^ (z >> 31)}
}

// U64 next.
func (r *Rng) U64() uint64 {
	r.s += 0x9E3779B97F4A7C15
	z := r.s
	z = (z ^ (z >> 30)) * 0xBF58476D1CE4E5B9
	z = (z ^ (z >> 27)) * 0x94D049BB133111EB
	return z ^ (z >> 31)
}

// Intn in [0,n).
func (r *Rng) Intn(n int) int {
	if n <= 0 {
		return 0
	}
	return int(r.U64() % uint64(n))
}

// Summary is printed by every driver on stdout as its last line (JSON) for the python side.
type Summary struct {
	Cases       int           `json:"cases"`
	Events      int           `json:"events"`
	Nontrivial  int           `json:"nontrivial"`
	Samples     []interface{} `json:"samples"`
	Extra       Rec           `json:"extra,omitempty"`
	Direct      []Rec         `json:"direct,omitempty"` // violations observed directly by the driver (crash, hang)
	Divergences int           `json:"divergences"`
}

func denull(v interface{}) interface{} {
	switch x := v.(type) {
	case nil:
		return "null"
	case map[string]interface{}:
		for k, e := range x {
			x[k] = denull(e)
		}
		return x
	case []interface{}:
		for i, e := range x {
			x[i] = denull(e)
		}
		return x
	}
	return v
}
