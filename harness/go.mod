module verif/harness

go 1.13

require (
	github.com/fasthttp/websocket v1.5.0
	github.com/google/uuid v1.3.0
	github.com/hprose/hprose-golang/v3 v3.0.0
	github.com/valyala/fasthttp v1.37.0
)

replace github.com/hprose/hprose-golang/v3 => /repo
