package main

import (
	"encoding/json"
	"fmt"
	"io"
	"reflect"
	"strings"

	hio "github.com/hprose/hprose-golang/v3/io"

	"verif/harness/fmtx"
	"verif/harness/gen"
	"verif/harness/tr"
)

// C05: streaming decode equals in-memory decode. Streams are the real encoder's outputs for the
// C01 space (and their truncations); each is decoded from a contiguous slice and from a reader
// that fragments it (every two-way split, every fixed chunk size, seeded chunk sequences with
// zero-length reads). Both outcomes - value, error, bytes left - are recorded; HproseFormat!C05Why
// (TLA+) compares them.

func init() { drivers["c05"] = runC05 }

type chunkReader struct {
	b     []byte
	plan  []int // chunk sizes; 0 = a read that returns no bytes; -1 = the rest together with io.EOF (as io.Reader allows); after the plan: the rest in one piece
	pos   int
	step  int
	reads int
}

func (r *chunkReader) Read(p []byte) (int, error) {
	r.reads++
	if r.pos >= len(r.b) {
		return 0, io.EOF
	}
	n := len(r.b) - r.pos
	withEOF := false
	if r.step < len(r.plan) {
		n = r.plan[r.step]
		if n < 0 {
			// stays at this step until everything has been delivered (the caller's buffer may be small)
			n, withEOF = len(r.b)-r.pos, true
		} else {
			r.step++
		}
		if n > len(r.b)-r.pos {
			n = len(r.b) - r.pos
		}
	}
	if n > len(p) {
		n = len(p)
	}
	copy(p, r.b[r.pos:r.pos+n])
	r.pos += n
	if withEOF && r.pos == len(r.b) {
		return n, io.EOF
	}
	return n, nil
}

type c05Case struct {
	Shape string `json:"shape"`
	Class string `json:"class"`
	Index int    `json:"index"`
	Mode  string `json:"mode"`
	Cut   int    `json:"cut"`  // stream truncated to this many bytes (-1: whole)
	Dest  string `json:"dest"` // typed | iface
	Plan  []int  `json:"plan"`
}

type c05Out struct {
	Err   string     `json:"err"`
	Panic string     `json:"panic"`
	Out   fmtx.Graph `json:"out"`
	Rest  int        `json:"rest"`
	Fault string     `json:"fault"`
}

func c05Decode(dec *hio.Decoder, t reflect.Type) (o c05Out) {
	o.Err, o.Panic, o.Fault = "none", "none", "none"
	o.Out = fmtx.Graph{Nodes: []fmtx.AV{}, Root: fmtx.AV{"k": "nil"}}
	out := reflect.New(t)
	func() {
		defer func() {
			if p := recover(); p != nil {
				o.Panic = fmt.Sprint(p)
			}
		}()
		dec.Decode(out.Interface())
		if dec.Error != nil {
			o.Err = dec.Error.Error()
		}
		if dec.Error == nil {
			o.Rest = len(dec.Remains())
			dec.Error = nil
		}
	}()
	if o.Panic == "none" && o.Err == "none" {
		o.Out, o.Fault = safeAbs(out.Elem())
	}
	return
}

// c05Graph builds a graph of one of the C02 families
func c05Graph(gc c02Case) (gen.Gen, interface{}) {
	if gc.Fam == "B" || gc.Fam == "C" {
		return gen.Gen{Name: "graph:*Node2", T: reflect.TypeOf((*gen.Node2)(nil)), Leaf: "graph"}, c02Build2(gc.N, gc.Edges)
	}
	return gen.Gen{Name: "graph:*Node", T: reflect.TypeOf((*gen.Node)(nil)), Leaf: "graph"}, c02Build(gc.N, gc.Edges)
}

func runC05(a Args) tr.Summary {
	t := tr.New(a.Out)
	defer t.Close()
	var sum tr.Summary
	gs := fmtSpace("quick")
	ifaceT := reflect.TypeOf((*interface{})(nil)).Elem()
	id := 0
	frags := map[string]bool{}
	one := func(c c05Case, g gen.Gen, b []byte) {
		id++
		Watch(id, tr.Rec{"shape": c.Shape}, c)
		simple := c.Mode == "simple"
		dt := g.T
		if c.Dest == "iface" {
			dt = ifaceT
		}
		ra := c05Decode(hio.NewDecoder(b).Simple(simple), dt)
		rb := c05Decode(hio.NewDecoderFromReader(&chunkReader{b: b, plan: c.Plan}).Simple(simple), dt)
		rec := tr.Rec{"ev": "one", "case": id, "kind": "stream", "shape": c.Shape, "class": c.Class, "mode": c.Mode, "leaf": g.Leaf,
			"a": ra, "b": rb, "input": c, "len": len(b)}
		if len(b) <= 120 {
			rec["bytes"] = string(b)
		}
		t.Emit(rec)
		frags[fmt.Sprint(c.Plan, len(b))] = true
	}
	if a.Only != "" {
		var c c05Case
		if err := json.Unmarshal([]byte(a.Only), &c); err != nil {
			panic(err)
		}
		if strings.HasPrefix(c.Shape, "graph") {
			var gc c02Case
			if err := json.Unmarshal([]byte(c.Class), &gc); err != nil {
				panic(err)
			}
			g, v := c05Graph(gc)
			b, _, _ := safeMarshal(v, false)
			if c.Cut >= 0 && c.Cut < len(b) {
				b = b[:c.Cut]
			}
			one(c, g, b)
		}
		for _, g := range gs {
			if g.Name == c.Shape && c.Index < len(g.Vals) {
				b, _, _ := safeMarshal(g.Vals[c.Index].V.Interface(), c.Mode == "simple")
				if c.Cut >= 0 && c.Cut < len(b) {
					b = b[:c.Cut]
				}
				one(c, g, b)
			}
		}
		sum.Cases, sum.Events = t.Lines, t.Lines
		return sum
	}
	rng := tr.NewRng(a.Seed)
	// shared and cyclic pointer graphs in reference mode (the C02 families): a back-reference cut by a read
	// boundary must be resolved like one that is not. Every two-way split and the small fixed chunks.
	graphN, graphE := 2, 2
	if a.Tier == "thorough" {
		graphN, graphE = 2, 3
	}
	ngraphs := 0
	for _, fam := range []string{"", "B", "C"} {
		for n := 1; n <= graphN; n++ {
			for _, edges := range c02Graphs(n, graphE, fam) {
				if len(edges) < n { // a tree: nothing is referred back to
					continue
				}
				gc := c02Case{Kind: "graph", N: n, Edges: edges, Dest: "typed", Mode: "ref", Fam: fam}
				g, v := c05Graph(gc)
				b, e1, e2 := safeMarshal(v, false)
				if e1 != "" || e2 != "" || len(b) > 200 {
					continue
				}
				ngraphs++
				cls, _ := json.Marshal(gc)
				base := c05Case{Shape: g.Name, Class: string(cls), Mode: "ref", Cut: -1, Dest: "typed"}
				for k := 1; k < len(b); k++ {
					c := base
					c.Plan = []int{k}
					one(c, g, b)
					c.Dest = "iface"
					one(c, g, b)
				}
				for k := 1; k <= 3; k++ {
					p := []int{}
					for x := 0; x < len(b); x += k {
						p = append(p, k)
					}
					c := base
					c.Plan = p
					one(c, g, b)
				}
			}
		}
	}
	maxStreams, maxLen := 700, 90
	if a.Tier == "thorough" {
		maxStreams, maxLen = 6000, 400
	}
	seenStream := map[string]bool{}
	streams := 0
	// a seeded walk over the space so that quick covers all kinds of shapes
	order := make([]int, len(gs))
	for i := range order {
		order[i] = i
	}
	for i := len(order) - 1; i > 0; i-- {
		j := rng.Intn(i + 1)
		order[i], order[j] = order[j], order[i]
	}
	// streams with class definitions first (a quota of them: names and field names are where views of the
	// read buffer are kept across reads), then the walk over everything
	isStruct := func(g gen.Gen) bool {
		return strings.Contains(g.Name, "Tagged") || strings.Contains(g.Name, "Derived") || strings.Contains(g.Name, "Plain") ||
			strings.Contains(g.Name, "Base") || strings.Contains(g.Name, "Extra") || strings.Contains(g.Name, "Node") || strings.Contains(g.Name, "anon{")
	}
	var first, rest []int
	for _, gi := range order {
		if isStruct(gs[gi]) {
			first = append(first, gi)
		} else {
			rest = append(rest, gi)
		}
	}
	structQuota := maxStreams / 4
	for pass, list := range [][]int{first, rest} {
		for _, gi := range list {
			g := gs[gi]
			for vi, v := range g.Vals {
				for _, mode := range []string{"simple", "ref"} {
					if streams >= maxStreams || pass == 0 && streams >= structQuota {
						continue
					}
					lim := maxLen
					if pass == 0 {
						lim = maxLen * 3 / 2
					}
					b, e1, e2 := safeMarshal(v.V.Interface(), mode == "simple")
					if e1 != "" || e2 != "" || len(b) == 0 || len(b) > lim || seenStream[mode+string(b)] {
						continue
					}
					seenStream[mode+string(b)] = true
					streams++
					base := c05Case{Shape: g.Name, Class: v.Class, Index: vi, Mode: mode, Cut: -1, Dest: "typed"}
					var plans [][]int
					for k := 1; k < len(b); k++ { // two-way splits
						plans = append(plans, []int{k})
					}
					for k := 1; k <= 7 && k < len(b); k++ { // fixed chunk sizes
						p := []int{}
						for x := 0; x < len(b); x += k {
							p = append(p, k)
						}
						plans = append(plans, p)
					}
					// the last bytes arrive together with io.EOF (iotest.DataErrReader, HTTP bodies): in one piece,
					// after a first byte, after half
					plans = append(plans, []int{-1}, []int{1, -1}, []int{len(b) / 2, -1})
					for r := 0; r < 4; r++ { // seeded sequences with zero-length reads
						p := []int{}
						for x := 0; x < len(b); {
							n := rng.Intn(5)
							p = append(p, n)
							x += n
						}
						plans = append(plans, p)
					}
					// typed and interface{} destinations
					for _, p := range plans {
						c := base
						c.Plan = p
						one(c, g, b)
						c.Dest = "iface"
						one(c, g, b)
					}
					// truncations, byte by byte, read one byte at a time and in two pieces
					if len(b) <= 36 {
						for cut := 1; cut < len(b); cut++ {
							c := base
							c.Cut = cut
							p := []int{}
							for x := 0; x < cut; x++ {
								p = append(p, 1)
							}
							c.Plan = p
							one(c, g, b[:cut])
							c.Plan = []int{cut / 2}
							one(c, g, b[:cut])
						}
					}
					if len(sum.Samples) < 4 && streams%150 == 1 {
						sum.Samples = append(sum.Samples, tr.Rec{"shape": g.Name, "class": v.Class, "mode": mode, "bytes": string(b), "plans": len(plans)})
					}
				}
			}
		}
	}
	sum.Cases = id
	sum.Events = t.Lines
	sum.Nontrivial = len(frags)
	sum.Extra = tr.Rec{"streams": streams, "max_len": maxLen, "graph_streams": ngraphs}
	return sum
}
