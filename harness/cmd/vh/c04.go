package main

import (
	"bufio"
	"context"
	"encoding/hex"
	"encoding/json"
	"fmt"
	"math/big"
	"os"
	"os/exec"
	"reflect"
	"runtime"
	"runtime/debug"
	"strings"
	"syscall"
	"time"

	hio "github.com/hprose/hprose-golang/v3/io"
	"github.com/hprose/hprose-golang/v3/rpc/codec/jsonrpc"
	"github.com/hprose/hprose-golang/v3/rpc/core"

	"verif/harness/fmtx"
	"verif/harness/gen"
	"verif/harness/tr"
)

// C04: decoding untrusted bytes. Inputs are mutations of well-formed streams: every truncation,
// single-byte substitutions / insertions / deletions, grammar-aware lies about counts, lengths,
// reference and class indices, deep nesting, unhashable map keys, seeded random bytes. Each input is
// decoded into several destination types and fed to the service and client codecs, in a child
// process with an address-space limit; the child reports per input: outcome, time, bytes allocated.
// A child that dies is attributed to the input it had started. HproseFormat!C04Why (TLA+) judges:
// no panic / crash / hang / over-allocation, and a stream the recogniser rejects must be reported
// through the decoder's error.

func init() {
	drivers["c04"] = runC04
	drivers["c04child"] = runC04Child
}

type c04Input struct {
	ID    int    `json:"id"`
	Hex   string `json:"hex"`
	Dest  string `json:"dest"`  // iface int string slice_int map_string_int plain node bytes time
	Mode  string `json:"mode"`  // simple | ref
	Entry string `json:"entry"` // unmarshal | reader | service | client
	Mut   string `json:"mut"`   // mutation class
}

type c04Result struct {
	ID      int    `json:"id"`
	Start   bool   `json:"start,omitempty"`
	Outcome string `json:"outcome"` // ok | error | panic | timeout | crash | overalloc
	Detail  string `json:"detail"`
	Alloc   uint64 `json:"alloc"`
	Ms      int    `json:"ms"`
}

var c04DestTypes = map[string]reflect.Type{
	"iface": reflect.TypeOf((*interface{})(nil)).Elem(), "int": reflect.TypeOf(0), "string": reflect.TypeOf(""),
	"slice_int": reflect.TypeOf([]int(nil)), "map_string_int": reflect.TypeOf(map[string]int(nil)),
	"plain": reflect.TypeOf(gen.Plain{}), "node": reflect.TypeOf((*gen.Node)(nil)), "bytes": reflect.TypeOf([]byte(nil)),
	"time": reflect.TypeOf(time.Time{}), "array_int": reflect.TypeOf([4]int{}), "slice_string": reflect.TypeOf([]string(nil)),
	"map_iface_int": reflect.TypeOf(map[interface{}]int(nil)), "map_iface_iface": reflect.TypeOf(map[interface{}]interface{}(nil)),
	"map_string_iface": reflect.TypeOf(map[string]interface{}(nil)), "bigint": reflect.TypeOf((*big.Int)(nil)),
}

// C04Keyed is registered by name; held by value it cannot be a map key (it has a slice)
type C04Keyed struct {
	Name string   `hprose:"name"`
	Tags []string `hprose:"tags"`
}

func init() { hio.RegisterName("C04Keyed", (*C04Keyed)(nil)) }

// a destination name ending in "+opts" is decoded with the non-default decoder settings
func c04Dest(name string) (reflect.Type, bool) {
	if strings.HasSuffix(name, "+opts") {
		return c04DestTypes[strings.TrimSuffix(name, "+opts")], true
	}
	return c04DestTypes[name], false
}

func c04Opts(dec *hio.Decoder) {
	dec.ListType = hio.ListTypeSlice
	dec.StructType = hio.StructTypeValue
	dec.LongType = hio.LongTypeBigInt
	dec.RealType = hio.RealTypeFloat32
	dec.MapType = hio.MapTypeSIMap
}

func c04Exec(in c04Input) (outcome, detail string) {
	b, _ := hex.DecodeString(in.Hex)
	defer func() {
		if p := recover(); p != nil {
			outcome, detail = "panic", fmt.Sprint(p)
			// the innermost frame inside the module makes the signature
			pcs := make([]uintptr, 40)
			n := runtime.Callers(3, pcs)
			frames := runtime.CallersFrames(pcs[:n])
			for {
				f, more := frames.Next()
				if strings.Contains(f.Function, "hprose-golang") {
					detail += " @ " + f.Function[strings.LastIndex(f.Function, "/")+1:]
					break
				}
				if !more {
					break
				}
			}
		}
	}()
	switch in.Entry {
	case "unmarshal", "reader":
		dt, opts := c04Dest(in.Dest)
		out := reflect.New(dt)
		var dec *hio.Decoder
		if in.Entry == "reader" {
			dec = hio.NewDecoderFromReader(&chunkReader{b: b, plan: []int{1, 2, 3, 1, 2, 3, 1, 2, 3, 5, 7}})
		} else {
			dec = hio.NewDecoder(b)
		}
		dec.Simple(in.Mode == "simple")
		if opts {
			c04Opts(dec)
		}
		dec.Decode(out.Interface())
		if dec.Error != nil {
			return "error", dec.Error.Error()
		}
		return "ok", ""
	case "service":
		s := core.NewService()
		s.AddFunction(func(a int, b string, c []int, d map[string]interface{}) int { return a }, "f")
		s.AddFunction(func(v ...interface{}) int { return len(v) }, "g")
		s.AddFunction(func(a int, b string, rest ...int) int { return a + len(rest) }, "h")
		s.AddFunction(func(ctx context.Context, a int, rest ...string) int { return a }, "k")
		ctx := core.WithContext(context.Background(), core.NewServiceContext(s))
		resp, err := s.Handle(ctx, b)
		if err != nil {
			return "error", err.Error()
		}
		if len(resp) > 0 && resp[0] == 'E' {
			return "error", string(resp)
		}
		return "ok", ""
	case "jservice":
		// the JSON-RPC service codec
		s := core.NewService()
		s.Codec = jsonrpc.NewServiceCodec(nil)
		s.AddFunction(func(a int, b string, c []int, d map[string]interface{}) int { return a }, "f")
		s.AddFunction(func(a int, v ...string) int { return len(v) }, "g")
		s.AddFunction(func() (int, string) { return 1, "x" }, "two")
		ctx := core.WithContext(context.Background(), core.NewServiceContext(s))
		resp, err := s.Handle(ctx, b)
		if err != nil {
			return "error", err.Error()
		}
		if strings.Contains(string(resp), "\"error\"") || (len(resp) > 0 && resp[0] == 'E') {
			return "error", string(resp)
		}
		return "ok", ""
	case "jclient":
		// the JSON-RPC client codec, with one, two or no declared result types
		cc := core.NewClientContext()
		dt, _ := c04Dest(strings.TrimPrefix(strings.TrimPrefix(in.Dest, "pair:"), "none:"))
		switch {
		case strings.HasPrefix(in.Dest, "pair:"):
			cc.ReturnType = []reflect.Type{reflect.TypeOf(0), dt}
		case strings.HasPrefix(in.Dest, "none:"):
			cc.ReturnType = nil
		default:
			cc.ReturnType = []reflect.Type{dt}
		}
		_, err := jsonrpc.NewClientCodec(nil).Decode(b, cc)
		if err != nil {
			return "error", err.Error()
		}
		return "ok", ""
	case "client":
		cc := core.NewClientContext()
		dt, _ := c04Dest(strings.TrimPrefix(in.Dest, "pair:"))
		if strings.HasPrefix(in.Dest, "pair:") {
			// several declared results: the response is read as a list, element by element
			cc.Init(core.NewClient("verif://x"), reflect.TypeOf(0), dt)
		} else {
			cc.Init(core.NewClient("verif://x"), dt)
		}
		_, err := core.NewClientCodec().Decode(b, cc)
		if err != nil {
			return "error", err.Error()
		}
		return "ok", ""
	}
	return "ok", ""
}

// runC04Child executes the inputs of a file, one result line per input, a start marker before each
func runC04Child(a Args) tr.Summary {
	var lim syscall.Rlimit
	lim.Cur, lim.Max = 8<<30, 8<<30
	syscall.Setrlimit(syscall.RLIMIT_AS, &lim)
	debug.SetMaxStack(64 << 20) // a resource limit like the address space: recursion on the input's word ends here
	f, err := os.Open(a.Extra)
	if err != nil {
		panic(err)
	}
	out, _ := os.Create(a.Out)
	w := bufio.NewWriter(out)
	emit := func(r c04Result) {
		b, _ := json.Marshal(r)
		w.Write(b)
		w.WriteByte('\n')
		w.Flush()
	}
	sc := bufio.NewScanner(f)
	sc.Buffer(make([]byte, 1<<24), 1<<24)
	for sc.Scan() {
		var in c04Input
		if json.Unmarshal(sc.Bytes(), &in) != nil {
			continue
		}
		emit(c04Result{ID: in.ID, Start: true})
		var m0, m1 runtime.MemStats
		runtime.ReadMemStats(&m0)
		t0 := time.Now()
		done := make(chan c04Result, 1)
		go func() {
			o, d := c04Exec(in)
			done <- c04Result{ID: in.ID, Outcome: o, Detail: d}
		}()
		select {
		case r := <-done:
			runtime.ReadMemStats(&m1)
			r.Alloc = m1.TotalAlloc - m0.TotalAlloc
			r.Ms = int(time.Since(t0) / time.Millisecond)
			if len(r.Detail) > 160 {
				r.Detail = r.Detail[:160]
			}
			emit(r)
		case <-time.After(3 * time.Second):
			emit(c04Result{ID: in.ID, Outcome: "timeout", Ms: 3000})
			w.Flush()
			os.Exit(3) // the stuck goroutine cannot be stopped: the parent restarts after this input
		}
	}
	return tr.Summary{}
}

// ---- input generation ----

func c04Corpus() [][]byte {
	var out [][]byte
	for _, f := range c06Forms() {
		out = append(out, c06Render(f.Body, "top"))
	}
	one := 1
	for _, v := range []interface{}{
		gen.Plain{A: 1, B: "x", C: 1.5}, []interface{}{"hello", "hello", 1.5, nil}, map[string]interface{}{"k": []int{1, 2}},
		&gen.Tagged{Name: "n", Age: 3, Ptr: &one}, []string{"ab", "ab", "cd"}, time.Date(2021, 1, 2, 3, 4, 5, 6000, time.UTC),
		[]gen.Plain{{A: 1}, {A: 2}}, "a\U0001F600b中é",
	} {
		for _, simple := range []bool{true, false} {
			b, _, _ := safeMarshal(v, simple)
			out = append(out, b)
		}
	}
	n := &gen.Node{V: 1}
	n.Next = n
	n.Kids = []*gen.Node{n, {V: 2}}
	b, _, _ := safeMarshal(n, false)
	out = append(out, b)
	// RPC shaped
	out = append(out, []byte("Cuhz"), []byte("Cuha1{1}z"), []byte("Cuha2{1ux}z"), []byte("Cuha4{1ux23}z"), []byte("Cukz"), []byte("Cuka1{1}z"), []byte("Cuka3{1uaub}z"),
		[]byte("Cufz"), []byte("Cufa1{1}z"), []byte("Cufa6{1s1\"x\"a{}m{}56}z"))
	out = append(out, []byte("Cs1\"f\"a4{1s1\"x\"a2{12}m1{uk1}}z"), []byte("Cugz"), []byte("Cuga3{1tn}z"), []byte("Rs2\"ok\"z"), []byte("Ra2{1ux}z"), []byte("Es4\"boom\"z"),
		[]byte("Hm1{s6\"simple\"t}rCufz"), []byte("Hm1{uaub}rR1z"))
	return out
}

var c04Bytes = []byte{'0', '9', 'i', 'l', 'd', 'n', 'e', 't', 'N', 'I', 'D', 'T', 'Z', 'b', 'u', 's', 'g', 'a', 'm', 'c', 'o', 'r', 'E', 'z', 'H', 'C', 'R',
	'+', '-', ';', '{', '}', '"', '.', 0x00, 0xff, 0x80, 0xc3, 0xe4, 0xf0, ' '}

func c04Mutations(b []byte, rng *tr.Rng, thorough bool) map[string][][]byte {
	m := map[string][][]byte{}
	add := func(k string, x []byte) { m[k] = append(m[k], x) }
	for i := 0; i < len(b); i++ {
		add("truncate", append([]byte(nil), b[:i]...))
	}
	limit := len(b)
	if !thorough && limit > 14 {
		limit = 14
	}
	for i := 0; i < limit; i++ {
		for _, c := range c04Bytes {
			if !thorough && rng.Intn(6) != 0 {
				continue
			}
			x := append([]byte(nil), b...)
			x[i] = c
			add("substitute", x)
			y := append(append(append([]byte(nil), b[:i]...), c), b[i:]...)
			add("insert", y)
		}
		add("delete", append(append([]byte(nil), b[:i]...), b[i+1:]...))
	}
	// grammar-aware lies: every decimal run (a count, a length, an index) replaced
	s := string(b)
	for i := 0; i < len(s); i++ {
		if s[i] >= '0' && s[i] <= '9' && (i == 0 || s[i-1] < '0' || s[i-1] > '9') {
			j := i
			for j < len(s) && s[j] >= '0' && s[j] <= '9' {
				j++
			}
			if i > 0 && strings.ContainsRune("asmbcor", rune(s[i-1])) || (i > 0 && s[i-1] == '"') {
				var n int
				fmt.Sscanf(s[i:j], "%d", &n)
				for _, v := range []string{"-1", "-5", "0", fmt.Sprint(n + 1), fmt.Sprint(n - 1), fmt.Sprint(n + 7), "99999999999", "2147483647", "4294967296", "9223372036854775807", "99999999999999999999"} {
					add("lie", []byte(s[:i]+v+s[j:]))
				}
			}
		}
	}
	return m
}

// c04JSON: JSON-RPC requests and responses (base streams; the byte-level mutations apply to them too)
func c04JSON() (reqs, resps [][]byte) {
	for _, r := range []string{
		`{"jsonrpc":"2.0","id":1,"method":"f","params":[1,"x",[1,2],{"k":1}]}`,
		`{"jsonrpc":"2.0","id":2,"method":"g","params":[1,"a","b"]}`,
		`{"jsonrpc":"2.0","id":3,"method":"g","params":[1]}`,
		`{"jsonrpc":"2.0","id":4,"method":"two"}`,
		`{"jsonrpc":"2.0","id":5,"method":"f","params":[1,"x",[1,2],{"k":1},5,6]}`,
		`{"jsonrpc":"2.0","id":6,"method":"f","params":[1]}`,
		`{"jsonrpc":"2.0","id":7,"method":"f"}`,
		`{"jsonrpc":"2.0","id":8,"method":"g","params":[]}`,
		`{"jsonrpc":"2.0","id":9,"method":"two","params":[1,2,3]}`,
		`{"jsonrpc":"2.0","id":10,"method":"f","params":{"a":1}}`,
		`{"jsonrpc":"2.0","id":"abc","method":"f","params":[1,"x",[],{}]}`,
		`{"jsonrpc":"2.0","id":11,"method":"f","params":["x",1,{},[]]}`,
		`{"jsonrpc":"2.0","id":12,"method":"f","params":[null,null,null,null]}`,
		`{"jsonrpc":"2.0","id":13,"method":"nosuch","params":[1]}`,
		`{"jsonrpc":"1.0","id":14,"method":"f","params":[1,"x",[],{}]}`,
		`{"jsonrpc":"2.0","id":15,"headers":{"h":1,"simple":true},"method":"g","params":[1,"a"]}`,
		`{"jsonrpc":"2.0","id":16,"method":"g","params":[1,2,3]}`,
		`[{"jsonrpc":"2.0","id":17,"method":"two"}]`,
		`{"jsonrpc":"2.0","id":1e99,"method":"two"}`,
		`{}`, `{"method":"two"}`,
	} {
		reqs = append(reqs, []byte(r))
	}
	for _, r := range []string{
		`{"jsonrpc":"2.0","id":1,"result":5}`,
		`{"jsonrpc":"2.0","id":1,"result":[1,"x"]}`,
		`{"jsonrpc":"2.0","id":1,"result":[1]}`,
		`{"jsonrpc":"2.0","id":1,"result":[1,"x",3]}`,
		`{"jsonrpc":"2.0","id":1,"result":[]}`,
		`{"jsonrpc":"2.0","id":1,"result":"text"}`,
		`{"jsonrpc":"2.0","id":1,"result":{"a":1}}`,
		`{"jsonrpc":"2.0","id":1,"result":null}`,
		`{"jsonrpc":"2.0","id":1}`,
		`{"jsonrpc":"2.0","id":1,"headers":{"h":[1,2]},"result":true}`,
		`{"jsonrpc":"2.0","id":1,"error":{"code":-32601,"message":"Method not found"}}`,
		`{"jsonrpc":"2.0","id":1,"error":{"message":"boom","data":"c3RhY2s="}}`,
		`{"jsonrpc":"2.0","id":1,"error":{"message":"plain"}}`,
		`{"jsonrpc":"2.0","id":1,"error":{"message":"x","data":"%%%"}}`,
		`{"jsonrpc":"2.0","id":1,"error":"not an object"}`,
		`{"jsonrpc":"2.0","id":1,"result":1,"error":{"message":"both"}}`,
		`[1,2]`, `5`, `{"result":[[1],[2]]}`,
	} {
		resps = append(resps, []byte(r))
	}
	return
}

func c04Special() map[string][][]byte {
	m := map[string][][]byte{}
	m["unhashable-key"] = [][]byte{[]byte("m1{a{}1}"), []byte("m1{m{}1}"), []byte("m1{a1{1}ux}"), []byte("m2{a{}1a{}2}"),
		[]byte("m1{a2{12}3}"), []byte("m1{b2\"ab\"1}"), []byte("a2{b2\"ab\"m1{r1;1}}"), []byte("m2{ua1a2{uaub}2}"),
		[]byte("m1{c8\"C04Keyed\"2{s4\"name\"s4\"tags\"}o0{s2\"ab\"a1{s2\"cd\"}}1}"),
		[]byte("a2{c8\"C04Keyed\"2{s4\"name\"s4\"tags\"}o0{s2\"ab\"a{}}m1{r1;1}}"), []byte("m1{m1{ua1}1}"), []byte("m1{d1.5;a{}}")}
	m["bad-index"] = [][]byte{[]byte("r5;"), []byte("o3{}"), []byte("a1{r9;}"), []byte("r-1;"), []byte("o-1{}"), []byte("a2{uar0;}"), []byte("c1\"A\"1{ua}o1{1}"), []byte("r0;"),
		[]byte("a1{r0;}"), []byte("m1{r0;1}"), []byte("a2{s2\"ab\"r9999999999;}")}
	// a class that declares a field its registered struct does not have, decoded into maps; a count far beyond
	// the input (and beyond the array it is decoded into) arriving through a reader
	m["unknown-field"] = [][]byte{[]byte("c8\"C04Keyed\"1{s3\"xyz\"}o0{1}"), []byte("c8\"C04Keyed\"3{s4\"name\"s3\"xyz\"s4\"tags\"}o0{s2\"ab\"1a{}}"),
		[]byte("a2{c8\"C04Keyed\"1{s3\"xyz\"}o0{1}o0{2}}")}
	// a real number with an enormous exponent read into a big integer: the integer has as many bits as the
	// exponent says (known finding C04-K3)
	m["big-exponent"] = [][]byte{[]byte("d1e600000000;")}
	m["huge-count-reader"] = [][]byte{[]byte("a900000000000000000{12"), []byte("a900000000000000000{12}"), []byte("a4000000000{123")}
	m["negative-length"] = [][]byte{[]byte("b-5\"\""), []byte("s-1\"\""), []byte("a-1{}"), []byte("m-1{}"), []byte("c-1\"\"0{}"), []byte("s-2\"ab\"")}
	m["huge-count"] = [][]byte{[]byte("a99999999999{"), []byte("m99999999999{"), []byte("b99999999999\""), []byte("s99999999999\""), []byte("a2147483647{}"), []byte("a1000000000{"),
		[]byte("m1000000000{"), []byte("c1\"A\"99999999999{"), []byte("c99999999999\""), []byte("Cufa99999999999{"), []byte("Ra99999999999{"), []byte("a100000000{1"), []byte("b100000000\"x")}
	for _, depth := range []int{1000, 300000} {
		m["deep-nesting"] = append(m["deep-nesting"], []byte(strings.Repeat("a1{", depth)), []byte(strings.Repeat("m1{", depth)),
			[]byte(strings.Repeat("a1{", depth)+"1"+strings.Repeat("}", depth)))
	}
	m["self-reference"] = [][]byte{[]byte("a1{r0;}"), []byte("m1{uar0;}"), []byte("a2{a1{r1;}r0;}"),
		// a container that contains itself, referred to where a text is expected (the message of an error value,
		// a string element): it has no text form, and looking for one must not walk it for ever
		[]byte("a2{m1{uar1;}Er1;}"), []byte("m2{uar0;ubEr0;}"), []byte("a2{a1{r1;}Er1;}"), []byte("a1{Er0;}"),
		[]byte("a3{m1{uar1;}s2\"ab\"r1;}"), []byte("c4\"Node\"5{s1\"v\"s4\"next\"s4\"kids\"s1\"m\"s3\"any\"}o0{1r5;a2{Er5;o0{2nnnn}}nn}")}
	return m
}

func runC04(a Args) tr.Summary {
	t := tr.New(a.Out)
	defer t.Close()
	var sum tr.Summary
	rng := tr.NewRng(a.Seed)
	thorough := a.Tier == "thorough"
	var inputs []c04Input
	addInput := func(b []byte, mut string) {
		dests := []string{"iface"}
		entries := []string{"unmarshal"}
		switch rng.Intn(4) {
		case 0:
			dests = append(dests, []string{"int", "string", "slice_int", "map_string_int", "plain", "node", "bytes", "time", "array_int", "slice_string"}[rng.Intn(10)])
		case 1:
			entries = append(entries, "reader")
		}
		if len(b) > 0 && (b[0] == 'C' || b[0] == 'H') {
			entries = []string{"service"}
		} else if len(b) > 0 && (b[0] == 'R' || b[0] == 'E') {
			entries = []string{"client"}
		}
		if mut == "big-exponent" {
			dests = []string{"bigint", "iface", "int"}
			entries = []string{"unmarshal"}
		} else if mut == "unknown-field" {
			dests = []string{"iface", "map_string_iface", "map_string_int", "plain"}
			entries = []string{"unmarshal", "reader"}
		} else if mut == "huge-count-reader" {
			dests = []string{"array_int", "slice_int", "iface"}
			entries = []string{"unmarshal", "reader"}
		} else if mut == "self-reference" {
			dests = []string{"iface", "node", "slice_string", "string", "map_string_int"}
		} else if mut == "deep-nesting" {
			dests = []string{"iface", "node"}
		} else if mut == "unhashable-key" {
			dests = []string{"iface", "iface+opts", "map_iface_int", "map_iface_int+opts", "map_iface_iface", "map_iface_iface+opts", "map_string_int", "node"}
			if entries[0] == "unmarshal" {
				entries = []string{"unmarshal", "reader"}
			}
		} else if mut != "truncate" && mut != "substitute" && mut != "insert" && mut != "delete" {
			dests = []string{"iface", "int", "string", "slice_int", "map_string_int", "plain", "node", "bytes"}
			if entries[0] == "unmarshal" {
				entries = []string{"unmarshal", "reader"}
			}
		}
		if entries[0] == "client" && (!thorough || mut == "valid" || rng.Intn(3) == 0) { // (the thorough tier's input set is large: a third of it there)
			for _, d := range append([]string(nil), dests...) {
				if !strings.Contains(d, "+") {
					dests = append(dests, "pair:"+d)
				}
			}
		}
		for _, d := range dests {
			for _, e := range entries {
				for _, mode := range []string{"ref"} {
					inputs = append(inputs, c04Input{ID: len(inputs) + 1, Hex: hex.EncodeToString(b), Dest: d, Mode: mode, Entry: e, Mut: mut})
				}
			}
		}
	}
	if a.Only != "" {
		var in c04Input
		if err := json.Unmarshal([]byte(a.Only), &in); err != nil {
			panic(err)
		}
		in.ID = 1
		inputs = []c04Input{in}
	} else {
		// responses with several results (the client codec reads them as a list), and their neighbourhood
		multi := [][]byte{[]byte("Ra2{1s2\"ab\"}z"), []byte("Ra3{1s2\"ab\"r1;}z"), []byte("Ra2{i7;a2{12}}z"), []byte("Ra1{1}z"), []byte("Ra{}z"),
			[]byte("Ra2{r0;1}z"), []byte("Ra-1{}z"), []byte("Ra2{1r0;}z"), []byte("Hm1{s6\"simple\"t}Ra2{1ua}z")}
		for _, b := range append(c04Corpus(), multi...) {
			addInput(b, "valid")
			for k, l := range c04Mutations(b, rng, thorough) {
				for _, x := range l {
					addInput(x, k)
				}
			}
		}
		// JSON-RPC: every base stream with every declared result shape, and its one-edit neighbourhood
		jreqs, jresps := c04JSON()
		addJ := func(b []byte, entry, mut string) {
			dests := []string{"iface"}
			if entry == "jclient" {
				dests = []string{"iface", "int", "string", "slice_int", "map_string_int", "plain", "pair:iface", "pair:string", "pair:slice_int", "none:iface"}
			}
			for _, d := range dests {
				inputs = append(inputs, c04Input{ID: len(inputs) + 1, Hex: hex.EncodeToString(b), Dest: d, Mode: "ref", Entry: entry, Mut: mut})
			}
		}
		for i, l := range [][][]byte{jreqs, jresps} {
			entry := []string{"jservice", "jclient"}[i]
			for _, b := range l {
				addJ(b, entry, "json-valid")
				for k, ms := range c04Mutations(b, rng, false) {
					for j, x := range ms {
						if k != "truncate" && j%5 != 0 { // a fifth of the substitutions / insertions / deletions
							continue
						}
						addJ(x, entry, "json-"+k)
					}
				}
			}
		}
		for k, l := range c04Special() {
			for _, x := range l {
				addInput(x, k)
				// as arguments of a call and as a result
				addInput(append(append([]byte("Cug"), x...), 'z'), k)
				addInput(append(append([]byte("R"), x...), 'z'), k)
			}
		}
		nRandom := 2000
		if thorough {
			nRandom = 100000
		}
		for i := 0; i < nRandom; i++ {
			n := 1 + rng.Intn(24)
			b := make([]byte, n)
			for j := range b {
				if rng.Intn(5) == 0 {
					b[j] = byte(rng.Intn(256))
				} else {
					b[j] = c04Bytes[rng.Intn(len(c04Bytes))]
				}
			}
			addInput(b, "random")
		}
	}
	if m := os.Getenv("VH_C04_MAX"); m != "" {
		var n int
		fmt.Sscanf(m, "%d", &n)
		if n < len(inputs) {
			inputs = inputs[:n]
		}
	}
	// run in children; a child that dies is blamed on the input it had started
	results := map[int]c04Result{}
	self, _ := os.Executable()
	next := 0
	dir := a.Out + ".c04"
	os.MkdirAll(dir, 0755)
	defer os.RemoveAll(dir)
	round := 0
	for next < len(inputs) {
		round++
		Watch(next, tr.Rec{"mut": inputs[next].Mut}, inputs[next])
		end := next + 3000
		if end > len(inputs) {
			end = len(inputs)
		}
		inFile := fmt.Sprintf("%s/in%d.ndjson", dir, round)
		outFile := fmt.Sprintf("%s/out%d.ndjson", dir, round)
		f, _ := os.Create(inFile)
		w := bufio.NewWriter(f)
		for _, in := range inputs[next:end] {
			b, _ := json.Marshal(in)
			w.Write(b)
			w.WriteByte('\n')
		}
		w.Flush()
		f.Close()
		cmd := exec.Command(self, "c04child", "-extra", inFile, "-out", outFile)
		cmd.SysProcAttr = &syscall.SysProcAttr{Pdeathsig: syscall.SIGKILL} // a child never outlives the driver
		var stderr strings.Builder
		cmd.Stderr = &stderr
		cmd.Stdout = nil
		runErr := cmd.Run()
		started := -1
		finished := map[int]bool{}
		if rf, err := os.Open(outFile); err == nil {
			sc := bufio.NewScanner(rf)
			sc.Buffer(make([]byte, 1<<22), 1<<22)
			for sc.Scan() {
				var r c04Result
				if json.Unmarshal(sc.Bytes(), &r) != nil {
					continue
				}
				if r.Start {
					started = r.ID
					continue
				}
				results[r.ID] = r
				finished[r.ID] = true
			}
			rf.Close()
		}
		if runErr != nil && started > 0 && !finished[started] {
			msg := stderr.String()
			detail := "child died"
			for _, key := range []string{"fatal error: ", "panic: ", "signal: "} {
				if i := strings.Index(msg, key); i >= 0 {
					detail = strings.SplitN(msg[i:], "\n", 2)[0]
					break
				}
			}
			if ee, ok := runErr.(*exec.ExitError); ok && detail == "child died" {
				detail = ee.String()
			}
			results[started] = c04Result{ID: started, Outcome: "crash", Detail: detail}
			finished[started] = true
		}
		// continue after the last finished input
		last := next
		for i := next; i < end; i++ {
			if finished[inputs[i].ID] {
				last = i + 1
			}
		}
		if last == next {
			last = next + 1 // defensive: never loop on the same input
		}
		next = last
		os.Remove(inFile)
		os.Remove(outFile)
	}
	muts := map[string]bool{}
	for _, in := range inputs {
		r, ok := results[in.ID]
		if !ok {
			continue
		}
		b, _ := hex.DecodeString(in.Hex)
		limit := uint64(256*len(b) + 1<<20)
		outcome := r.Outcome
		if (outcome == "ok" || outcome == "error") && r.Alloc > limit {
			outcome = "overalloc"
		}
		rec := tr.Rec{"ev": "one", "case": in.ID, "kind": "fuzz", "dest": in.Dest, "entry": in.Entry, "mode": in.Mode, "mut": in.Mut,
			"outcome": outcome, "detail": r.Detail, "alloc": int(r.Alloc), "limit": int(limit), "ms": r.Ms, "len": len(b)}
		if outcome != "ok" && outcome != "error" || rec["alloc"].(int) > int(limit)/2 {
			rec["input"] = in
		}
		// the recogniser's opinion is asked for plain value streams of moderate size
		if in.Entry == "unmarshal" && in.Dest == "iface" && len(b) <= 64 && (thorough || a.Only != "" || in.ID%5 == int(a.Seed%5)) {
			rec["toks"] = fmtx.Lex(b)
			rec["judge"] = true
		} else {
			rec["toks"] = []fmtx.Tok{}
			rec["judge"] = false
		}
		if len(b) <= 80 {
			rec["bytes"] = string(b)
		}
		t.Emit(rec)
		muts[in.Mut+"/"+in.Dest+"/"+in.Entry] = true
		if in.ID%20011 == 3 && len(sum.Samples) < 5 {
			sum.Samples = append(sum.Samples, tr.Rec{"bytes": string(b), "dest": in.Dest, "entry": in.Entry, "mutation": in.Mut, "outcome": outcome})
		}
	}
	sum.Cases = len(inputs)
	sum.Events = t.Lines
	sum.Nontrivial = len(muts)
	sum.Extra = tr.Rec{"inputs": len(inputs), "children": round}
	return sum
}
