package main

import (
	"context"
	"encoding/json"
	"errors"
	"fmt"
	"strings"
	"sync"
	"sync/atomic"
	"time"

	"github.com/hprose/hprose-golang/v3/rpc/core"
	"github.com/hprose/hprose-golang/v3/rpc/plugins/loadbalance"

	"verif/harness/tr"
)

// C18: load balancers. A recording downstream handler logs the URL each call was given (mapped to
// the index of the configured server) and either finishes the call at once with the scripted
// outcome or parks it until the case releases it. The LoadBalance monitor (TLA+) judges the picks.

func init() { drivers["c18"] = runC18 }

type c18Op struct {
	Op string `json:"op"` // call | hold | finish | servers | quiesce
	O  string `json:"o,omitempty"`
	J  int    `json:"j,omitempty"` // finish: index into the list of held calls (mod its length)
	N  int    `json:"n,omitempty"` // servers: new count
}

type c18Case struct {
	Algo    string  `json:"algo"`
	Weights []int   `json:"weights"` // one per server (all 1 for unweighted)
	Ops     []c18Op `json:"ops"`
	Conc    int     `json:"conc,omitempty"`
	N       int     `json:"n,omitempty"`
	Seed    int64   `json:"seed,omitempty"`
	Tight   bool    `json:"tight,omitempty"` // Conc goroutines call the balancer's handler directly, N times each, without pause
}

type c18Actives interface{ VerifActives() []int64 }

func c18URL(i int) string { return fmt.Sprintf("verif://s%d", i) }

func c18Run(t *tr.Writer, id int, c c18Case) {
	n := len(c.Weights)
	uris := map[string]int{}
	var urls []string
	for i, w := range c.Weights {
		uris[c18URL(i)] = w
		urls = append(urls, c18URL(i))
	}
	client := core.NewClient(urls...)
	var lb interface{}
	// the weighted constructors iterate a map: their server order is read back from the exported URLs
	order := map[string]int{}
	var wts []int
	setOrder := func(w loadbalance.WeightedLoadBalance) {
		wts = nil
		for i, u := range w.URLs {
			order[u.String()] = i + 1
			wts = append(wts, int(w.Weights[i]))
		}
	}
	switch c.Algo {
	case "rr":
		lb = loadbalance.NewRoundRobinLoadBalance()
	case "random":
		lb = loadbalance.NewRandomLoadBalance()
	case "la":
		lb = loadbalance.NewLeastActiveLoadBalance()
	case "wrr":
		x := loadbalance.NewWeightedRoundRobinLoadBalance(uris)
		setOrder(x.WeightedLoadBalance)
		lb = x
	case "nginx":
		x := loadbalance.NewNginxRoundRobinLoadBalance(uris)
		setOrder(x.WeightedLoadBalance)
		lb = x
	case "wrandom":
		x := loadbalance.NewWeightedRandomLoadBalance(uris)
		setOrder(x.WeightedLoadBalance)
		lb = x
	case "wla":
		x := loadbalance.NewWeightedLeastActiveLoadBalance(uris)
		setOrder(x.WeightedLoadBalance)
		lb = x
	}
	if wts == nil {
		for i := range c.Weights {
			order[c18URL(i)] = i + 1
			wts = append(wts, 1)
		}
	}
	var mu sync.Mutex
	type held struct {
		k    int
		ch   chan string
		done chan struct{}
	}
	var holdDone chan struct{}
	var holds []*held
	holdNext := false
	script := "ok"
	k := 0
	parkedCh := make(chan struct{}, 64)
	rec := func(ctx context.Context, request []byte, next core.NextIOHandler) ([]byte, error) {
		u := core.GetClientContext(ctx).URL
		idx := 0
		if u != nil {
			mu.Lock()
			idx = order[u.String()]
			mu.Unlock()
		}
		mu.Lock()
		k++
		kk := k
		o := script
		hold := holdNext
		var h *held
		if hold {
			h = &held{kk, make(chan string), holdDone}
			holds = append(holds, h)
		}
		t.Emit(tr.Rec{"ev": "pick", "k": kk, "idx": idx})
		mu.Unlock()
		if hold {
			parkedCh <- struct{}{}
			o = <-h.ch
		}
		defer t.Emit(tr.Rec{"ev": "done", "k": kk, "o": o})
		switch o {
		case "ok":
			return miniResp("ok"), nil
		case "err":
			return nil, errors.New("scripted")
		default:
			panic("scripted-panic")
		}
	}
	client.Use(lb, core.IOHandler(rec))
	Watch(id, tr.Rec{"algo": c.Algo}, c)
	t.Reset(id, tr.Rec{"algo": c.Algo, "n": n, "w": wts, "conc": c.Conc > 0, "input": c})
	var invoked int64
	invoke := func() {
		atomic.AddInt64(&invoked, 1)
		defer func() {
			// a panic that is not the scripted one of the downstream handler comes from the balancer
			if p := recover(); p != nil && !strings.Contains(fmt.Sprint(p), "scripted-panic") {
				t.Emit(tr.Rec{"ev": "balancer-panic", "msg": fmt.Sprint(p)})
			}
		}()
		client.Invoke("f", nil)
	}
	quiesce := func() {
		act := []int64{}
		if a, ok := lb.(c18Actives); ok {
			act = a.VerifActives()
			if act == nil {
				act = []int64{}
			}
		}
		mu.Lock()
		picks := k
		mu.Unlock()
		t.Emit(tr.Rec{"ev": "quiesce", "actives": act, "invoked": atomic.LoadInt64(&invoked), "picks": picks})
	}
	if c.Tight {
		// the balancer's handler called directly and as fast as the machine goes: every call must come out at
		// the next handler with a configured URL (a balancer with unsynchronised state shows only at such rates)
		h, ok := lb.(interface {
			Handler(context.Context, []byte, core.NextIOHandler) ([]byte, error)
		})
		if !ok {
			t.Emit(tr.Rec{"ev": "setup-failed"})
			return
		}
		var calls, valid, invalid, panics int64
		var wg sync.WaitGroup
		for g := 0; g < c.Conc; g++ {
			wg.Add(1)
			go func(g int) {
				defer wg.Done()
				var myValid, myInvalid, myPanics int64
				i := 0
				next := func(ctx context.Context, request []byte) ([]byte, error) {
					u := core.GetClientContext(ctx).URL
					if u != nil && order[u.String()] >= 1 && order[u.String()] <= n {
						myValid++
					} else {
						myInvalid++
					}
					switch (i + g) % 5 {
					case 3:
						return nil, errors.New("scripted")
					case 4:
						panic("scripted-panic")
					}
					return nil, nil
				}
				for i = 0; i < c.N; i++ {
					func() {
						defer func() {
							if p := recover(); p != nil && !strings.Contains(fmt.Sprint(p), "scripted-panic") {
								myPanics++
							}
						}()
						cc := core.NewClientContext()
						cc.Init(client)
						_, _ = h.Handler(core.WithContext(context.Background(), cc), nil, next)
					}()
				}
				atomic.AddInt64(&calls, int64(c.N))
				atomic.AddInt64(&valid, myValid)
				atomic.AddInt64(&invalid, myInvalid)
				atomic.AddInt64(&panics, myPanics)
			}(g)
		}
		wg.Wait()
		t.Emit(tr.Rec{"ev": "tight", "calls": calls, "valid": valid, "invalid": invalid, "panics": panics})
		act := []int64{}
		if a, ok := lb.(c18Actives); ok {
			if act = a.VerifActives(); act == nil {
				act = []int64{}
			}
		}
		t.Emit(tr.Rec{"ev": "quiesce", "actives": act})
		return
	}
	if c.Conc > 0 {
		var wg sync.WaitGroup
		rng := tr.NewRng(c.Seed)
		outs := make([]string, c.Conc*c.N)
		for i := range outs {
			outs[i] = []string{"ok", "ok", "err", "panic"}[rng.Intn(4)]
		}
		for g := 0; g < c.Conc; g++ {
			wg.Add(1)
			go func(g int) {
				defer wg.Done()
				for i := 0; i < c.N; i++ {
					mu.Lock()
					script = outs[g*c.N+i]
					mu.Unlock()
					invoke()
				}
			}(g)
		}
		wg.Wait()
		quiesce()
		return
	}
	var wg sync.WaitGroup
	for _, op := range c.Ops {
		switch op.Op {
		case "call":
			mu.Lock()
			script, holdNext = op.O, false
			mu.Unlock()
			invoke()
		case "hold":
			d := make(chan struct{})
			mu.Lock()
			holdNext = true
			holdDone = d
			mu.Unlock()
			wg.Add(1)
			go func() { defer wg.Done(); defer close(d); invoke() }()
			select {
			case <-parkedCh:
			case <-time.After(10 * time.Second):
				panic("c18: held call never reached the downstream handler")
			}
			mu.Lock()
			holdNext = false
			mu.Unlock()
		case "finish":
			mu.Lock()
			if len(holds) == 0 {
				mu.Unlock()
				continue
			}
			j := op.J % len(holds)
			h := holds[j]
			holds = append(holds[:j], holds[j+1:]...)
			mu.Unlock()
			h.ch <- op.O
			// Invoke returns only after the balancer's deferred bookkeeping for that call has run
			<-h.done
		case "servers":
			mu.Lock()
			busy := len(holds) > 0
			mu.Unlock()
			if busy || !(c.Algo == "rr" || c.Algo == "random" || c.Algo == "la") {
				continue
			}
			var us []string
			mu.Lock()
			order = map[string]int{}
			for i := 0; i < op.N; i++ {
				us = append(us, c18URL(i))
				order[c18URL(i)] = i + 1
			}
			mu.Unlock()
			client.SetURI(us...)
			t.Emit(tr.Rec{"ev": "servers", "n": op.N})
		case "grow":
			// servers are added while calls may be in flight (least-active only: its counters must survive)
			if c.Algo != "la" {
				continue
			}
			mu.Lock()
			cur := len(order)
			var us []string
			for i := 0; i < cur+op.N; i++ {
				us = append(us, c18URL(i))
				order[c18URL(i)] = i + 1
			}
			mu.Unlock()
			client.SetURI(us...)
			t.Emit(tr.Rec{"ev": "grow", "n": cur + op.N})
		case "quiesce":
			mu.Lock()
			busy := len(holds) > 0
			mu.Unlock()
			if !busy {
				quiesce()
			}
		}
	}
	mu.Lock()
	rest := holds
	holds = nil
	mu.Unlock()
	for _, h := range rest {
		h.ch <- "ok"
	}
	wg.Wait()
	quiesce()
}

func c18WeightVectors(maxN, maxW int) [][]int {
	var out [][]int
	var rec func(p []int, n int)
	rec = func(p []int, n int) {
		if len(p) == n {
			out = append(out, append([]int(nil), p...))
			return
		}
		for w := 1; w <= maxW; w++ {
			rec(append(p, w), n)
		}
	}
	for n := 1; n <= maxN; n++ {
		rec(nil, n)
	}
	return out
}

func runC18(a Args) tr.Summary {
	t := tr.New(a.Out)
	defer t.Close()
	var sum tr.Summary
	if a.Only != "" {
		var c c18Case
		if err := json.Unmarshal([]byte(a.Only), &c); err != nil {
			panic(err)
		}
		c18Run(t, 1, c)
		sum.Cases, sum.Events = t.Cases, t.Lines
		return sum
	}
	id := 0
	nontrivial := 0
	run := func(c c18Case, nt bool) {
		id++
		c18Run(t, id, c)
		if nt {
			nontrivial++
		}
		if id%977 == 3 && len(sum.Samples) < 5 {
			cc := c
			if len(cc.Ops) > 12 {
				cc.Ops = cc.Ops[:12]
			}
			sum.Samples = append(sum.Samples, cc)
		}
	}
	maxN, maxW := 3, 4
	nRandom := 400
	if a.Tier == "thorough" {
		maxN, maxW = 4, 5
		nRandom = 6000
	}
	calls := func(n int, o string) []c18Op {
		ops := make([]c18Op, n)
		for i := range ops {
			ops[i] = c18Op{Op: "call", O: o}
		}
		return ops
	}
	// 1. failure-free cycles: every weight vector, two and a half cycles
	for _, w := range c18WeightVectors(maxN, maxW) {
		s := 0
		for _, x := range w {
			s += x
		}
		for _, algo := range []string{"wrr", "nginx", "wrandom", "wla"} {
			run(c18Case{Algo: algo, Weights: w, Ops: calls(2*s+s/2+1, "ok")}, len(w) > 1)
		}
	}
	for n := 1; n <= 6; n++ {
		w := make([]int, n)
		for i := range w {
			w[i] = 1
		}
		for _, algo := range []string{"rr", "random", "la"} {
			run(c18Case{Algo: algo, Weights: w, Ops: calls(3*n+1, "ok")}, n > 1)
		}
	}
	// 2. outcome histories, held calls, reconfiguration: seeded
	rng := tr.NewRng(a.Seed)
	algos := []string{"rr", "random", "la", "wrr", "nginx", "wrandom", "wla"}
	for i := 0; i < nRandom; i++ {
		algo := algos[i%len(algos)]
		n := 1 + rng.Intn(maxN)
		w := make([]int, n)
		for j := range w {
			w[j] = 1
			if algo == "wrr" || algo == "nginx" || algo == "wrandom" || algo == "wla" {
				w[j] = 1 + rng.Intn(maxW)
			}
		}
		m := 10 + rng.Intn(30)
		var ops []c18Op
		for j := 0; j < m; j++ {
			switch x := rng.Intn(20); {
			case x < 8:
				ops = append(ops, c18Op{Op: "call", O: "ok"})
			case x < 12:
				ops = append(ops, c18Op{Op: "call", O: "err"})
			case x < 14:
				ops = append(ops, c18Op{Op: "call", O: "panic"})
			case x < 16:
				ops = append(ops, c18Op{Op: "hold"})
			case x < 18:
				ops = append(ops, c18Op{Op: "finish", J: rng.Intn(4), O: []string{"ok", "err", "panic"}[rng.Intn(3)]})
			case x < 19:
				ops = append(ops, c18Op{Op: "quiesce"})
			default:
				if algo == "la" && rng.Intn(2) == 0 {
					ops = append(ops, c18Op{Op: "grow", N: 1 + rng.Intn(2)})
				} else {
					ops = append(ops, c18Op{Op: "servers", N: 1 + rng.Intn(5)})
				}
			}
		}
		run(c18Case{Algo: algo, Weights: w, Ops: ops}, true)
	}
	// 3. concurrent pickers: validity and counter conservation
	nConc := 14
	if a.Tier == "thorough" {
		nConc = 70
	}
	for i := 0; i < nConc; i++ {
		algo := algos[i%len(algos)]
		n := 2 + rng.Intn(3)
		w := make([]int, n)
		for j := range w {
			w[j] = 1 + rng.Intn(3)
			if algo == "rr" || algo == "random" || algo == "la" {
				w[j] = 1
			}
		}
		run(c18Case{Algo: algo, Weights: w, Conc: 16, N: 50, Seed: a.Seed*7919 + int64(i)}, true)
	}
	// 4. the handler called directly, concurrently and without pause
	for i, algo := range algos {
		per := 20000
		if algo == "random" {
			per = 400000
		}
		if a.Tier == "thorough" {
			per *= 5
		}
		w := []int{1, 1, 1}
		if !(algo == "rr" || algo == "random" || algo == "la") {
			w = []int{1 + i%3, 2, 3}
		}
		run(c18Case{Algo: algo, Weights: w, Conc: 16, N: per, Tight: true, Seed: a.Seed}, true)
	}
	sum.Cases = id
	sum.Events = t.Lines
	sum.Nontrivial = nontrivial
	sum.Extra = tr.Rec{"max_servers": maxN, "max_weight": maxW, "random_histories": nRandom, "concurrent_cases": nConc}
	return sum
}
