package main

import (
	"fmt"
	"io"
	"os"
)

// appendFiles appends <out>.real<i> for i in [from,to] to out and removes them.
func appendFiles(out string, from, to int) {
	f, err := os.OpenFile(out, os.O_APPEND|os.O_WRONLY, 0644)
	if err != nil {
		panic(err)
	}
	defer f.Close()
	for i := from; i <= to; i++ {
		p := fmt.Sprintf("%s.real%d", out, i)
		g, err := os.Open(p)
		if err != nil {
			continue
		}
		io.Copy(f, g)
		g.Close()
		os.Remove(p)
	}
}
