package main

import (
	"bufio"
	"context"
	"encoding/json"
	"fmt"
	"io"
	"os"
	"os/exec"
	"strings"
	"syscall"
	"time"

	hio "github.com/hprose/hprose-golang/v3/io"

	"verif/harness/gen"
	"verif/harness/tr"
)

// appendFiles appends <out>.real<i> for i in [from,to] to out and removes them.
func appendFiles(out string, from, to int) {
	f, err := os.OpenFile(out, os.O_APPEND|os.O_WRONLY, 0644)
	if err != nil {
		panic(err)
	}
	defer f.Close()
	for i := from; i <= to; i++ {
		p := fmt.Sprintf("%s.real%d", out, i)
		g, err := os.Open(p)
		if err != nil {
			continue
		}
		io.Copy(f, g)
		g.Close()
		os.Remove(p)
	}
}

// isolated runs one case of a driver in a child process (the same binary with -only and
// -extra child) and appends the child's events to t. A child that dies (unrecovered panic in another
// goroutine, fatal error) becomes the event {"ev":"crash"}: the check never dies with the code it
// examines. The child must not emit the reset record.
func isolated(t *tr.Writer, driver string, c interface{}, timeout time.Duration) {
	self, _ := os.Executable()
	b, _ := json.Marshal(c)
	tmp := fmt.Sprintf("%s.child%d", os.Getenv("VH_TMP")+"/vhchild", time.Now().UnixNano())
	if os.Getenv("VH_TMP") == "" {
		tmp = fmt.Sprintf("%s/vhchild%d", os.TempDir(), time.Now().UnixNano())
	}
	defer os.Remove(tmp)
	ctx, cancel := context.WithTimeout(context.Background(), timeout)
	defer cancel()
	cmd := exec.CommandContext(ctx, self, driver, "-only", string(b), "-extra", "child", "-out", tmp)
	cmd.SysProcAttr = &syscall.SysProcAttr{Pdeathsig: syscall.SIGKILL} // a child never outlives the driver
	var stderr strings.Builder
	cmd.Stderr = &stderr
	err := cmd.Run()
	if f, e := os.Open(tmp); e == nil {
		sc := bufio.NewScanner(f)
		sc.Buffer(make([]byte, 1<<24), 1<<24)
		for sc.Scan() {
			var r tr.Rec
			if json.Unmarshal(sc.Bytes(), &r) == nil && r["ev"] != "reset" {
				t.Emit(r)
			}
		}
		f.Close()
	}
	if err != nil {
		detail := err.Error()
		msg := stderr.String()
		for _, key := range []string{"fatal error: ", "panic: "} {
			if i := strings.Index(msg, key); i >= 0 {
				detail = strings.SplitN(msg[i:], "\n", 2)[0]
				// the first frame inside the module, for the signature
				if j := strings.Index(msg[i:], "hprose-golang/v3/"); j >= 0 {
					rest := msg[i+j+len("hprose-golang/v3/"):]
					detail += " @ " + strings.SplitN(strings.SplitN(rest, "\n", 2)[0], "(", 2)[0]
				}
				break
			}
		}
		if ctx.Err() != nil {
			t.Emit(tr.Rec{"ev": "hang", "detail": "the child did not finish within " + timeout.String()})
		} else {
			t.Emit(tr.Rec{"ev": "crash", "detail": detail})
		}
	}
}

// dirtyPools: a history for the pooled coders. Every coder the pools can hand out next has been used by
// somebody else with every setting away from its default, with references and classes in its tables and
// with a failed operation behind it, and has been given back with FreeEncoder / FreeDecoder - as an RPC
// codec with options, or another user of the package, leaves them. What Marshal / Unmarshal get from
// the pool afterwards must behave like a new coder.
func dirtyPools() {
	const n = 48
	decs := make([]*hio.Decoder, n)
	for i := range decs {
		d := hio.GetDecoder()
		d.ResetBytes([]byte("a3{s5\"hello\"c5\"Plain\"3{uaubuc}o0{1r1;0}l5"))
		d.Simple(i%2 == 0)
		d.LongType, d.RealType, d.MapType = hio.LongTypeBigInt, hio.RealTypeBigFloat, hio.MapTypeSIMap
		d.StructType, d.ListType = hio.StructTypeValue, hio.ListTypeSlice
		var v interface{}
		d.Decode(&v) // ends in an error (truncated input) with a string and a class in the tables
		decs[i] = d
	}
	for _, d := range decs {
		hio.FreeDecoder(d)
	}
	encs := make([]*hio.Encoder, n)
	for i := range encs {
		e := hio.GetEncoder()
		e.Simple(i%2 == 0)
		e.Encode([]interface{}{"hello", "hello", &gen.Plain{A: 1, B: "hello"}})
		e.Encode(make(chan int)) // fails
		encs[i] = e
	}
	for _, e := range encs {
		hio.FreeEncoder(e)
	}
}
