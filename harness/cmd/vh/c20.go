package main

import (
	"context"
	"encoding/json"
	"errors"
	"fmt"
	"math"
	"runtime"
	"sync"
	"sync/atomic"
	"time"

	"github.com/hprose/hprose-golang/v3/rpc/core"
	"github.com/hprose/hprose-golang/v3/rpc/plugins/circuitbreaker"

	"verif/harness/tr"
)

// C20: circuit breaker. Every outcome sequence up to a bound x threshold x recovery x mock is run
// through a real core.Client with the breaker installed by Client.Use; a scripted IO handler stands
// in for the transport. The trace records, per call, the scripted downstream outcome, whether the
// recovery time has (certainly / certainly not / possibly) elapsed since the last failure, whether
// the downstream handler was invoked and what the caller received.

func init() { drivers["c20"] = runC20 }

type c20Case struct {
	Threshold int      `json:"threshold"`
	Mock      bool     `json:"mock"`
	Recovery  string   `json:"recovery"`        // "inf" | "zero" | "real" | "max"
	Burst     int      `json:"burst,omitempty"` // > 0: rounds of threshold+1 calls that fail at the same instant
	Ops       []string `json:"ops"`             // "ok" | "err" | "panic" | "wait" | "half" | "slowB" | "slowE:err" | "slowE:ok"
}

const c20RealRecovery = 60 * time.Millisecond

func c20Run(t *tr.Writer, id int, c c20Case) {
	var rec time.Duration
	switch c.Recovery {
	case "inf":
		rec = time.Hour
	case "max": // the largest duration there is: "never recovers" as an application would write it
		rec = time.Duration(math.MaxInt64)
	case "zero":
		rec = time.Nanosecond
	default:
		rec = c20RealRecovery
	}
	opts := []circuitbreaker.Option{circuitbreaker.WithThreshold(uint64(c.Threshold)), circuitbreaker.WithRecoverTime(rec)}
	if c.Mock {
		opts = append(opts, circuitbreaker.WithMockService(func(ctx context.Context, name string, args []interface{}) ([]interface{}, error) {
			return []interface{}{"mock"}, nil
		}))
	}
	cb := circuitbreaker.New(opts...)
	client := core.NewClient("verif://cb")
	var mu sync.Mutex
	invoked := 0
	var script string
	var slowDone chan error
	var lastFailLo, lastFailHi time.Time // the failure time stamp was taken inside [lo, hi]
	haveFail := false
	var nextReturn time.Time
	slowRelease := make(chan string) // the outcome the parked slow call is released with
	slowEntered := make(chan struct{}, 1)
	var slowReturn time.Time
	scripted := func(ctx context.Context, request []byte, next core.NextIOHandler) ([]byte, error) {
		mu.Lock()
		invoked++
		s := script
		mu.Unlock()
		if s == "slow" {
			// a call that overlaps the following ones: it stays below the breaker until the driver releases it
			mu.Lock()
			script = "ok"
			mu.Unlock()
			slowEntered <- struct{}{}
			o := <-slowRelease
			slowReturn = time.Now()
			if o == "ok" {
				return []byte(`Rs2"ok"z`), nil
			}
			return nil, errors.New("scripted-error")
		}
		defer func() { nextReturn = time.Now() }()
		switch s {
		case "ok":
			return []byte(`Rs2"ok"z`), nil
		case "err":
			return nil, errors.New("scripted-error")
		default:
			panic("scripted-panic")
		}
	}
	client.Use(cb, core.IOHandler(scripted))
	Watch(id, tr.Rec{"threshold": c.Threshold}, c)
	t.Reset(id, tr.Rec{"threshold": c.Threshold, "mock": c.Mock, "recovery": c.Recovery, "input": c})
	for _, op := range c.Ops {
		if op == "wait" {
			time.Sleep(c20RealRecovery + 25*time.Millisecond)
			continue
		}
		if op == "half" { // a wait that does not reach the recovery time by itself
			time.Sleep(c20RealRecovery * 6 / 10)
			continue
		}
		if op == "slowB" {
			// start the overlapping call; the breaker must be closed here (the scripts see to it)
			mu.Lock()
			script = "slow"
			before := invoked
			mu.Unlock()
			slowDone = make(chan error, 1)
			go func() {
				_, err := client.Invoke("f", nil)
				slowDone <- err
			}()
			select {
			case <-slowEntered:
			case <-time.After(2 * time.Second):
			}
			mu.Lock()
			fwd := invoked > before
			mu.Unlock()
			t.Emit(tr.Rec{"ev": "slowB", "fwd": fwd})
			continue
		}
		if op == "slowE:err" || op == "slowE:ok" {
			o := op[6:]
			t0 := time.Now()
			slowRelease <- o
			err := <-slowDone
			t1 := time.Now()
			_ = t0
			if o == "err" {
				lastFailLo, lastFailHi, haveFail = slowReturn, t1, true
			}
			res := "ok"
			if err != nil {
				res = "err"
			}
			t.Emit(tr.Rec{"ev": "slowE", "o": o, "res": res})
			continue
		}
		mu.Lock()
		script = op
		before := invoked
		mu.Unlock()
		start := time.Now()
		var res []interface{}
		var err error
		func() {
			defer func() {
				if e := recover(); e != nil {
					err = fmt.Errorf("ESCAPED-PANIC %v", e)
				}
			}()
			res, err = client.Invoke("f", nil)
		}()
		end := time.Now()
		mu.Lock()
		fwd := invoked > before
		cnt := invoked - before
		mu.Unlock()
		// has the recovery time elapsed since the last failure, as the breaker may have seen it?
		el := "no"
		if haveFail {
			lo := start.Sub(lastFailHi) // smallest possible interval
			hi := end.Sub(lastFailLo)   // largest possible interval
			switch {
			case lo >= rec:
				el = "yes"
			case hi < rec:
				el = "no"
			default:
				el = "maybe"
			}
		}
		out := "?"
		switch {
		case err == nil && len(res) == 1 && res[0] == "ok":
			out = "ok"
		case err == nil && len(res) == 1 && res[0] == "mock":
			out = "mock"
		case err == circuitbreaker.ErrBreaker:
			out = "break"
		case err != nil && err.Error() == "scripted-error":
			out = "err"
		case err != nil && err.Error() == "scripted-panic":
			out = "panic"
		case err != nil:
			out = "other:" + err.Error()
		}
		if fwd && op != "ok" {
			lastFailLo, lastFailHi, haveFail = nextReturn, end, true
		}
		t.Emit(tr.Rec{"ev": "call", "o": op, "el": el, "fwd": fwd, "res": out, "count": cnt})
	}
}

// c20Burst: concurrent callers. Rounds of threshold+1 forwarded calls that fail at the same instant (a
// barrier below the breaker releases them together) on a fresh breaker, then a probe call: more than
// threshold consecutive failures have happened, the recovery time (1 h) has not passed, so the probe
// must be refused without reaching the downstream handler. The first rounds and every round in which
// the probe got through are written out as cases of their own (slowB x n, slowE x n, call); the total
// is one more case.
func c20Burst(t *tr.Writer, id *int, c c20Case) (rounds, leaks int) {
	n := c.Threshold + 1
	written := 0
	for r := 0; r < c.Burst; r++ {
		cb := circuitbreaker.New(circuitbreaker.WithThreshold(uint64(c.Threshold)), circuitbreaker.WithRecoverTime(time.Hour))
		client := core.NewClient("verif://cb")
		var arrived, probes int32
		var phase int32 = 1
		client.Use(cb, core.IOHandler(func(ctx context.Context, request []byte, next core.NextIOHandler) ([]byte, error) {
			if atomic.LoadInt32(&phase) == 2 {
				atomic.AddInt32(&probes, 1)
				return []byte(`Rs2"ok"z`), nil
			}
			atomic.AddInt32(&arrived, 1)
			for spin := 0; atomic.LoadInt32(&arrived) < int32(n); spin++ {
				if spin > 50000000 {
					break
				}
				if spin%64 == 63 {
					runtime.Gosched()
				}
			}
			return nil, errors.New("scripted-error")
		}))
		res := make([]string, n)
		var wg sync.WaitGroup
		for g := 0; g < n; g++ {
			wg.Add(1)
			go func(g int) {
				defer wg.Done()
				_, err := client.Invoke("f", nil)
				switch {
				case err == nil:
					res[g] = "ok"
				case err == circuitbreaker.ErrBreaker:
					res[g] = "break"
				case err.Error() == "scripted-error":
					res[g] = "err"
				default:
					res[g] = "other:" + err.Error()
				}
			}(g)
		}
		wg.Wait()
		atomic.StoreInt32(&phase, 2)
		pres, perr := client.Invoke("f", nil)
		out := "?"
		switch {
		case perr == circuitbreaker.ErrBreaker:
			out = "break"
		case perr == nil && len(pres) == 1 && pres[0] == "ok":
			out = "ok"
		case perr != nil:
			out = "other:" + perr.Error()
		}
		fwd := atomic.LoadInt32(&probes) > 0
		rounds++
		if fwd {
			leaks++
		}
		if r < 10 || (fwd && written < 15) {
			written++
			*id++
			cc := c
			cc.Burst = 1
			t.Reset(*id, tr.Rec{"threshold": c.Threshold, "mock": false, "recovery": "inf", "input": cc})
			for g := 0; g < n; g++ {
				t.Emit(tr.Rec{"ev": "slowB", "fwd": true})
			}
			for g := 0; g < n; g++ {
				t.Emit(tr.Rec{"ev": "slowE", "o": "err", "res": res[g]})
			}
			t.Emit(tr.Rec{"ev": "call", "o": "ok", "el": "no", "fwd": fwd, "res": out, "count": int(atomic.LoadInt32(&probes))})
		}
	}
	*id++
	t.Reset(*id, tr.Rec{"threshold": c.Threshold, "mock": false, "recovery": "inf", "input": c})
	t.Emit(tr.Rec{"ev": "burst", "rounds": rounds, "leaks": leaks})
	return
}

func runC20(a Args) tr.Summary {
	t := tr.New(a.Out)
	defer t.Close()
	var sum tr.Summary
	if a.Only != "" {
		var c c20Case
		if err := json.Unmarshal([]byte(a.Only), &c); err != nil {
			panic(err)
		}
		if c.Burst > 0 {
			one := 0
			c20Burst(t, &one, c)
		} else {
			c20Run(t, 1, c)
		}
		sum.Cases, sum.Events = t.Cases, t.Lines
		return sum
	}
	maxLen := 5
	if a.Tier == "thorough" {
		maxLen = 7
	}
	id := 0
	outs := []string{"ok", "err", "panic"}
	distinct := map[string]bool{}
	var gen func(prefix []string, n int, emit func([]string))
	gen = func(prefix []string, n int, emit func([]string)) {
		if len(prefix) == n {
			emit(append([]string(nil), prefix...))
			return
		}
		for _, o := range outs {
			gen(append(prefix, o), n, emit)
		}
	}
	for th := 0; th <= 3; th++ {
		for _, mock := range []bool{false, true} {
			for _, recv := range []string{"inf", "zero", "max"} {
				for n := 1; n <= maxLen; n++ {
					gen(nil, n, func(ops []string) {
						id++
						c := c20Case{th, mock, recv, 0, ops}
						c20Run(t, id, c)
						nf := 0
						for _, o := range ops {
							if o != "ok" {
								nf++
							}
						}
						if nf > 0 {
							distinct[fmt.Sprint(c)] = true
						}
						if id%4001 == 1 && len(sum.Samples) < 5 {
							sum.Samples = append(sum.Samples, c)
						}
					})
				}
			}
		}
	}
	// concurrent callers: failures at the same instant
	nBurst := 4000
	if a.Tier == "thorough" {
		nBurst = 40000
	}
	burstRounds := 0
	for th := 0; th <= 3; th++ {
		r, _ := c20Burst(t, &id, c20Case{Threshold: th, Recovery: "inf", Burst: nBurst})
		burstRounds += r
	}
	// real recovery time: seeded sequences with waits (bounded because every wait costs real time)
	rng := tr.NewRng(a.Seed)
	nReal := 12
	if a.Tier == "thorough" {
		nReal = 60
	}
	var wg sync.WaitGroup
	var idmu sync.Mutex
	sem := make(chan struct{}, 16)
	// scripted: calls inside the open period must not postpone the recovery (it runs from the last failure)
	var scripted [][]string
	for th := 0; th <= 2; th++ {
		open := []string{}
		for k := 0; k <= th; k++ {
			open = append(open, []string{"err", "panic"}[k%2])
		}
		scripted = append(scripted,
			append(append([]string{}, open...), "half", "ok", "half", "ok", "ok"),
			append(append([]string{}, open...), "half", "err", "half", "ok", "half", "ok", "wait", "ok"),
			append(append([]string{}, open...), "ok", "half", "ok", "ok", "half", "ok", "ok"))
	}
	// a call that overlaps: it starts while the breaker is closed, fails after the breaker has opened; the
	// recovery time runs from that last failure
	for th := 0; th <= 2; th++ {
		open := []string{"slowB"}
		for k := 0; k <= th; k++ {
			open = append(open, "err")
		}
		scripted = append(scripted,
			append(append([]string{}, open...), "half", "slowE:err", "half", "ok", "wait", "ok", "ok"),
			append(append([]string{}, open...), "half", "slowE:ok", "ok", "err"),
			append(append([]string{}, open...), "slowE:err", "half", "ok", "half", "ok", "ok"))
	}
	for i := 0; i < nReal+len(scripted); i++ {
		th := rng.Intn(3)
		mock := rng.Intn(2) == 0
		n := 6 + rng.Intn(6)
		ops := make([]string, n)
		for j := range ops {
			switch k := rng.Intn(12); {
			case k < 5:
				ops[j] = "err"
			case k < 6:
				ops[j] = "panic"
			case k < 8:
				ops[j] = "wait"
			case k < 10:
				ops[j] = "half"
			default:
				ops[j] = "ok"
			}
		}
		if i >= nReal {
			ops = scripted[i-nReal]
			th, mock = (i-nReal)/3%3, i%2 == 0
		}
		c := c20Case{th, mock, "real", 0, ops}
		idmu.Lock()
		id++
		myid := id
		idmu.Unlock()
		distinct[fmt.Sprint(c)] = true
		if len(sum.Samples) < 7 {
			sum.Samples = append(sum.Samples, c)
		}
		// cases with real waits run concurrently, each into its own buffer, to keep wall time low
		wg.Add(1)
		sem <- struct{}{}
		go func() {
			defer wg.Done()
			defer func() { <-sem }()
			sub := tr.New(fmt.Sprintf("%s.real%d", a.Out, myid))
			c20Run(sub, myid, c)
			sub.Close()
		}()
	}
	wg.Wait()
	t.Close()
	// append the per-case files
	appendFiles(a.Out, id-nReal+1, id)
	sum.Cases = id
	sum.Nontrivial = len(distinct)
	sum.Events = t.Lines
	sum.Extra = tr.Rec{"max_len": maxLen, "real_time_cases": nReal}
	return sum
}
