// vh — the verification harness driver. One sub-command per property family; each runs the real
// hprose-golang code (built from $VERIF_REPO with -tags verif) and writes an ndjson trace that the
// TLA+ trace specifications under /verif/spec judge. Drivers contain no oracle for the property
// beyond direct observations of crashes and hangs.
package main

import (
	"encoding/json"
	"flag"
	"fmt"
	"os"

	"verif/harness/tr"
)

// Args common to all drivers.
type Args struct {
	Tier   string
	Seed   int64
	Out    string
	Only   string // JSON descriptor of a single case to run (replay)
	Extra  string
}

var drivers = map[string]func(a Args) tr.Summary{}

func main() {
	if len(os.Args) < 2 {
		fmt.Fprintln(os.Stderr, "usage: vh <driver> [flags]")
		os.Exit(2)
	}
	name := os.Args[1]
	fs := flag.NewFlagSet(name, flag.ExitOnError)
	var a Args
	fs.StringVar(&a.Tier, "tier", "quick", "quick|thorough")
	fs.Int64Var(&a.Seed, "seed", 1, "seed")
	fs.StringVar(&a.Out, "out", "trace.ndjson", "trace output")
	fs.StringVar(&a.Only, "only", "", "JSON descriptor of one case (replay)")
	fs.StringVar(&a.Extra, "extra", "", "driver specific")
	fs.Parse(os.Args[2:])
	d, ok := drivers[name]
	if !ok {
		fmt.Fprintln(os.Stderr, "unknown driver", name)
		os.Exit(2)
	}
	s := d(a)
	b, _ := json.Marshal(s)
	fmt.Println("SUMMARY " + string(b))
}
