// vh — the verification harness driver. One sub-command per property family; each runs the real
// hprose-golang code (built from $VERIF_REPO with -tags verif) and writes an ndjson trace that the
// TLA+ trace specifications under /verif/spec judge. Drivers contain no oracle for the property
// beyond direct observations of crashes and hangs.
package main

import (
	"encoding/json"
	"flag"
	"fmt"
	"os"
	"sync"
	"time"

	"verif/harness/tr"
)

// Args common to all drivers.
type Args struct {
	Tier  string
	Seed  int64
	Out   string
	Only  string // JSON descriptor of a single case to run (replay)
	Extra string
}

var drivers = map[string]func(a Args) tr.Summary{}

// ---- per-case watchdog: a case of a sequential driver that makes no progress for caseTimeout is
// reported as a direct observation (the real code hung) and the driver stops there ----

var (
	wdMu      sync.Mutex
	wdCase    int
	wdInput   interface{}
	wdSig     tr.Rec
	wdTouched time.Time
	wdOn      bool
)

const caseTimeout = 45 * time.Second

// Watch marks the start of a case (or progress inside one).
var wdCur *os.File

func Watch(id int, sig tr.Rec, input interface{}) {
	wdMu.Lock()
	wdCase, wdInput, wdSig, wdTouched = id, input, sig, time.Now()
	// the case that is running, for whoever finds this process dead (a fatal error of the code under test)
	if path := os.Getenv("VH_CURRENT"); path != "" {
		if wdCur == nil {
			wdCur, _ = os.Create(path)
		}
		if wdCur != nil {
			b, _ := json.Marshal(tr.Rec{"case": id, "sig": sig, "input": input})
			wdCur.Truncate(0)
			wdCur.WriteAt(b, 0)
		}
	}
	if !wdOn {
		wdOn = true
		go func() {
			for {
				time.Sleep(time.Second)
				wdMu.Lock()
				stuck := time.Since(wdTouched) > caseTimeout
				id, in, sg := wdCase, wdInput, wdSig
				wdMu.Unlock()
				if stuck {
					sig := tr.Rec{"oracle": "hang"}
					for k, v := range sg {
						sig[k] = v
					}
					s := tr.Summary{Cases: id, Direct: []tr.Rec{{"sig": sig, "input": in, "driver": os.Args[1],
						"what": fmt.Sprintf("case %d made no progress for %s: the code under test hangs", id, caseTimeout)}},
						Extra: tr.Rec{"aborted": true}}
					b, _ := json.Marshal(s)
					fmt.Println("SUMMARY " + string(b))
					os.Exit(0)
				}
			}
		}()
	}
	wdMu.Unlock()
}

func main() {
	if len(os.Args) < 2 {
		fmt.Fprintln(os.Stderr, "usage: vh <driver> [flags]")
		os.Exit(2)
	}
	name := os.Args[1]
	fs := flag.NewFlagSet(name, flag.ExitOnError)
	var a Args
	fs.StringVar(&a.Tier, "tier", "quick", "quick|thorough")
	fs.Int64Var(&a.Seed, "seed", 1, "seed")
	fs.StringVar(&a.Out, "out", "trace.ndjson", "trace output")
	fs.StringVar(&a.Only, "only", "", "JSON descriptor of one case (replay)")
	fs.StringVar(&a.Extra, "extra", "", "driver specific")
	fs.Parse(os.Args[2:])
	d, ok := drivers[name]
	if !ok {
		fmt.Fprintln(os.Stderr, "unknown driver", name)
		os.Exit(2)
	}
	s := d(a)
	b, _ := json.Marshal(s)
	fmt.Println("SUMMARY " + string(b))
}
