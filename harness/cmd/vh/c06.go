package main

import (
	"encoding/hex"
	"encoding/json"
	"fmt"
	"math"
	"math/big"
	"reflect"
	"strconv"
	"strings"
	"time"

	"github.com/google/uuid"
	hio "github.com/hprose/hprose-golang/v3/io"

	"verif/harness/fmtx"
	"verif/harness/gen"
	"verif/harness/tr"
)

// C06: the decoder accepts every well-formed stream and converts losslessly or refuses. Streams
// are written by the harness (spellings the encoder never emits included); each token form is
// decoded into every destination type at every position (top level, Decoder.Read, struct field,
// pointer field, slice element, map value, behind one and two pointers). A cell (form,
// destination) is one case; its events are the positions. HproseFormat!C06 (TLA+) parses the form,
// derives what the destination must hold (or that it must be refused) from the conversion matrix,
// and requires the same outcome at every position.

func init() { drivers["c06"] = runC06 }

type c06Form struct {
	Name string
	Body string // the value's bytes; "%R<k>;" marks a reference to the k-th referable item of the form itself
	Refs int    // referable items inside the form before each reference is irrelevant: references are relative
}

func c06Forms() []c06Form {
	f := []c06Form{
		{"digit", "5", 0}, {"i-long-form-small", "i5;", 0}, {"i-neg", "i-7;", 0}, {"i-300", "i300;", 0}, {"i-maxint32", "i2147483647;", 0},
		{"l-small", "l5;", 0}, {"l-maxint64", "l9223372036854775807;", 0}, {"l-maxuint64", "l18446744073709551615;", 0},
		{"l-huge", "l123456789012345678901234567890;", 0}, {"i-70000", "i70000;", 0}, {"i-minint32", "i-2147483648;", 0}, {"i-128", "i128;", 0}, {"i-255", "i255;", 0}, {"i-256", "i256;", 0},
		{"d-1.5", "d1.5;", 0}, {"d-integral", "d5;", 0}, {"d-negzero", "d-0;", 0}, {"d-0.1", "d0.1;", 0}, {"d-300", "d300;", 0}, {"d-1e20", "d1e20;", 0},
		{"nan", "N", 0}, {"pinf", "I+", 0}, {"ninf", "I-", 0}, {"true", "t", 0}, {"false", "f", 0}, {"null", "n", 0}, {"empty", "e", 0},
		{"u-char", "ua", 0}, {"s-1-char", "s1\"a\"", 0}, {"s-0", "s0\"\"", 0}, {"s-ab", "s2\"ab\"", 0}, {"s-digits", "s3\"123\"", 0}, {"u-digit", "u7", 0},
		{"s-float", "s3\"1.5\"", 0}, {"s-true", "s4\"true\"", 0}, {"s-astral", "s3\"a\U0001F600\"", 0}, {"u-3byte", "u中", 0},
		{"s-guid", "s36\"01234567-89ab-cdef-0123-456789abcdef\"", 0}, {"s-bigdigits", "s20\"12345678901234567890\"", 0},
		{"b-ab", "b2\"ab\"", 0}, {"b-empty", "b\"\"", 0}, {"b-digits", "b3\"123\"", 0}, {"b-invalid-utf8", "b2\"\xff\xfe\"", 0},
		{"dt-utc", "D20210102T030405Z", 0}, {"d-only", "D20210102Z", 0}, {"t-only", "T030405Z", 0}, {"dt-ms-local", "D20210102T030405.123;", 0}, {"dt-ns", "D20210102T030405.123456789Z", 0},
		{"guid", "g{01234567-89ab-cdef-0123-456789abcdef}", 0},
		{"list-empty", "a{}", 0}, {"list-ints", "a2{12}", 0}, {"list-strs", "a2{uaub}", 0}, {"list-null", "a1{n}", 0}, {"list-mixed", "a2{1ua}", 0},
		{"list-str-ref", "a2{s5\"hello\"%R1;}", 0}, {"list-bytes-ref", "a2{b2\"ab\"%R1;}", 0}, {"list-self-ref-str", "a3{s2\"xy\"s2\"zw\"%R1;}", 0},
		{"list-of-lists", "a2{a2{12}a1{3}}", 0}, {"list-of-maps", "a2{m1{ua1}m2{ub2uc3}}", 0}, {"list-of-3-lists", "a3{a1{7}a{}a2{89}}", 0},
		{"list-bytes-list", "a2{b2\"ab\"a1{1}}", 0}, {"list-str-bytes", "a2{s2\"ab\"b2\"cd\"}", 0}, {"list-int-real", "a2{1d1.5;}", 0},
		{"list-lists-of-kinds", "a3{a1{1}a1{ua}a1{d1.5;}}", 0}, {"list-bytes-strs", "a2{b2\"ab\"a2{uaub}}", 0},
		{"list-list-map", "a2{a1{1}m1{ua1}}", 0}, {"list-maps", "a2{m1{ua1}m1{1ua}}", 0},
		{"map-empty", "m{}", 0}, {"map-str-int", "m1{ua1}", 0}, {"map-int-str", "m1{1ua}", 0}, {"map-two", "m2{ua1ub2}", 0},
		{"map-as-plain", "m2{ua1ubux}", 0}, {"map-as-plain-extra", "m3{ua1ubuxuzt}", 0},
		{"obj-plain", "c5\"Plain\"3{uaubuc}o0{1uxd1.5;}", 0},
		{"obj-plain-reordered", "c5\"Plain\"3{ucubua}o0{d1.5;ux1}", 0},
		{"obj-plain-missing", "c5\"Plain\"1{ub}o0{ux}", 0},
		{"obj-plain-extra", "c5\"Plain\"4{uaubucuz}o0{1uxd1.5;t}", 0},
		{"obj-unknown-class", "c7\"Unknown\"2{uaub}o0{1ux}", 0},
		{"obj-plain-long-names", "c5\"Plain\"3{s1\"a\"s1\"b\"s1\"c\"}o0{1uxd1.5;}", 0},
	}
	// the boundaries of every integer width, as integers and as digit strings
	for _, n := range []string{"-129", "-128", "127", "128", "255", "256", "-32769", "-32768", "32767", "32768", "65535", "65536",
		"-2147483649", "-2147483648", "2147483647", "2147483648", "4294967295", "4294967296",
		"-9223372036854775809", "-9223372036854775808", "9223372036854775807", "9223372036854775808",
		"18446744073709551615", "18446744073709551616"} {
		tag := "l"
		if v, err := strconv.ParseInt(n, 10, 64); err == nil && v >= math.MinInt32 && v <= math.MaxInt32 {
			tag = "i"
		}
		f = append(f, c06Form{"n" + n, tag + n + ";", 0}, c06Form{"s" + n, fmt.Sprintf("s%d\"%s\"", len(n), n), 0})
	}
	return f
}

type c06Dest struct {
	Name string
	T    reflect.Type
}

func c06Dests() []c06Dest {
	var d []c06Dest
	add := func(n string, v interface{}) { d = append(d, c06Dest{n, reflect.TypeOf(v)}) }
	add("bool", false)
	add("int8", int8(0))
	add("int16", int16(0))
	add("int32", int32(0))
	add("int64", int64(0))
	add("int", int(0))
	add("uint8", uint8(0))
	add("uint16", uint16(0))
	add("uint32", uint32(0))
	add("uint64", uint64(0))
	add("uint", uint(0))
	add("float32", float32(0))
	add("float64", float64(0))
	add("complex128", complex128(0))
	add("string", "")
	add("bytes", []byte(nil))
	add("bigint", (*big.Int)(nil))
	add("bigfloat", (*big.Float)(nil))
	add("bigrat", (*big.Rat)(nil))
	add("time", time.Time{})
	add("guid", uuid.UUID{})
	d = append(d, c06Dest{"iface", reflect.TypeOf((*interface{})(nil)).Elem()})
	// interface{} with the non-default container settings ListTypeSlice and StructTypeValue
	d = append(d, c06Dest{"iface_opts", reflect.TypeOf((*interface{})(nil)).Elem()})
	add("slice_int", []int(nil))
	add("slice_string", []string(nil))
	add("slice_iface", []interface{}(nil))
	add("array2_int", [2]int{})
	add("map_string_int", map[string]int(nil))
	add("map_string_iface", map[string]interface{}(nil))
	add("map_int_slice_int", map[int][]int(nil))
	add("map_int_map_string_int", map[int]map[string]int(nil))
	add("plain", gen.Plain{})
	add("ptr_plain", (*gen.Plain)(nil))
	add("myint", gen.MyInt(0))
	add("mystring", gen.MyString(""))
	return d
}

var c06Positions = []string{"top", "read", "field", "ptrfield", "elem", "mapval", "ptr", "ptrptr", "viaref", "manyreader", "longlist", "thenref"}

// position longlist: this many copies in one list - more than the decoder pre-allocates (4096) and not a
// power-of-two multiple of it, so the slice grows in steps and has to end at exactly this length
const c06Long = 4100

const c06Many = 40 // position manyreader: this many copies of the form in one list, read through a reader in small pieces

// c06Referable: the form is one reference-counted item that can be the target of a later reference
// (position viaref: the form is first read into an interface{}, then a reference to it into the
// destination)
func c06Referable(body string) bool {
	if strings.Contains(body, "%R") || body == "" {
		return false
	}
	// only references to strings: the property names them; a reference to any other kind of item is
	// resolved to the Go object already decoded and converted by other rules than the wire token
	return body[0] == 's' && body != "s0\"\""
}

// c06Slots: how many places in the reference table a form takes: 1 for a single string, binary, date, time or
// guid token, 0 for a scalar, -1 for anything else (containers, objects, forms with references: not used at
// the position thenref)
func c06Slots(body string) int {
	if body == "" || strings.Contains(body, "%R") {
		return -1
	}
	switch body[0] {
	case 's', 'b', 'D', 'T', 'g':
		if strings.ContainsAny(body[1:], "{") && body[0] != 'g' {
			return -1
		}
		return 1
	case 'a', 'm', 'c', 'o', 'r':
		return -1
	}
	return 0
}

// c06Render places the form's bytes at a position; refBase is the number of referable items the
// wrapper contributes before the form, so that relative references stay correct
func c06Render(body string, pos string) []byte {
	base := 0
	pre, post := "", ""
	switch pos {
	case "field", "ptrfield":
		pre, post, base = "m1{uf", "}", 1
	case "elem":
		pre, post, base = "a1{", "}", 1
	case "mapval":
		pre, post, base = "m1{ua", "}", 1
	case "viaref":
		// the map is item 0, the form item 1
		pre, post, base = "m2{ua", "ubr1;}", 1
	case "thenref":
		// the form in a field, then a string, then a reference to that string: whatever the destination makes of
		// the form, it takes the place in the reference table its token has (the map is item 0)
		k := 1
		if c06Slots(body) == 1 {
			k = 2
		}
		return []byte(fmt.Sprintf("m3{uf%sugs2\"xy\"uhr%d;}", body, k))
	case "manyreader":
		return []byte(fmt.Sprintf("a%d{%s}", c06Many, strings.Repeat(body, c06Many)))
	case "longlist":
		return []byte(fmt.Sprintf("a%d{%s}", c06Long, strings.Repeat(body, c06Long)))
	}
	out := body
	for k := 1; k <= 3; k++ {
		// "%R1;" = reference to the first referable item inside the form's own list (the list itself is item 0)
		out = strings.ReplaceAll(out, fmt.Sprintf("%%R%d;", k), fmt.Sprintf("r%d;", base+k))
	}
	return []byte(pre + out + post)
}

type canary struct {
	A uint64
	X interface{}
	B uint64
}

func c06Facts(toks []fmtx.Tok) tr.Rec {
	facts := tr.Rec{"fits": tr.Rec{}, "isint": false, "integral": false, "dec": "", "f32exact": false, "f64exact": false,
		"f32bits": "", "f64bits": "", "isguid": false, "validutf8": true, "text": "", "dechex": ""}
	if len(toks) != 1 {
		return facts
	}
	t := toks[0]
	setInt := func(n *big.Int) {
		facts["isint"] = true
		facts["dec"] = n.String()
		facts["dechex"] = hex.EncodeToString([]byte(n.String()))
		fits := tr.Rec{}
		for name, r := range map[string][2]string{
			"int8": {"-128", "127"}, "int16": {"-32768", "32767"}, "int32": {"-2147483648", "2147483647"},
			"int64": {"-9223372036854775808", "9223372036854775807"}, "int": {"-9223372036854775808", "9223372036854775807"},
			"myint": {"-9223372036854775808", "9223372036854775807"},
			"uint8": {"0", "255"}, "uint16": {"0", "65535"}, "uint32": {"0", "4294967295"}, "uint64": {"0", "18446744073709551615"}, "uint": {"0", "18446744073709551615"}} {
			lo, _ := new(big.Int).SetString(r[0], 10)
			hi, _ := new(big.Int).SetString(r[1], 10)
			fits[name] = n.Cmp(lo) >= 0 && n.Cmp(hi) <= 0
		}
		facts["fits"] = fits
		f := new(big.Float).SetPrec(2000).SetInt(n)
		f64, acc := f.Float64()
		facts["f64exact"] = acc == big.Exact
		facts["f64bits"] = fmt.Sprintf("%016x", math.Float64bits(f64))
		f32, acc32 := f.Float32()
		facts["f32exact"] = acc32 == big.Exact
		facts["f32bits"] = fmt.Sprintf("%08x", math.Float32bits(f32))
	}
	switch t.T {
	case "int":
		n, _ := new(big.Int).SetString(t.V, 10)
		setInt(n)
	case "real":
		if t.Cls == "fin" {
			f, _ := strconv.ParseFloat(t.V, 64)
			facts["f64bits"] = t.B64
			facts["f32bits"] = t.B32
			facts["f64exact"] = true
			facts["f32exact"] = float64(float32(f)) == f
			if f == math.Trunc(f) && math.Abs(f) < 1e30 {
				n, _ := new(big.Float).SetFloat64(f).Int(nil)
				setInt(n)
				facts["isint"] = false
				facts["integral"] = true
			}
		}
	case "str", "char", "empty":
		b, _ := hex.DecodeString(t.S)
		s := string(b)
		facts["text"] = s
		if n, ok := new(big.Int).SetString(s, 10); ok && s != "" && s[0] != '+' {
			setInt(n)
		}
		if _, err := uuid.Parse(s); err == nil && len(s) == 36 {
			facts["isguid"] = true
		}
	case "bytes":
		b, _ := hex.DecodeString(t.S)
		facts["validutf8"] = fmtxValid(b)
	}
	return facts
}

func fmtxValid(b []byte) bool {
	return strings.ToValidUTF8(string(b), "�") == string(b) && !strings.Contains(string(b), "�")
}

func c06One(t *tr.Writer, form c06Form, dest c06Dest, pos string) {
	b := c06Render(form.Body, pos)
	var target reflect.Type
	switch pos {
	case "top", "read":
		target = dest.T
	case "field":
		target = reflect.StructOf([]reflect.StructField{{Name: "F", Type: dest.T}})
	case "ptrfield":
		target = reflect.StructOf([]reflect.StructField{{Name: "F", Type: reflect.PtrTo(dest.T)}})
	case "elem":
		target = reflect.SliceOf(dest.T)
	case "mapval":
		target = reflect.MapOf(reflect.TypeOf(""), dest.T)
	case "ptr":
		target = reflect.PtrTo(dest.T)
	case "ptrptr":
		target = reflect.PtrTo(reflect.PtrTo(dest.T))
	case "manyreader", "longlist":
		// (forms with references or class definitions cannot simply be repeated)
		if strings.Contains(form.Body, "%R") || strings.Contains(form.Body, "c") && strings.Contains(form.Body, "o0{") {
			return
		}
		target = reflect.SliceOf(dest.T)
	case "thenref":
		if c06Slots(form.Body) < 0 {
			return
		}
		target = reflect.StructOf([]reflect.StructField{{Name: "F", Type: dest.T}, {Name: "G", Type: reflect.TypeOf("")}, {Name: "H", Type: reflect.TypeOf("")}})
	case "viaref":
		if !c06Referable(form.Body) {
			return
		}
		target = reflect.StructOf([]reflect.StructField{{Name: "A", Type: reflect.TypeOf((*interface{})(nil)).Elem()}, {Name: "B", Type: dest.T}})
	}
	// a canary struct around the destination: decoding must not write outside it
	ct := reflect.StructOf([]reflect.StructField{{Name: "A", Type: reflect.TypeOf(uint64(0))}, {Name: "X", Type: target}, {Name: "B", Type: reflect.TypeOf(uint64(0))}})
	c := reflect.New(ct).Elem()
	c.Field(0).SetUint(0xDEADBEEFCAFEF00D)
	c.Field(2).SetUint(0x0123456789ABCDEF)
	errs, panicked := "none", "none"
	var got reflect.Value
	func() {
		defer func() {
			if p := recover(); p != nil {
				panicked = fmt.Sprint(p)
			}
		}()
		dec := hio.NewDecoder(b).Simple(false)
		if pos == "manyreader" {
			plan := []int{}
			for x := 0; x < len(b); x += 7 {
				plan = append(plan, 7)
			}
			dec = hio.NewDecoderFromReader(&chunkReader{b: b, plan: plan}).Simple(false)
		}
		if dest.Name == "iface_opts" {
			dec.ListType, dec.StructType = hio.ListTypeSlice, hio.StructTypeValue
		}
		if pos == "read" {
			r := dec.Read(dest.T)
			x := reflect.New(reflect.TypeOf((*interface{})(nil)).Elem()).Elem()
			if r != nil {
				x.Set(reflect.ValueOf(r))
			}
			got = x
		} else {
			dec.Decode(c.Field(1).Addr().Interface())
		}
		if dec.Error != nil {
			errs = dec.Error.Error()
		}
	}()
	canaryOK := c.Field(0).Uint() == 0xDEADBEEFCAFEF00D && c.Field(2).Uint() == 0x0123456789ABCDEF
	thenrefFault := ""
	// dig the destination value out of its position
	if pos != "read" {
		got = c.Field(1)
		switch pos {
		case "field":
			got = got.Field(0)
		case "thenref":
			if errs == "none" && panicked == "none" && got.Field(2).String() != "xy" {
				thenrefFault = fmt.Sprintf("the reference after the form resolved to %q instead of \"xy\"", got.Field(2).String())
			}
			got = got.Field(0)
		case "viaref":
			got = got.Field(1)
		case "ptrfield":
			got = got.Field(0)
		case "elem":
			if got.Len() == 1 {
				got = got.Index(0)
			} else {
				got = reflect.Value{}
			}
		case "longlist":
			// exactly c06Long elements, and the ones around the growth steps like the first
			if got.Len() == c06Long {
				first := fmt.Sprintf("%#v", fmtx.AbsValue(got.Index(0)))
				pick := got.Index(0)
				for _, i := range []int{1, 4094, 4095, 4096, 4097, c06Long - 1} {
					if fmt.Sprintf("%#v", fmtx.AbsValue(got.Index(i))) != first {
						pick = got.Index(i)
						break
					}
				}
				got = pick
			} else if errs == "none" {
				got = reflect.Value{}
			}
		case "manyreader":
			// all copies must have come out alike: the first that differs from the first, else the first
			if got.Len() == c06Many {
				first := fmt.Sprintf("%#v", fmtx.AbsValue(got.Index(0)))
				pick := got.Index(0)
				for i := 1; i < c06Many; i++ {
					if fmt.Sprintf("%#v", fmtx.AbsValue(got.Index(i))) != first {
						pick = got.Index(i)
						break
					}
				}
				got = pick
			} else if errs == "none" {
				got = reflect.Value{}
			}
		case "mapval":
			if got.Len() == 1 {
				got = got.MapIndex(reflect.ValueOf("a"))
			} else {
				got = reflect.Value{}
			}
		}
	}
	out, fault := fmtx.Graph{Nodes: []fmtx.AV{}, Root: fmtx.AV{"k": "absent"}}, "none"
	if got.IsValid() && panicked == "none" {
		out, fault = safeAbs(got)
	}
	if fault == "none" && thenrefFault != "" {
		fault = thenrefFault
	}
	t.Emit(tr.Rec{"ev": "pos", "pos": pos, "err": errs, "panic": panicked, "out": out, "fault": fault, "canary": canaryOK})
}

func runC06(a Args) tr.Summary {
	t := tr.New(a.Out)
	defer t.Close()
	var sum tr.Summary
	forms, dests := c06Forms(), c06Dests()
	id := 0
	type only struct{ Form, Dest string }
	var o only
	if a.Only != "" {
		if err := json.Unmarshal([]byte(a.Only), &o); err != nil {
			panic(err)
		}
	}
	for _, f := range forms {
		toks := fmtx.Lex(c06Render(f.Body, "top"))
		facts := c06Facts(toks)
		for _, d := range dests {
			if a.Only != "" && (o.Form != f.Name || o.Dest != d.Name) {
				continue
			}
			id++
			Watch(id, tr.Rec{"form": f.Name, "dest": d.Name}, only{f.Name, d.Name})
			t.Reset(id, tr.Rec{"form": f.Name, "dest": d.Name, "toks": toks, "facts": facts, "bytes": f.Body, "input": only{f.Name, d.Name}})
			for _, pos := range c06Positions {
				c06One(t, f, d, pos)
			}
			if id%331 == 7 && len(sum.Samples) < 5 {
				sum.Samples = append(sum.Samples, tr.Rec{"form": f.Name, "bytes": f.Body, "dest": d.Name, "positions": c06Positions})
			}
		}
	}
	sum.Cases = id
	sum.Events = t.Lines
	sum.Nontrivial = id
	sum.Extra = tr.Rec{"forms": len(forms), "destinations": len(dests), "positions": len(c06Positions), "exhaustive": true}
	return sum
}
