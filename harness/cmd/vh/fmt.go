package main

import (
	"bytes"
	"encoding/hex"
	"encoding/json"
	"fmt"
	"reflect"
	"runtime/debug"
	"strings"
	"time"

	hio "github.com/hprose/hprose-golang/v3/io"

	"verif/harness/fmtx"
	"verif/harness/gen"
	"verif/harness/tr"
)

// C01 / C03: the typed round trip over the type x value space. For every (type shape, value,
// mode) the real encoder's bytes are lexed by the harness's own lexer, the bytes are decoded into a
// fresh variable of the same type, and the input, the token stream and the decoded value are
// written as one self-contained record. The HproseFormat specification (TLA+) parses the tokens,
// checks that they are one well-formed value that denotes the input (C03) and that the decoded
// value equals the input up to the format's normalisations (C01).

func init() {
	drivers["c01"] = func(a Args) tr.Summary { return runFmt(a, "c01") }
	drivers["c03"] = func(a Args) tr.Summary { return runFmt(a, "c03") }
}

type fmtCase struct {
	Shape string `json:"shape"`
	Class string `json:"class"`
	Mode  string `json:"mode"` // simple | ref
	Index int    `json:"index"`
}

func safeMarshal(v interface{}, simple bool) (b []byte, errs string, panicked string) {
	defer func() {
		if p := recover(); p != nil {
			panicked = fmt.Sprint(p)
		}
	}()
	bb, err := hio.Formatter{Simple: simple}.Marshal(v)
	if err != nil {
		errs = err.Error()
	}
	return bb, errs, ""
}

func safeUnmarshal(b []byte, p interface{}, f hio.Formatter) (errs string, panicked string) {
	defer func() {
		if r := recover(); r != nil {
			panicked = fmt.Sprint(r)
		}
	}()
	if err := f.Unmarshal(b, p); err != nil {
		errs = err.Error()
	}
	return
}

// safeAbs projects a decoded value; a decoder that has written through a wrong type can leave wild
// pointers behind, so faults are turned into panics and reported as such
func safeAbs(v reflect.Value) (g fmtx.Graph, fault string) {
	old := debug.SetPanicOnFault(true)
	defer debug.SetPanicOnFault(old)
	defer func() {
		if p := recover(); p != nil {
			g = fmtx.Graph{Nodes: []fmtx.AV{}, Root: fmtx.AV{"k": "corrupt"}}
			fault = fmt.Sprint(p)
		}
	}()
	return fmtx.AbsValue(v), "none"
}

func none(s string) string {
	if s == "" {
		return "none"
	}
	return s
}

// failedEncode emits the record of a case whose encoding took the (child) process down: msg is the fatal
// error, "" when the child encoded the value after all (then the case is run here like any other).
func failedEncode(t *tr.Writer, id int, g gen.Gen, v gen.Val, mode string, extra tr.Rec, msg string) {
	if msg == "" {
		roundTrip(t, id, g, v, mode, extra)
		return
	}
	rec := tr.Rec{"ev": "one", "case": id, "kind": "rt", "shape": g.Name, "class": v.Class, "mode": mode, "leaf": g.Leaf,
		"encerr": "none", "encpanic": msg, "in": fmtx.AbsValue(v.V), "nvals": 1, "errmsg": "none", "haserr": false, "unwritable": false,
		"toks": []fmtx.Tok{}, "ntoks": 0, "decerr": "none", "decpanic": "none",
		"out": fmtx.Graph{Nodes: []fmtx.AV{}, Root: fmtx.AV{"k": "nil"}}, "outfault": "none"}
	for k, x := range extra {
		rec[k] = x
	}
	t.Emit(rec)
}

// hasUnwritable: the value holds something the format has no form for (a time whose year is outside 0..9999)
func hasUnwritable(v reflect.Value, depth int) bool {
	if !v.IsValid() || depth > 6 {
		return false
	}
	if v.Type() == reflect.TypeOf(time.Time{}) {
		y := v.Interface().(time.Time).Year()
		return y < 0 || y > 9999
	}
	switch v.Kind() {
	case reflect.Ptr, reflect.Interface:
		return !v.IsNil() && hasUnwritable(v.Elem(), depth+1)
	case reflect.Slice, reflect.Array:
		for i := 0; i < v.Len() && i < 64; i++ {
			if hasUnwritable(v.Index(i), depth+1) {
				return true
			}
		}
	case reflect.Map:
		for _, k := range v.MapKeys() {
			if hasUnwritable(k, depth+1) || hasUnwritable(v.MapIndex(k), depth+1) {
				return true
			}
		}
	case reflect.Struct:
		for i := 0; i < v.NumField(); i++ {
			if v.Type().Field(i).PkgPath == "" && hasUnwritable(v.Field(i), depth+1) {
				return true
			}
		}
	}
	return false
}

// roundTrip runs one case and emits its record.
func roundTrip(t *tr.Writer, id int, g gen.Gen, v gen.Val, mode string, extra tr.Rec) {
	simple := mode == "simple"
	b, encErr, encPanic := safeMarshal(v.V.Interface(), simple)
	rec := tr.Rec{"ev": "one", "case": id, "kind": "rt", "shape": g.Name, "class": v.Class, "mode": mode, "leaf": g.Leaf,
		"encerr": none(encErr), "encpanic": none(encPanic), "in": fmtx.AbsValue(v.V), "nvals": 1, "errmsg": "none"}
	rec["haserr"] = containsErr(rec["in"].(fmtx.Graph))
	rec["unwritable"] = hasUnwritable(v.V, 0)
	if in := rec["in"].(fmtx.Graph); in.Root["k"] == "error" {
		if b, err := hex.DecodeString(in.Root["s"].(string)); err == nil {
			rec["errmsg"] = string(b)
		}
	}
	for k, x := range extra {
		rec[k] = x
	}
	if encPanic == "" && encErr == "" {
		toks := fmtx.Lex(b)
		rec["toks"] = toks
		rec["ntoks"] = len(toks)
		out := reflect.New(g.T)
		decErr, decPanic := safeUnmarshal(b, out.Interface(), hio.Formatter{Simple: simple})
		rec["decerr"] = none(decErr)
		rec["decpanic"] = none(decPanic)
		rec["out"], rec["outfault"] = safeAbs(out.Elem())
		if rec["outfault"] == "none" && decPanic == "" {
			rec["itypes"] = ifaceTypes(v.V, out.Elem())
		}
		if len(b) <= 200 {
			rec["bytes"] = string(b)
		}
	} else {
		rec["toks"] = []fmtx.Tok{}
		rec["ntoks"] = 0
		rec["decerr"] = "none"
		rec["decpanic"] = "none"
		rec["out"] = fmtx.Graph{Nodes: []fmtx.AV{}, Root: fmtx.AV{"k": "nil"}}
		rec["outfault"] = "none"
	}
	t.Emit(rec)
}

// ifaceTypes lists, for the interface{} positions of the original that hold a value of the type the
// decoder's defaults give back for its tag, the dynamic type found at the same place of the decoded value
// (the projection used for the value comparison makes pointers transparent, so it cannot tell *T from T)
func ifaceTypes(a, b reflect.Value) (out []tr.Rec) {
	out = []tr.Rec{}
	defer func() { _ = recover() }()
	budget := 400
	seen := map[uintptr]bool{}
	canonical := func(t reflect.Type) bool {
		switch t.Kind() {
		case reflect.Ptr:
			// a struct type registered under its name: an object of that class in an interface{} is a *T
			return t.Elem().Kind() == reflect.Struct && t.Elem().Name() != "" && hio.GetStructType(t.Elem().Name()) == t.Elem()
		case reflect.Int, reflect.Float64:
			return t.PkgPath() == ""
		}
		return t == reflect.TypeOf([]interface{}(nil)) || t == reflect.TypeOf(map[interface{}]interface{}(nil))
	}
	var walk func(a, b reflect.Value, path string)
	walk = func(a, b reflect.Value, path string) {
		if budget--; budget < 0 || !a.IsValid() || !b.IsValid() {
			return
		}
		if a.Kind() == reflect.Interface {
			if a.IsNil() {
				return
			}
			bd := b
			for bd.Kind() == reflect.Interface {
				if bd.IsNil() {
					return
				}
				bd = bd.Elem()
			}
			ad := a.Elem()
			if canonical(ad.Type()) && !(ad.Kind() == reflect.Ptr && ad.IsNil()) {
				out = append(out, tr.Rec{"path": path, "want": ad.Type().String(), "got": bd.Type().String()})
			}
			walk(ad, bd, path)
			return
		}
		for a.Kind() == reflect.Ptr {
			if a.IsNil() || seen[a.Pointer()] {
				return
			}
			seen[a.Pointer()] = true
			a = a.Elem()
		}
		for b.Kind() == reflect.Ptr || b.Kind() == reflect.Interface {
			if b.IsNil() {
				return
			}
			b = b.Elem()
		}
		switch a.Kind() {
		case reflect.Struct:
			if b.Kind() != reflect.Struct || a.Type() != b.Type() {
				return
			}
			for i := 0; i < a.NumField(); i++ {
				if a.Type().Field(i).PkgPath == "" {
					walk(a.Field(i), b.Field(i), path+"."+a.Type().Field(i).Name)
				}
			}
		case reflect.Slice, reflect.Array:
			if b.Kind() != reflect.Slice && b.Kind() != reflect.Array {
				return
			}
			for i := 0; i < a.Len() && i < b.Len() && i < 6; i++ {
				walk(a.Index(i), b.Index(i), fmt.Sprintf("%s[%d]", path, i))
			}
		case reflect.Map:
			if b.Kind() != reflect.Map || a.Type().Key() != b.Type().Key() || !a.Type().Key().Comparable() || a.Type().Key().Kind() == reflect.Interface {
				return
			}
			for i, k := range a.MapKeys() {
				if i >= 6 {
					break
				}
				walk(a.MapIndex(k), b.MapIndex(k), fmt.Sprintf("%s{%v}", path, k))
			}
		}
	}
	walk(a, b, "")
	return out
}

// fmtSpace builds the generators of a tier.
func fmtSpace(tier string) []gen.Gen {
	leaves := gen.Leaves()
	var gs []gen.Gen
	gs = append(gs, leaves...)
	gs = append(gs, gen.Fixed()...)
	// years the date's four digits cannot hold: to be refused with an error (a generator of their own - the
	// random compositions and the other checks' value spaces are made of values the format can hold)
	xt := gen.Gen{Name: "time.Time(extreme)", T: reflect.TypeOf(time.Time{}), Vals: gen.ExtremeTimes(), Leaf: "time.Time"}
	gs = append(gs, xt, gen.Ptr(xt), gen.Slice(xt), gen.Iface(xt), gen.AnonStruct(xt))
	byName := map[string]gen.Gen{}
	for _, l := range leaves {
		byName[l.Name] = l
	}
	for _, l := range leaves {
		gs = append(gs, gen.Ptr(l), gen.Slice(l), gen.Array(l, 0), gen.Array(l, 1), gen.Array(l, 3),
			gen.Iface(l), gen.AnonStruct(l), gen.Map(byName["string"], l))
		if gen.KeyOK(l) {
			gs = append(gs, gen.Map(l, byName["int"]))
		}
	}
	iface := gen.Iface(byName["int"])
	iface.Vals = nil
	for _, l := range leaves {
		iv := gen.Iface(l).Vals
		if len(iv) > 3 {
			iv = iv[1:3]
		}
		iface.Vals = append(iface.Vals, iv...)
	}
	iface.Name = "iface(any)"
	// the 15 x 15 specialised map writers (and the generic path through named kinds)
	basic := []string{"bool", "int", "int8", "int16", "int32", "int64", "uint", "uint8", "uint16", "uint32", "uint64", "float32", "float64", "string"}
	for _, k := range append(basic, "iface") {
		for _, v := range append(basic, "iface") {
			kg, vg := byName[k], byName[v]
			if k == "iface" {
				kg = gen.Iface(byName["string"])
			}
			if v == "iface" {
				vg = iface
			}
			if k == "string" || v == "int" && k != "iface" {
				continue // already built above
			}
			gs = append(gs, gen.Map(kg, vg))
		}
	}
	// 2-D slices of interface{}: rows with repeated strings and pointers (references across rows)
	gs = append(gs, gen.Slice(gen.Slice(gen.Iface(byName["string"]))), gen.Slice(gen.Slice(iface)), gen.Slice(gen.Slice(gen.Iface(gen.Ptr(byName["int"])))),
		gen.Slice(gen.Array(gen.Iface(byName["string"]), 3)), gen.Array(gen.Slice(gen.Iface(byName["string"])), 3))
	// 2-D slices and depth 2
	for _, l := range leaves {
		s := gen.Slice(l)
		gs = append(gs, gen.Slice(s))
		if tier == "thorough" {
			p := gen.Ptr(l)
			gs = append(gs, gen.Ptr(p), gen.Slice(p), gen.Ptr(s), gen.Map(byName["string"], s), gen.Slice(gen.Map(byName["string"], l)),
				gen.Array(s, 3), gen.Iface(s), gen.AnonStruct(s), gen.Slice(gen.Iface(l)), gen.Map(byName["string"], p), gen.Slice(gen.Array(l, 3)))
		}
	}
	for _, f := range gen.Fixed() {
		if f.Name == "error" {
			// error is not one of the round-trip types: only written on its own (C03) and through interface{}
			gs = append(gs, gen.Iface(f))
			continue
		}
		gs = append(gs, gen.Ptr(f), gen.Slice(f), gen.Map(byName["string"], f), gen.Iface(f), gen.Slice(gen.Ptr(f)))
	}
	if tier != "thorough" {
		// quick: depth 2 for a few leaves only
		for _, n := range []string{"int8", "uint32", "string", "float32", "time.Time", "*big.Int", "bytes", "complex128"} {
			l := byName[n]
			p, s := gen.Ptr(l), gen.Slice(l)
			gs = append(gs, gen.Ptr(p), gen.Slice(p), gen.Ptr(s), gen.Map(byName["string"], s), gen.Slice(gen.Iface(l)))
		}
	}
	return gs
}

func runFmt(a Args, which string) tr.Summary {
	t := tr.New(a.Out)
	defer t.Close()
	var sum tr.Summary
	gs := fmtSpace(a.Tier)
	if a.Only != "" {
		var c fmtCase
		if err := json.Unmarshal([]byte(a.Only), &c); err != nil {
			panic(err)
		}
		if strings.HasPrefix(c.Shape, "random:") {
			var seed int64
			fmt.Sscanf(c.Class, "seed:%d", &seed)
			g := gen.Random(seed, c.Index)
			roundTrip(t, 1, g, g.Vals[0], c.Mode, tr.Rec{"input": c})
		}
		for _, g := range gs {
			if g.Name != c.Shape {
				continue
			}
			for i, v := range g.Vals {
				if v.Class == c.Class && (c.Index < 0 || c.Index == i) {
					roundTrip(t, 1, g, v, c.Mode, tr.Rec{"input": c})
				}
			}
		}
		sum.Cases, sum.Events = t.Lines, t.Lines
		return sum
	}
	id := 0
	cells := map[string]bool{}
	for _, g := range gs {
		for i, v := range g.Vals {
			for _, mode := range []string{"simple", "ref"} {
				id++
				if id%40 == 1 || g.Name == "ifacezoo" {
					dirtyPools()
				}
				Watch(id, tr.Rec{"shape": g.Name}, fmtCase{g.Name, v.Class, mode, i})
				roundTrip(t, id, g, v, mode, tr.Rec{"input": fmtCase{g.Name, v.Class, mode, i}})
				cells[g.Name+"|"+v.Class+"|"+mode] = true
				if id%7001 == 11 && len(sum.Samples) < 5 {
					sum.Samples = append(sum.Samples, fmtCase{g.Name, v.Class, mode, i})
				}
			}
		}
	}
	// seeded random compositions to depth 3 (and 4), with shared pointers, slices and maps
	nRandom := 2500
	if a.Tier == "thorough" {
		nRandom = 40000
	}
	shapes := map[string]bool{}
	for i := 0; i < nRandom; i++ {
		depth := 2 + i%3
		seed := a.Seed*1000003 + int64(i)
		g := gen.Random(seed, depth)
		shapes[g.Name] = true
		for _, mode := range []string{"simple", "ref"} {
			id++
			c := fmtCase{g.Name, g.Vals[0].Class, mode, depth}
			Watch(id, tr.Rec{"shape": g.Name}, c)
			roundTrip(t, id, g, g.Vals[0], mode, tr.Rec{"input": c})
		}
	}
	sum.Cases = id
	sum.Events = t.Lines
	sum.Nontrivial = len(cells) + len(shapes)
	sum.Extra = tr.Rec{"type_shapes": len(gs), "exhaustive": true, "random_cases": nRandom * 2, "random_type_shapes": len(shapes)}
	return sum
}

// containsErr reports whether an error value occurs anywhere in the graph (decoding then reports it through
// the decoder's error by design)
func containsErr(g fmtx.Graph) bool {
	b, _ := json.Marshal(g)
	return bytes.Contains(b, []byte(`"k":"error"`))
}
