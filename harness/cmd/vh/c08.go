package main

import (
	"context"
	"encoding/json"
	"errors"
	"fmt"
	"reflect"
	"regexp"
	"strings"
	"sync"

	"github.com/hprose/hprose-golang/v3/rpc/core"
	"github.com/hprose/hprose-golang/v3/rpc/plugins/forward"

	"verif/harness/fmtx"
	"verif/harness/gen"
	"verif/harness/rpcenv"
	"verif/harness/tr"
)

// C08: a remote call returns what the service function returns, on every transport. A real Service
// with recording functions is served over mock, net/http, fasthttp, tcp, unix, websocket (net/http
// and fasthttp servers) and udp on ephemeral ports; a real Client calls it through raw Invoke and
// through UseService proxies. Functions log what they were invoked with and what they return; the
// RpcCall monitor (TLA+) judges.

func init() { drivers["c08"] = runC08 }

type c08Rec struct {
	t  *tr.Writer
	mu sync.Mutex
}

func (r *c08Rec) invoked(fn string, args ...interface{}) {
	if args == nil {
		args = []interface{}{}
	}
	r.t.Emit(tr.Rec{"ev": "invoked", "fn": fn, "args": fmtx.Abs(args)})
}
func (r *c08Rec) values(fn string, vals ...interface{}) {
	if vals == nil {
		vals = []interface{}{}
	}
	r.t.Emit(tr.Rec{"ev": "returned", "fn": fn, "kind": "values", "vals": fmtx.Abs(vals), "msg": ""})
}
func (r *c08Rec) fails(fn, kind, msg string) {
	r.t.Emit(tr.Rec{"ev": "returned", "fn": fn, "kind": kind, "vals": fmtx.Abs([]interface{}{}), "msg": msg})
}

// c08Err: a concrete error type - a function may declare it instead of `error` as its last result
type c08Err struct{ Msg string }

func (e *c08Err) Error() string { return e.Msg }

type c08NS struct{ r *c08Rec }

func (n *c08NS) Mul(a, b int) int {
	n.r.invoked("ns_mul", a, b)
	n.r.values("ns_mul", a*b)
	return a * b
}

func c08Service(r *c08Rec) (*core.Service, map[string]string) {
	s := core.NewService()
	table := map[string]string{}
	pub := func(f interface{}, name string) {
		s.AddFunction(f, name)
		table[strings.ToLower(name)] = name
	}
	pub(func(x interface{}) interface{} { r.invoked("echo", x); r.values("echo", x); return x }, "echo")
	pub(func(a, b int) int { r.invoked("add", a, b); r.values("add", a+b); return a + b }, "add")
	pub(func(ctx context.Context, a string, b ...string) string {
		args := []interface{}{a}
		for _, x := range b {
			args = append(args, x)
		}
		r.invoked("concat", args...)
		v := a + strings.Join(b, "")
		r.values("concat", v)
		return v
	}, "concat")
	pub(func(a int, s string) (int, string) {
		r.invoked("pair", a, s)
		r.values("pair", a+1, s+"!")
		return a + 1, s + "!"
	}, "pair")
	pub(func(msg string) error { r.invoked("fail", msg); r.fails("fail", "error", msg); return errors.New(msg) }, "fail")
	pub(func(x int) (int, error) {
		r.invoked("failres", x)
		if x < 0 {
			r.fails("failres", "error", "negative")
			return 0, errors.New("negative")
		}
		r.values("failres", x*2)
		return x * 2, nil
	}, "failres")
	pub(func(x int) (int, *c08Err) {
		r.invoked("cerr", x)
		if x < 0 {
			r.fails("cerr", "error", "concrete negative")
			return 0, &c08Err{"concrete negative"}
		}
		r.values("cerr", x*3)
		return x * 3, nil
	}, "cerr")
	pub(func(x int) *c08Err {
		r.invoked("cerronly", x)
		if x < 0 {
			r.fails("cerronly", "error", "only negative")
			return &c08Err{"only negative"}
		}
		r.values("cerronly")
		return nil
	}, "cerronly")
	pub(func(v interface{}) { r.invoked("boom", v); r.fails("boom", "panic", fmt.Sprint(v)); panic(v) }, "boom")
	pub(func(msg string) { r.invoked("boomerr", msg); r.fails("boomerr", "panic", msg); panic(errors.New(msg)) }, "boomerr")
	pub(func(p gen.Plain) gen.Plain { r.invoked("plain", p); p.A++; r.values("plain", p); return p }, "plain")
	pub(func(p *gen.Plain) *gen.Plain { r.invoked("pplain", p); r.values("pplain", p); return p }, "pplain")
	pub(func(m map[string]int) map[string]int { r.invoked("m", m); r.values("m", m); return m }, "m")
	pub(func(l []string) []string { r.invoked("l", l); r.values("l", l); return l }, "l")
	pub(func() { r.invoked("nothing"); r.values("nothing") }, "nothing")
	pub(func(b []byte, f float32, u uint8) ([]byte, float32, uint8) {
		r.invoked("MixedCaseW", b, f, u)
		r.values("MixedCaseW", b, f, u)
		return b, f, u
	}, "MixedCaseW")
	pub(func(id int) string {
		r.invoked("user_profile_get", id)
		v := fmt.Sprintf("profile-%d", id)
		r.values("user_profile_get", v)
		return v
	}, "user_profile_get")
	pub(func(a, b *gen.Plain, s1, s2 string) (*gen.Plain, string) {
		r.invoked("shared", a, b, s1, s2)
		r.values("shared", b, s2+s1)
		return b, s2 + s1
	}, "shared")
	pub(func(a int, rest ...interface{}) int {
		args := []interface{}{a}
		for _, e := range rest {
			// an untyped nil must arrive as an untyped nil (a typed nil slice or pointer in its place would be
			// equal to it for the judge, which takes nil and empty containers for the same)
			if e != nil {
				if v := reflect.ValueOf(e); (v.Kind() == reflect.Slice || v.Kind() == reflect.Ptr || v.Kind() == reflect.Map) && v.IsNil() {
					e = "TYPED-NIL:" + v.Type().String()
				}
			}
			args = append(args, e)
		}
		r.invoked("vany", args...)
		r.values("vany", len(rest))
		return len(rest)
	}, "vany")
	pub(func(n int, seed int) string {
		r.invoked("bigstr", n, seed)
		b := make([]byte, n)
		x := uint32(seed)
		for i := range b {
			x = x*1664525 + 1013904223
			b[i] = 'a' + byte(x>>24)%26
		}
		r.values("bigstr", string(b))
		return string(b)
	}, "bigstr")
	s.AddInstanceMethods(&c08NS{r}, "ns")
	table["ns_mul"] = "ns_mul"
	return s, table
}

type c08Proxy struct {
	Add     func(a, b int) (int, error)
	Concat  func(a string, b ...string) (string, error)
	Pair    func(a int, s string) (int, string, error)
	Fail    func(msg string) error
	Failres func(x int) (int, error)
	Plain   func(p gen.Plain) (gen.Plain, error)
	Pplain  func(p *gen.Plain) (*gen.Plain, error)
	Boom    func(v interface{}) error
	Nothing func() error
	Echo    func(x interface{}) (interface{}, error)
	W       func(b []byte, f float32, u uint8) ([]byte, float32, uint8, error) `name:"mixedcasew"`
}

// c08Nested: proxy fields nested two levels deep are called as user_profile_get
type c08Nested struct {
	User struct {
		Profile struct {
			Get func(id int) (string, error)
		}
	}
}

type c08NSProxy struct {
	Mul func(a, b int) (int, error)
}

var c08NotPlain = regexp.MustCompile(`"k":"(bigint|bigfloat|bigrat)"|"k":"int","v":"-?[0-9]{19,}"`)

// c08Plain: no big numbers and no integers beyond int64 in the value. Their fidelity through an
// interface{} is the serializer's business (known findings C01-K1, C01-K2), not the call's.
func c08Plain(v interface{}) bool {
	b, _ := json.Marshal(fmtx.Abs(v))
	return !c08NotPlain.Match(b)
}

type c08Case struct {
	Kind    string `json:"kind"`
	Pool    bool   `json:"pool"`
	Simple  bool   `json:"simple"`
	Missing bool   `json:"missing"`
	Call    int    `json:"call,omitempty"` // replay: only this call
	Seed    int64  `json:"seed,omitempty"`
	Dynamic bool   `json:"dynamic,omitempty"` // the method table changes during the case; Call = number of steps
	Forward string `json:"forward,omitempty"` // "" | "io" | "missing": through a forwarding gateway
}

func c08Run(t *tr.Writer, id int, c c08Case) {
	Watch(id, tr.Rec{"kind": c.Kind}, c)
	r := &c08Rec{t: t}
	svc, table := c08Service(r)
	if c.Missing {
		svc.AddMissingMethod(func(name string, args []interface{}) ([]interface{}, error) {
			r.invoked("*", name, args)
			r.values("*", "missing:"+name, len(args))
			return []interface{}{"missing:" + name, len(args)}, nil
		})
	}
	if c.Simple {
		svc.Codec = core.NewServiceCodec(core.WithSimple(true))
	}
	ncall := 0
	env, err := rpcenv.Start(c.Kind, svc, c.Pool)
	if err == nil && c.Forward != "" {
		// a gateway in front of the service: it has no functions of its own and forwards every request, as
		// raw bytes (IO handler) or call by call (missing-method handler)
		backend := env
		defer backend.Close()
		gw := core.NewService()
		f := forward.New(backend.URL)
		if c.Forward == "io" {
			gw.Use(core.IOHandler(f.IOHandler))
		} else {
			gw.AddMissingMethod(f.Forward)
		}
		if c.Simple {
			gw.Codec = core.NewServiceCodec(core.WithSimple(true))
		}
		env, err = rpcenv.Start([]string{"mock", "tcp"}[int(c.Seed)%2], gw, false)
	}
	if err != nil {
		t.Reset(id*1000, tr.Rec{"kind": c.Kind, "pool": c.Pool, "simple": c.Simple, "table": table, "missing": c.Missing, "input": c})
		t.Emit(tr.Rec{"ev": "setup-failed", "err": err.Error()})
		return
	}
	defer env.Close()
	client := core.NewClient(env.URL)
	if c.Simple {
		client.Codec = core.NewClientCodec(core.WithSimple(true))
	}
	defer client.Abort()
	isRaw := false
	call := func(name string, args []interface{}, do func() ([]interface{}, error)) {
		Watch(id, tr.Rec{"kind": c.Kind}, c)
		if args == nil {
			args = []interface{}{}
		}
		ncall++
		if c.Call > 0 && c.Call != ncall {
			return
		}
		cc := c
		cc.Call = ncall
		// every call is its own case, so that one rejected call does not hide the calls after it
		t.Reset(id*1000+ncall, tr.Rec{"kind": c.Kind, "pool": c.Pool, "simple": c.Simple, "table": table, "missing": c.Missing, "callname": name, "input": cc})
		t.Emit(tr.Rec{"ev": "call", "name": name, "lname": strings.ToLower(name), "args": fmtx.Abs(args), "margs": fmtx.Abs([]interface{}{name, args})})
		var res []interface{}
		var err error
		func() {
			defer func() {
				if p := recover(); p != nil {
					err = fmt.Errorf("CALLER-PANIC %v", p)
				}
			}()
			res, err = do()
		}()
		if err != nil {
			t.Emit(tr.Rec{"ev": "ret", "kind": "error", "msg": err.Error(), "vals": fmtx.Abs([]interface{}{}), "raw": isRaw})
			return
		}
		if res == nil {
			res = []interface{}{}
		}
		t.Emit(tr.Rec{"ev": "ret", "kind": "values", "msg": "", "vals": fmtx.Abs(res), "raw": isRaw})
	}
	raw := func(name string, args ...interface{}) {
		isRaw = true
		defer func() { isRaw = false }()
		call(name, args, func() ([]interface{}, error) { return client.Invoke(name, args) })
	}
	p := &gen.Plain{A: 5, B: "pb", C: 2.5}
	raw("echo", "hello")
	raw("ECHO", 42)
	raw("Echo", nil)
	raw("echo", []interface{}{1, "two", 3.5, nil})
	raw("echo", map[string]interface{}{"k": "v"})
	raw("add", 1, 2)
	raw("ADD", -5, 5)
	raw("concat", "a")
	raw("concat", "a", "b", "c")
	raw("pair", 1, "s")
	raw("fail", "broken")
	raw("fail", "ошибка")
	raw("failres", 3)
	raw("failres", -3)
	raw("cerr", 3)
	raw("cerr", -3)
	raw("cerronly", 1)
	raw("CErrOnly", -1)
	raw("boom", "kaboom")
	raw("boom", 42)
	raw("boomerr", "err-in-panic")
	raw("plain", gen.Plain{A: 1, B: "x", C: 1.5})
	raw("pplain", p)
	raw("m", map[string]int{"a": 1, "b": 2})
	raw("l", []string{"x", "y", "x"})
	raw("nothing")
	raw("mixedcasew", []byte("bytes"), float32(1.5), uint8(200))
	raw("MIXEDCASEW", []byte{}, float32(0), uint8(0))
	raw("ns_mul", 6, 7)
	raw("NS_Mul", 2, 3)
	raw("no_such_method", 1, "x")
	raw("echo", strings.Repeat("long-", 2000))
	// repeated arguments: equal strings and shared pointers travel as references in reference mode
	raw("concat", "alpha", "beta", "alpha")
	raw("concat", "concat", "concat")
	raw("echo", "echo")
	raw("echo", []interface{}{"same", "other", "same"})
	raw("l", []string{"l", "l"})
	raw("shared", p, p, "pb", "pb")
	raw("shared", p, &gen.Plain{A: 5, B: "pb", C: 2.5}, "x", "pb")
	raw("user_profile_get", 7)
	// nil in a variadic interface{} tail, first and in the middle
	raw("vany", 1, nil, "x")
	raw("vany", 2, "x", nil, nil)
	raw("vany", 3)
	raw("vany", 4, nil)
	// nil in a typed tail is the element type's zero value: the function must see "a", "", "c"
	rawAs := func(name string, sent []interface{}, seen []interface{}) {
		isRaw = true
		defer func() { isRaw = false }()
		call(name, seen, func() ([]interface{}, error) { return client.Invoke(name, sent) })
	}
	rawAs("concat", []interface{}{"a", nil, "c"}, []interface{}{"a", "", "c"})
	rawAs("concat", []interface{}{"a", nil}, []interface{}{"a", ""})
	rawAs("add", []interface{}{nil, 5}, []interface{}{0, 5})
	// results larger than a segment / a socket buffer
	if c.Kind != "udp" {
		raw("bigstr", 300000, 1)
		raw("bigstr", 1<<20+7, 2)
	} else {
		raw("bigstr", 60000, 3)
	}
	// seeded compositions through echo
	for i, n := 0, 0; n < 24 && i < 200; i++ {
		g := gen.RandomOpt(c.Seed*7919+int64(i), 1+i%3, true)
		if !c08Plain(g.Vals[0].V.Interface()) {
			continue
		}
		n++
		raw("echo", g.Vals[0].V.Interface())
	}
	// the proxy
	var px c08Proxy
	client.UseService(&px)
	w := func(vals ...interface{}) []interface{} { return vals }
	call("add", w(7, 8), func() ([]interface{}, error) { v, e := px.Add(7, 8); return w(v), e })
	call("concat", w("x", "y"), func() ([]interface{}, error) { v, e := px.Concat("x", "y"); return w(v), e })
	call("concat", w("only"), func() ([]interface{}, error) { v, e := px.Concat("only"); return w(v), e })
	call("pair", w(9, "t"), func() ([]interface{}, error) { a, b, e := px.Pair(9, "t"); return w(a, b), e })
	call("fail", w("pfail"), func() ([]interface{}, error) { e := px.Fail("pfail"); return w(), e })
	call("failres", w(-1), func() ([]interface{}, error) { v, e := px.Failres(-1); return w(v), e })
	call("failres", w(4), func() ([]interface{}, error) { v, e := px.Failres(4); return w(v), e })
	call("plain", w(gen.Plain{A: 2, B: "q"}), func() ([]interface{}, error) { v, e := px.Plain(gen.Plain{A: 2, B: "q"}); return w(v), e })
	call("pplain", w(p), func() ([]interface{}, error) { v, e := px.Pplain(p); return w(v), e })
	call("boom", w("pboom"), func() ([]interface{}, error) { e := px.Boom("pboom"); return w(), e })
	call("nothing", w(), func() ([]interface{}, error) { e := px.Nothing(); return w(), e })
	call("echo", w("pe"), func() ([]interface{}, error) { v, e := px.Echo("pe"); return w(v), e })
	call("echo", w(nil), func() ([]interface{}, error) { v, e := px.Echo(nil); return w(v), e })
	call("concat", w("r", "s", "r", "r"), func() ([]interface{}, error) { v, e := px.Concat("r", "s", "r", "r"); return w(v), e })
	var nested c08Nested
	client.UseService(&nested)
	call("User_Profile_Get", w(3), func() ([]interface{}, error) { v, e := nested.User.Profile.Get(3); return w(v), e })
	var nsp c08NSProxy
	client.UseService(&nsp, "ns")
	call("ns_Mul", w(4, 5), func() ([]interface{}, error) { v, e := nsp.Mul(4, 5); return w(v), e })
	call("mixedcasew", w([]byte("b"), float32(2.5), uint8(1)), func() ([]interface{}, error) {
		a, b, cc, e := px.W([]byte("b"), float32(2.5), uint8(1))
		return w(a, b, cc), e
	})
}

// c08Dynamic: the method table changes while the service runs. A seeded history of publish / remove
// operations (functions, a namespaced method set, the missing-method handler; names that differ only in
// case) interleaved with calls spelled in varying case; every function says who it is.
func c08Dynamic(t *tr.Writer, id int, c c08Case) {
	Watch(id, tr.Rec{"kind": c.Kind}, c)
	r := &c08Rec{t: t}
	svc := core.NewService()
	env, err := rpcenv.Start(c.Kind, svc, false)
	if err != nil {
		t.Reset(id*1000, tr.Rec{"kind": c.Kind, "pool": false, "simple": false, "table": map[string]string{}, "missing": false, "input": c})
		t.Emit(tr.Rec{"ev": "setup-failed", "err": err.Error()})
		return
	}
	defer env.Close()
	client := core.NewClient(env.URL)
	defer client.Abort()
	rng := tr.NewRng(c.Seed)
	// the built-in "~" (list of names) is part of every table
	t.Reset(id*1000, tr.Rec{"kind": c.Kind, "pool": false, "simple": false, "table": map[string]string{"~": "~"}, "missing": false, "dynamic": true, "input": c})
	mk := func(fn string) func(x string) string {
		return func(x string) string {
			r.invoked(fn, x)
			r.values(fn, fn+":"+x)
			return fn + ":" + x
		}
	}
	names := []string{"alpha", "Alpha", "ALPHA", "beta", "ns_Gamma", "ns_gamma", "δelta", "Δelta"}
	call := func(name string, step int) {
		arg := fmt.Sprintf("x%d", step)
		args := []interface{}{arg}
		t.Emit(tr.Rec{"ev": "call", "name": name, "lname": strings.ToLower(name), "args": fmtx.Abs(args), "margs": fmtx.Abs([]interface{}{name, args})})
		res, err := client.Invoke(name, args)
		if err != nil {
			t.Emit(tr.Rec{"ev": "ret", "kind": "error", "msg": err.Error(), "vals": fmtx.Abs([]interface{}{}), "raw": true})
		} else {
			if res == nil {
				res = []interface{}{}
			}
			t.Emit(tr.Rec{"ev": "ret", "kind": "values", "msg": "", "vals": fmtx.Abs(res), "raw": true})
		}
	}
	nfn := 0
	for step := 0; step < c.Call; step++ {
		switch k := rng.Intn(10); {
		case k < 3:
			name := names[rng.Intn(len(names))]
			nfn++
			fn := fmt.Sprintf("fn%d", nfn)
			svc.AddFunction(mk(fn), name)
			t.Emit(tr.Rec{"ev": "publish", "lname": strings.ToLower(name), "fn": fn})
		case k < 4:
			name := names[rng.Intn(len(names))]
			svc.Remove(name)
			t.Emit(tr.Rec{"ev": "unpublish", "lname": strings.ToLower(name)})
			// what was removed is gone at once, in every spelling
			call([]string{name, strings.ToLower(name), strings.ToUpper(name)}[rng.Intn(3)], step)
		case k < 5:
			if rng.Intn(2) == 0 {
				svc.AddMissingMethod(func(name string, args []interface{}) ([]interface{}, error) {
					r.invoked("*", name, args)
					r.values("*", "missing:"+name)
					return []interface{}{"missing:" + name}, nil
				})
				t.Emit(tr.Rec{"ev": "publish", "lname": "*", "fn": "*"})
			} else {
				svc.Remove("*")
				t.Emit(tr.Rec{"ev": "unpublish", "lname": "*"})
			}
		default:
			name := names[rng.Intn(len(names))]
			switch rng.Intn(3) {
			case 0:
				name = strings.ToUpper(name)
			case 1:
				name = strings.ToLower(name)
			}
			call(name, step)
		}
	}
}

func runC08(a Args) tr.Summary {
	t := tr.New(a.Out)
	defer t.Close()
	var sum tr.Summary
	var cases []c08Case
	if a.Only != "" {
		var c c08Case
		if err := json.Unmarshal([]byte(a.Only), &c); err != nil {
			panic(err)
		}
		cases = []c08Case{c}
	} else {
		kinds := []string{"mock", "tcp", "udp", "http"}
		if a.Tier == "thorough" {
			kinds = rpcenv.Kinds
		}
		for _, k := range kinds {
			for _, pool := range []bool{false, true} {
				if pool && !(k == "tcp" || k == "unix" || k == "udp") {
					continue
				}
				for _, simple := range []bool{false, true} {
					for _, missing := range []bool{false, true} {
						if a.Tier != "thorough" && simple != missing {
							continue
						}
						cases = append(cases, c08Case{Kind: k, Pool: pool, Simple: simple, Missing: missing, Seed: a.Seed*100 + int64(len(cases))})
					}
				}
			}
		}
	}
	if a.Only == "" {
		for i, fw := range []string{"io", "missing", "io", "missing"} {
			cases = append(cases, c08Case{Kind: []string{"tcp", "mock", "http", "udp"}[i], Simple: i >= 2, Missing: i%2 == 1, Forward: fw, Seed: a.Seed*100 + int64(50+i)})
		}
		n := 6
		if a.Tier == "thorough" {
			n = 40
		}
		for i := 0; i < n; i++ {
			c08Dynamic(t, 900+i, c08Case{Kind: []string{"mock", "tcp"}[i%2], Dynamic: true, Call: 60, Seed: a.Seed*31 + int64(i)})
		}
	}
	for i, c := range cases {
		if c.Dynamic {
			c08Dynamic(t, i+1, c)
			continue
		}
		c08Run(t, i+1, c)
		if len(sum.Samples) < 4 {
			sum.Samples = append(sum.Samples, c)
		}
	}
	sum.Cases = t.Cases
	sum.Events = t.Lines
	sum.Nontrivial = t.Cases
	sum.Extra = tr.Rec{"calls_per_case": 77}
	return sum
}
