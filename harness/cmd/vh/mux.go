package main

import (
	"context"
	"encoding/json"
	"fmt"
	"net"
	"regexp"
	"runtime"
	"strings"
	"sync"
	"sync/atomic"
	"time"

	"github.com/hprose/hprose-golang/v3/rpc/core"
	"github.com/hprose/hprose-golang/v3/rpc/plugins/timeout"
	"github.com/hprose/hprose-golang/v3/rpc/socket"
	"github.com/hprose/hprose-golang/v3/rpc/udp"
	"github.com/hprose/hprose-golang/v3/rpc/websocket"

	"verif/harness/gate"
	"verif/harness/peers"
	"verif/harness/rpcenv"
	"verif/harness/tr"
)

// C09 / C10: the multiplexing client transports against scripted peers. Callers are stepped through
// the verif yield points (afterGetConn, afterStore) so that connection loss, Abort, garbage frames
// and deadlines fall into every window of a call; the peer answers in adversarial orders, twice, or
// with indices nobody waits for. The MuxMonitor (TLA+) judges what callers observe.

func init() {
	drivers["c09"] = runC09
	drivers["c10"] = runC10
	rpcenv.Register()
}

var muxPayloadRe = regexp.MustCompile(`c(\d+)-n(\d+)`)

func muxPayload(c, n int) string { return fmt.Sprintf("c%d-n%d", c, n) }
func muxParse(b []byte) (int, int, bool) {
	m := muxPayloadRe.FindSubmatch(b)
	if m == nil {
		return 0, 0, false
	}
	var c, n int
	fmt.Sscanf(string(m[1]), "%d", &c)
	fmt.Sscanf(string(m[2]), "%d", &n)
	return c, n, true
}

type muxEnv struct {
	kind   string
	peer   *peers.Peer
	client *core.Client
	g      *gate.Controller
	mu     sync.Mutex
	conns  map[interface{}]bool
	t      *tr.Writer
	base   int
}

func (e *muxEnv) pending() int {
	e.mu.Lock()
	defer e.mu.Unlock()
	n := 0
	for c := range e.conns {
		switch e.kind {
		case "tcp", "unix":
			n += socket.VerifPending(c)
		case "udp":
			n += udp.VerifPending(c)
		case "ws":
			n += websocket.VerifPending(c)
		}
	}
	return n
}

func (e *muxEnv) pooled() int {
	switch e.kind {
	case "tcp", "unix":
		return e.client.GetTransport("socket").(*socket.Transport).VerifPooled()
	case "udp":
		return e.client.GetTransport("udp").(*udp.Transport).VerifPooled()
	case "ws":
		return e.client.GetTransport("websocket").(*websocket.Transport).VerifPooled()
	}
	return 0
}

func (e *muxEnv) setCounter(c interface{}, n int32) {
	switch e.kind {
	case "tcp", "unix":
		socket.VerifSetCounter(c, n)
	case "udp":
		udp.VerifSetCounter(c, n)
	case "ws":
		websocket.VerifSetCounter(c, n)
	}
}

func newMuxEnv(kind string, t *tr.Writer) *muxEnv {
	p, err := peers.New(kind)
	if err != nil {
		panic(err)
	}
	e := &muxEnv{kind: kind, peer: p, t: t, conns: map[interface{}]bool{}}
	e.base = runtime.NumGoroutine()
	e.client = core.NewClient(p.URL)
	e.client.Timeout = 0
	e.g = gate.New()
	return e
}

func (e *muxEnv) close() {
	e.g.Close()
	e.client.Abort()
	e.peer.Close()
}

type muxRet struct {
	kind   string
	rc, rn int
	err    string
	at     time.Time
}

// call issues one call and reports its outcome on the returned channel
func (e *muxEnv) call(c, n int, deadline time.Duration) chan muxRet {
	ch := make(chan muxRet, 1)
	e.t.Emit(tr.Rec{"ev": "callB", "c": c, "n": n})
	go func() {
		cc := core.NewClientContext()
		if deadline > 0 {
			cc.Timeout = deadline
		}
		ctx := core.WithContext(context.Background(), cc)
		var r muxRet
		func() {
			defer func() {
				if p := recover(); p != nil {
					r = muxRet{kind: "err", err: fmt.Sprintf("ESCAPED-PANIC %v", p)}
				}
			}()
			res, err := e.client.InvokeContext(ctx, "echo", []interface{}{muxPayload(c, n)})
			if err != nil {
				r = muxRet{kind: "err", err: err.Error()}
				return
			}
			s := ""
			if len(res) == 1 {
				s, _ = res[0].(string)
			}
			rc, rn, ok := muxParse([]byte(s))
			if !ok {
				r = muxRet{kind: "resp", rc: -1, rn: -1, err: "garbled:" + s}
				return
			}
			r = muxRet{kind: "resp", rc: rc, rn: rn}
		}()
		r.at = time.Now()
		ch <- r
	}()
	return ch
}

func (e *muxEnv) answer(r peers.Request) {
	c, n, ok := muxParse(r.Body)
	if !ok {
		return
	}
	e.t.Emit(tr.Rec{"ev": "answer", "c": c, "n": n})
	e.peer.Respond(r.Conn, r.Index, miniResp(muxPayload(c, n)))
}

// ------------------------------------------------------------------------------------------------
// C10 schedules
// ------------------------------------------------------------------------------------------------

type c10Case struct {
	Kind  string   `json:"kind"`  // tcp | unix | udp | ws
	Steps []string `json:"steps"` // G:c S:c T:c F:<fault>
	Fault string   `json:"fault"` // none | close | abort | garbage | silent | errframe
}

// c10Slow: slow service functions against the time-outs: the service-side execute time-out
// (plugins/timeout) and the client's own time-out, over a real service. Every call returns by its
// bound; once the functions have ended no goroutine is left behind on either side; the client and the
// service stay usable.
// c10FlakyConn: the k-th write on the client's connection fails with a temporary error (a write deadline
// of a wrapper installed with OnConnect, say)
type c10TempErr struct{}

func (c10TempErr) Error() string   { return "temporary write error (injected)" }
func (c10TempErr) Temporary() bool { return true }
func (c10TempErr) Timeout() bool   { return true }

type c10FlakyConn struct {
	net.Conn
	n      *int32
	failAt int32
}

func (c *c10FlakyConn) Write(b []byte) (int, error) {
	if atomic.AddInt32(c.n, 1) == c.failAt {
		return 0, c10TempErr{}
	}
	return c.Conn.Write(b)
}

// c10WriteError: a write of the client fails with a temporary error in the middle of a request (after the
// header, or before it): the call whose request it was returns with an error at once, the calls after it are
// answered (over a new connection if the old one is given up)
func c10WriteError(t *tr.Writer, id int, c c10Case) {
	svc := core.NewService()
	svc.AddFunction(func(p string) string { return p }, "echo")
	env, err := rpcenv.Start(c.Kind, svc, false)
	if err != nil {
		t.Emit(tr.Rec{"ev": "setup-failed", "err": err.Error()})
		return
	}
	defer env.Close()
	client := core.NewClient(env.URL)
	client.Timeout = 3 * time.Second
	defer client.Abort()
	var writes int32
	failAt := int32(4) // the body of the second request
	if c.Fault == "write-error-header" {
		failAt = 5 // the header of the third
	}
	if st, ok := client.GetTransport("socket").(*socket.Transport); ok {
		st.OnConnect = func(conn net.Conn) net.Conn { return &c10FlakyConn{Conn: conn, n: &writes, failAt: failAt} }
	}
	for n := 1; n <= 5; n++ {
		t.Emit(tr.Rec{"ev": "callB", "c": 1, "n": n})
		t0 := time.Now()
		res, err := client.Invoke("echo", []interface{}{muxPayload(1, n)})
		r := muxRet{kind: "resp", rc: -1, rn: -1}
		if err != nil {
			r = muxRet{kind: "err", err: err.Error()}
		} else if len(res) == 1 {
			if s, ok := res[0].(string); ok {
				if rc, rn, ok := muxParse([]byte(s)); ok {
					r.rc, r.rn = rc, rn
					t.Emit(tr.Rec{"ev": "answer", "c": rc, "n": rn})
				}
			}
		}
		// every call is back well before the client's time-out: with its response, or - the one whose
		// request was cut - with the write error
		t.Emit(tr.Rec{"ev": "ret", "c": 1, "n": n, "kind": r.kind, "rc": r.rc, "rn": r.rn, "ms": int(time.Since(t0) / time.Millisecond), "bound": 1500, "err": r.err})
	}
	t.Emit(tr.Rec{"ev": "quiesce", "pending": 0, "leak": 0, "pooled": 0})
}

func c10Slow(t *tr.Writer, id int, c c10Case) {
	svc := core.NewService()
	fnMs, execMs, clientMs := 60, 20, 0
	if c.Fault == "client-timeout" {
		fnMs, execMs, clientMs = 60, 0, 20
	}
	if c.Fault == "abort-many" {
		fnMs, execMs, clientMs = 400, 0, 0
	}
	// ctx-deadline: the caller's context carries a deadline (20 ms) earlier than the client's Timeout (5 s);
	// the function does not return before the driver lets it, so a call can only end by its deadline
	release := make(chan struct{})
	if c.Fault == "ctx-deadline" {
		fnMs, execMs, clientMs = 0, 0, 5000
	}
	if execMs > 0 {
		svc.Use(timeout.New(time.Duration(execMs) * time.Millisecond))
	}
	svc.AddFunction(func(p string, slow bool) string {
		if slow && c.Fault == "ctx-deadline" {
			<-release
		} else if slow {
			time.Sleep(time.Duration(fnMs) * time.Millisecond)
		}
		return p
	}, "echo")
	env, err := rpcenv.Start(c.Kind, svc, false)
	if err != nil {
		t.Emit(tr.Rec{"ev": "setup-failed", "err": err.Error()})
		return
	}
	defer env.Close()
	client := core.NewClient(env.URL)
	if clientMs > 0 {
		client.Timeout = time.Duration(clientMs) * time.Millisecond
	}
	defer client.Abort()
	call := func(cc, n int, slow bool, bound int) {
		t.Emit(tr.Rec{"ev": "callB", "c": cc, "n": n})
		t0 := time.Now()
		ctx := context.Background()
		if c.Fault == "ctx-deadline" && slow {
			var cancel context.CancelFunc
			ctx, cancel = context.WithTimeout(ctx, 20*time.Millisecond)
			defer cancel()
		}
		res, err := client.InvokeContext(ctx, "echo", []interface{}{muxPayload(cc, n), slow})
		r := muxRet{kind: "resp", rc: -1, rn: -1}
		if err != nil {
			r = muxRet{kind: "err", err: err.Error()}
		} else if len(res) == 1 {
			if s, ok := res[0].(string); ok {
				if rc, rn, ok := muxParse([]byte(s)); ok {
					r.rc, r.rn = rc, rn
					t.Emit(tr.Rec{"ev": "answer", "c": rc, "n": rn})
				}
			}
		}
		t.Emit(tr.Rec{"ev": "ret", "c": cc, "n": n, "kind": r.kind, "rc": r.rc, "rn": r.rn, "ms": int(time.Since(t0) / time.Millisecond), "bound": bound, "err": r.err})
	}
	call(1, 1, false, 2000)
	var wg sync.WaitGroup
	if c.Fault == "abort-many" {
		// several calls are pending when Abort is called: every one of them returns promptly with an error
		for cc := 2; cc <= 5; cc++ {
			wg.Add(1)
			go func(cc int) {
				defer wg.Done()
				t.Emit(tr.Rec{"ev": "callB", "c": cc, "n": 1})
				t0 := time.Now()
				_, err := client.Invoke("echo", []interface{}{muxPayload(cc, 1), true})
				kind, msg := "resp", ""
				if err != nil {
					kind, msg = "err", err.Error()
				}
				// measured from the Abort (40 ms after the start); a response would be the wrong outcome
				ms := int(time.Since(t0)/time.Millisecond) - 40
				if ms < 0 {
					ms = 0
				}
				if kind == "resp" {
					ms = 100000
				}
				t.Emit(tr.Rec{"ev": "ret", "c": cc, "n": 1, "kind": kind, "rc": -1, "rn": -1, "ms": ms, "bound": 1500, "err": msg})
			}(cc)
		}
		time.Sleep(40 * time.Millisecond)
		client.Abort()
		wg.Wait()
		time.Sleep(time.Duration(fnMs) * time.Millisecond) // the functions end
	}
	for cc := 2; cc <= 9 && c.Fault != "abort-many"; cc++ {
		wg.Add(1)
		go func(cc int) {
			defer wg.Done()
			for n := 1; n <= 3; n++ {
				call(cc, n, true, 20+1500) // the time-out plus slack
			}
		}(cc)
	}
	if c.Fault == "ctx-deadline" {
		// the callers are back long before this; then the functions are let go
		back := make(chan struct{})
		go func() { wg.Wait(); close(back) }()
		select {
		case <-back:
		case <-time.After(4 * time.Second):
		}
		close(release)
	}
	wg.Wait()
	// census of request-handling goroutines (idle connections and their loops are not requests): once the
	// functions have ended none is left in the service's or the client's call path
	leak := 0
	for i := 0; i < 400; i++ {
		if leak = inFlightGoroutines(); leak <= 0 {
			break
		}
		time.Sleep(5 * time.Millisecond)
	}
	t.Emit(tr.Rec{"ev": "quiesce", "pending": 0, "leak": leak, "pooled": 0})
	call(10, 1, false, 2000)
	t.Emit(tr.Rec{"ev": "fresh", "ok": true})
}

// inFlightGoroutines counts the goroutines (other than the caller) that are inside the call path of the
// library: rpc/core or a plugin.
func inFlightGoroutines() int {
	buf := make([]byte, 1<<20)
	buf = buf[:runtime.Stack(buf, true)]
	n := 0
	for i, g := range strings.Split(string(buf), "\n\n") {
		if i == 0 {
			continue // the caller
		}
		if strings.Contains(g, "hprose-golang/v3/rpc/core.") || strings.Contains(g, "hprose-golang/v3/rpc/plugins/") {
			n++
		}
	}
	return n
}

func c10Run(t *tr.Writer, id int, c c10Case) {
	Watch(id, tr.Rec{"kind": c.Kind, "fault": c.Fault}, c)
	t.Reset(id, tr.Rec{"kind": c.Kind, "fault": c.Fault, "mustfail": false, "input": c})
	if c.Fault == "reverse-giveup" {
		c10ReverseGiveup(t, c)
		return
	}
	if strings.HasPrefix(c.Fault, "write-error") {
		c10WriteError(t, id, c)
		return
	}
	if c.Fault == "exec-timeout" || c.Fault == "client-timeout" || c.Fault == "abort-many" || c.Fault == "ctx-deadline" {
		c10Slow(t, id, c)
		return
	}
	e := newMuxEnv(c.Kind, t)
	defer e.close()
	roleOf := func(args []interface{}) int {
		for _, a := range args {
			if b, ok := a.([]byte); ok {
				if cc, _, ok := muxParse(b); ok {
					return cc
				}
			}
		}
		return 0
	}
	noteConn := func(args []interface{}) {
		if len(args) > 0 {
			e.mu.Lock()
			e.conns[args[0]] = true
			e.mu.Unlock()
		}
	}
	gated := map[int]bool{1: true, 2: true}
	pred := func(args []interface{}) bool { noteConn(args); return gated[roleOf(args)] }
	e.g.HoldAt("mux.afterGetConn", pred)
	e.g.HoldAt("mux.afterStore", pred)
	e.g.HoldTimeout = 4 * time.Second
	deadline := time.Duration(0)
	if c.Fault == "silent" {
		deadline = 60 * time.Millisecond
	}
	rets := map[int]chan muxRet{}
	holds := map[int]*gate.Hold{}
	done := map[int]*muxRet{}
	// waits until caller c parks at a gate or returns
	waitStep := func(cc int) {
		for {
			select {
			case h := <-e.g.Parked:
				r := roleOf(h.Args)
				holds[r] = h
				if r == cc {
					return
				}
			case r := <-rets[cc]:
				rr := r
				done[cc] = &rr
				return
			case <-time.After(3 * time.Second):
				return
			}
		}
	}
	var received []peers.Request
	drainReqs := func(wait time.Duration) {
		for {
			r, ok := e.peer.Next(wait)
			if !ok {
				return
			}
			received = append(received, r)
			wait = time.Millisecond
		}
	}
	connDead := func() {
		// wait until the pool has dropped the connection and the cleaning pass is over
		for i := 0; i < 400; i++ {
			if e.g.Count("mux.afterClean") > 0 && e.pooled() == 0 {
				break
			}
			time.Sleep(500 * time.Microsecond)
		}
		time.Sleep(2 * time.Millisecond)
	}
	faultDone := false
	for _, st := range c.Steps {
		Watch(id, tr.Rec{"kind": c.Kind, "fault": c.Fault}, c)
		var cc int
		op := st[:1]
		fmt.Sscanf(st[2:], "%d", &cc)
		switch op {
		case "G":
			rets[cc] = e.call(cc, 1, deadline)
			waitStep(cc)
		case "S", "T":
			if h := holds[cc]; h != nil {
				delete(holds, cc)
				h.Release()
				if op == "S" {
					waitStep(cc)
				}
			}
		case "F":
			faultDone = true
			drainReqs(3 * time.Millisecond)
			switch c.Fault {
			case "close":
				if e.peer.Conns() > 0 {
					for k := 1; k <= e.peer.Conns(); k++ {
						e.peer.CloseConn(k)
					}
					connDead()
				}
			case "garbage":
				if e.peer.Conns() > 0 {
					for k := 1; k <= e.peer.Conns(); k++ {
						e.peer.Raw(k, []byte{1, 2, 3, 4, 5, 6, 7, 8, 9, 10, 11, 12})
					}
					connDead()
				}
			case "errframe":
				if e.peer.Conns() > 0 {
					for k := 1; k <= e.peer.Conns(); k++ {
						e.peer.RespondError(k, 0, []byte("boom"))
					}
					connDead()
				}
			case "abort":
				e.client.Abort()
				time.Sleep(2 * time.Millisecond)
			}
		}
	}
	_ = faultDone
	// release whatever is still parked, in caller order
	for cc := 1; cc <= 2; cc++ {
		if h := holds[cc]; h != nil {
			delete(holds, cc)
			h.Release()
		}
	}
	e.g.HoldAt("mux.afterGetConn", func(args []interface{}) bool { noteConn(args); return false })
	e.g.HoldAt("mux.afterStore", func(args []interface{}) bool { noteConn(args); return false })
	// stragglers parked meanwhile
	go func() {
		for h := range e.g.Parked {
			h.Release()
		}
	}()
	tEnd := time.Now()
	// the peer answers everything it has received on connections that are still up (unless silent)
	if c.Fault != "silent" {
		stop := time.After(150 * time.Millisecond)
	answering:
		for {
			drainReqs(2 * time.Millisecond)
			for _, r := range received {
				e.answer(r)
			}
			received = nil
			all := true
			for cc, ch := range rets {
				if done[cc] != nil {
					continue
				}
				select {
				case r := <-ch:
					rr := r
					done[cc] = &rr
				default:
					all = false
				}
			}
			if all {
				break
			}
			select {
			case <-stop:
				break answering
			default:
			}
		}
	}
	bound := 2000
	if deadline > 0 {
		bound += int(deadline / time.Millisecond)
	}
	for cc, ch := range rets {
		r := done[cc]
		if r == nil {
			select {
			case rr := <-ch:
				r = &rr
			case <-time.After(time.Duration(bound)*time.Millisecond + 500*time.Millisecond):
			}
		}
		if r == nil {
			t.Emit(tr.Rec{"ev": "hang", "c": cc, "n": 1})
			continue
		}
		ms := int(r.at.Sub(tEnd) / time.Millisecond)
		if ms < 0 {
			ms = 0
		}
		t.Emit(tr.Rec{"ev": "ret", "c": cc, "n": 1, "kind": r.kind, "rc": r.rc, "rn": r.rn, "ms": ms, "bound": bound, "err": r.err})
	}
	// quiescence: nothing pending, no goroutine left behind by a dead connection
	leak := 0
	pooled := 0
	for i := 0; i < 600; i++ {
		pooled = e.pooled()
		leak = 0
		if pooled == 0 {
			leak = runtime.NumGoroutine() - e.base - 1 // the straggler-release goroutine above
		}
		if leak <= 0 && e.pending() == 0 {
			break
		}
		time.Sleep(5 * time.Millisecond)
	}
	t.Emit(tr.Rec{"ev": "quiesce", "pending": e.pending(), "leak": leak, "pooled": pooled})
	// the client stays usable: a fresh call is answered
	fr := e.call(9, 1, 2*time.Second)
	ok := false
	deadlineT := time.After(3 * time.Second)
fresh:
	for {
		select {
		case r := <-fr:
			ok = r.kind == "resp" && r.rc == 9
			t.Emit(tr.Rec{"ev": "ret", "c": 9, "n": 1, "kind": r.kind, "rc": r.rc, "rn": r.rn, "ms": 0, "bound": 3000, "err": r.err})
			break fresh
		case <-deadlineT:
			t.Emit(tr.Rec{"ev": "hang", "c": 9, "n": 1})
			break fresh
		default:
			if r, got := e.peer.Next(2 * time.Millisecond); got {
				e.answer(r)
			}
		}
	}
	t.Emit(tr.Rec{"ev": "fresh", "ok": ok})
}

func c10Interleavings() [][]string {
	var out [][]string
	a := []string{"G:1", "S:1", "T:1"}
	b := []string{"G:2", "S:2", "T:2"}
	var rec func(i, j int, p []string)
	rec = func(i, j int, p []string) {
		if i == 3 && j == 3 {
			out = append(out, append([]string(nil), p...))
			return
		}
		if i < 3 {
			rec(i+1, j, append(p, a[i]))
		}
		if j < 3 {
			rec(i, j+1, append(p, b[j]))
		}
	}
	rec(0, 0, nil)
	return out
}

func c10Cases(kinds []string) []c10Case {
	var cases []c10Case
	for _, kind := range kinds {
		faults := []string{"close", "abort", "garbage", "silent", "errframe"}
		if kind == "udp" {
			faults = []string{"abort", "garbage", "silent", "errframe"} // a vanished UDP peer is indistinguishable from a slow one
		}
		for _, il := range c10Interleavings() {
			cases = append(cases, c10Case{kind, il, "none"})
			for _, f := range faults {
				for pos := 0; pos <= len(il); pos++ {
					steps := append(append(append([]string(nil), il[:pos]...), "F:0"), il[pos:]...)
					cases = append(cases, c10Case{kind, steps, f})
				}
			}
		}
	}
	return cases
}

func runC10(a Args) tr.Summary {
	t := tr.New(a.Out)
	defer t.Close()
	var sum tr.Summary
	if a.Only != "" {
		var c c10Case
		if err := json.Unmarshal([]byte(a.Only), &c); err != nil {
			panic(err)
		}
		c10Run(t, 1, c)
		sum.Cases, sum.Events = t.Cases, t.Lines
		return sum
	}
	kinds := []string{"tcp", "unix", "udp", "ws"}
	all := c10Cases(kinds)
	rng := tr.NewRng(a.Seed)
	var chosen []c10Case
	if a.Tier == "thorough" {
		chosen = all
	} else {
		// quick: a seeded slice, at least every (kind, fault, position) class once
		seen := map[string]bool{}
		perm := make([]int, len(all))
		for i := range perm {
			perm[i] = i
		}
		for i := len(perm) - 1; i > 0; i-- {
			j := rng.Intn(i + 1)
			perm[i], perm[j] = perm[j], perm[i]
		}
		for _, i := range perm {
			c := all[i]
			pos := 0
			for k, s := range c.Steps {
				if strings.HasPrefix(s, "F:") {
					pos = k
				}
			}
			key := fmt.Sprintf("%s/%s/%d", c.Kind, c.Fault, pos)
			if !seen[key] || len(chosen) < 260 && rng.Intn(12) == 0 {
				seen[key] = true
				chosen = append(chosen, c)
			}
		}
	}
	id := 0
	nontrivial := map[string]bool{}
	for _, c := range chosen {
		id++
		c10Run(t, id, c)
		if c.Fault != "none" {
			nontrivial[fmt.Sprint(c)] = true
		}
		if id%97 == 1 && len(sum.Samples) < 5 {
			sum.Samples = append(sum.Samples, c)
		}
	}
	for _, kind := range []string{"mock", "tcp", "http", "udp"} {
		for _, f := range []string{"exec-timeout", "client-timeout", "abort-many"} {
			id++
			c := c10Case{Kind: kind, Fault: f}
			c10Run(t, id, c)
			nontrivial[fmt.Sprint(c)] = true
		}
	}
	// the caller's own deadline, on every transport (each client transport has its own way to wait)
	for _, kind := range []string{"mock", "tcp", "unix", "http", "fasthttp", "ws", "udp"} {
		id++
		c := c10Case{Kind: kind, Fault: "ctx-deadline"}
		c10Run(t, id, c)
		nontrivial[fmt.Sprint(c)] = true
	}
	// a write of the client fails with a temporary error
	for _, kind := range []string{"tcp", "unix"} {
		for _, f := range []string{"write-error-body", "write-error-header"} {
			id++
			c := c10Case{Kind: kind, Fault: f}
			c10Run(t, id, c)
			nontrivial[fmt.Sprint(c)] = true
		}
	}
	for _, kind := range []string{"mock", "tcp"} {
		id++
		c := c10Case{Kind: kind, Fault: "reverse-giveup"}
		c10Run(t, id, c)
		nontrivial[fmt.Sprint(c)] = true
	}
	sum.Cases = id
	sum.Events = t.Lines
	sum.Nontrivial = len(nontrivial)
	sum.Extra = tr.Rec{"schedule_space": len(all), "run": len(chosen), "exhaustive": len(chosen) == len(all), "transports": kinds}
	return sum
}

// ------------------------------------------------------------------------------------------------
// C09: concurrent callers, adversarial answer orders, duplicates, strays, index wrap-around
// ------------------------------------------------------------------------------------------------

type c09Case struct {
	Kind    string `json:"kind"`
	Mode    string `json:"mode"` // reverse | shuffle | dup | stray | wrap | wrap-high | high | rcall...
	Callers int    `json:"callers"`
	Calls   int    `json:"calls"`
	Seed    int64  `json:"seed"`
}

func c09Run(t *tr.Writer, id int, c c09Case) {
	Watch(id, tr.Rec{"kind": c.Kind, "mode": c.Mode}, c)
	t.Reset(id, tr.Rec{"kind": c.Kind, "mode": c.Mode, "mustfail": false, "healthy": c.Kind != "udp", "input": c})
	if c.Mode == "realfns" {
		c09RealFns(t, c)
		return
	}
	if strings.HasPrefix(c.Mode, "rcall") {
		c09Reverse(t, id, c)
		return
	}
	e := newMuxEnv(c.Kind, t)
	defer e.close()
	rng := tr.NewRng(c.Seed)
	var connArg interface{}
	var cmu sync.Mutex
	e.g.HoldAt("mux.afterGetConn", func(args []interface{}) bool {
		cmu.Lock()
		connArg = args[0]
		cmu.Unlock()
		e.mu.Lock()
		e.conns[args[0]] = true
		e.mu.Unlock()
		return false
	})
	emitRet := func(cc, n int, r muxRet) {
		t.Emit(tr.Rec{"ev": "ret", "c": cc, "n": n, "kind": r.kind, "rc": r.rc, "rn": r.rn, "ms": 0, "bound": 1, "err": r.err})
	}
	if c.Mode == "wrap" || c.Mode == "wrap-high" {
		// one slow call pending at index i; the counter is moved so that the next call is given the
		// same masked index (what 2^15 resp. 2^31 further calls would do)
		slow := e.call(1, 1, 0)
		r1, ok := e.peer.Next(2 * time.Second)
		if !ok {
			t.Emit(tr.Rec{"ev": "hang", "c": 1, "n": 1})
			return
		}
		cmu.Lock()
		ca := connArg
		cmu.Unlock()
		next := int32(r1.Index - 1)
		if c.Mode == "wrap-high" {
			// the raw counter one full period further: the bit just above the index mask is set
			if c.Kind == "udp" {
				next |= 0x8000
			} else {
				next = int32(uint32(next) | 0x80000000)
			}
		}
		e.setCounter(ca, next)
		second := e.call(2, 1, 0)
		r2, ok2 := e.peer.Next(2 * time.Second)
		// answer the slow call first, then the second
		e.answer(r1)
		time.Sleep(3 * time.Millisecond)
		if ok2 {
			e.answer(r2)
		}
		for i, ch := range []chan muxRet{slow, second} {
			select {
			case r := <-ch:
				emitRet(i+1, 1, r)
			case <-time.After(2 * time.Second):
				t.Emit(tr.Rec{"ev": "hang", "c": i + 1, "n": 1})
			}
		}
		return
	}
	// mode high: from the second round on the connections' counters are moved to identifiers that use every
	// byte of the header (what thousands to billions of earlier requests would do), one of them just below
	// the wrap-around
	high := []uint32{0x00010000, 0x00fe00fd, 0x7ffffff8, 0x12345678, 0x00800000, 0x7f000000, 0x0000ff00, 0x01000000, 0x00ffffff, 0x40000001}
	for round := 1; round <= c.Calls; round++ {
		Watch(id, tr.Rec{"kind": c.Kind, "mode": c.Mode}, c)
		if c.Mode == "high" && round > 1 {
			v := high[(round-2+int(c.Seed))%len(high)]
			if c.Kind == "udp" {
				v = (v ^ v>>16) & 0x7fff
			}
			e.mu.Lock()
			for ca := range e.conns {
				e.setCounter(ca, int32(v&0x7fffffff))
			}
			e.mu.Unlock()
		}
		chans := make([]chan muxRet, c.Callers)
		for cc := 1; cc <= c.Callers; cc++ {
			chans[cc-1] = e.call(cc, round, 0)
		}
		var reqs []peers.Request
		for len(reqs) < c.Callers {
			r, ok := e.peer.Next(2 * time.Second)
			if !ok {
				break
			}
			reqs = append(reqs, r)
		}
		switch c.Mode {
		case "reverse":
			for i, j := 0, len(reqs)-1; i < j; i, j = i+1, j-1 {
				reqs[i], reqs[j] = reqs[j], reqs[i]
			}
		default:
			for i := len(reqs) - 1; i > 0; i-- {
				j := rng.Intn(i + 1)
				reqs[i], reqs[j] = reqs[j], reqs[i]
			}
		}
		for i, r := range reqs {
			if c.Mode == "stray" && i%2 == 0 {
				// a well-formed response for an index nobody waits for, carrying someone else's payload
				e.peer.Respond(r.Conn, (r.Index+5000)&0x7fff, miniResp(muxPayload(99, 99)))
			}
			e.answer(r)
			if c.Mode == "dup" && i%2 == 1 {
				e.peer.Respond(r.Conn, r.Index, miniResp(muxPayload(98, 98)))
				e.peer.Respond(reqs[i-1].Conn, reqs[i-1].Index, miniResp(muxPayload(97, 97)))
			}
		}
		for cc, ch := range chans {
			select {
			case r := <-ch:
				emitRet(cc+1, round, r)
			case <-time.After(3 * time.Second):
				t.Emit(tr.Rec{"ev": "hang", "c": cc + 1, "n": round})
			}
		}
	}
}

func runC09(a Args) tr.Summary {
	t := tr.New(a.Out)
	defer t.Close()
	var sum tr.Summary
	if a.Only != "" {
		var c c09Case
		if err := json.Unmarshal([]byte(a.Only), &c); err != nil {
			panic(err)
		}
		c09Run(t, 1, c)
		sum.Cases, sum.Events = t.Cases, t.Lines
		return sum
	}
	id := 0
	reps := 2
	callers, calls := 12, 6
	if a.Tier == "thorough" {
		reps, callers, calls = 10, 32, 12
	}
	for _, kind := range []string{"tcp", "unix", "udp", "ws"} {
		for _, mode := range []string{"reverse", "shuffle", "dup", "stray", "wrap", "wrap-high", "high"} {
			for r := 0; r < reps; r++ {
				if strings.HasPrefix(mode, "wrap") && r > 0 {
					continue
				}
				id++
				c := c09Case{kind, mode, callers, calls, a.Seed*1000 + int64(id)}
				c09Run(t, id, c)
				if len(sum.Samples) < 4 && r == 0 && kind == "udp" {
					sum.Samples = append(sum.Samples, c)
				}
			}
		}
	}
	for _, kind := range []string{"tcp", "unix", "ws", "udp"} {
		id++
		c := c09Case{kind, "realfns", 16, calls * 8, a.Seed*1000 + int64(id)}
		c09Run(t, id, c)
	}
	for _, kind := range []string{"tcp", "mock"} {
		for _, mode := range []string{"rcall", "rcall-idle", "rcall-idlestop", "rcall-race", "rcall-stale", "rcall-wake", "rcall-script", "rcall-first"} {
			id++
			c := c09Case{kind, mode, 8, calls * 3, a.Seed*1000 + int64(id)}
			if mode == "rcall-idle" {
				c.Calls = calls // every lost call costs its time-out
			} else if mode == "rcall-first" {
				c.Callers, c.Calls = 6, calls*4
			} else if mode == "rcall-script" {
				c.Callers, c.Calls = 3, calls*2
			} else if mode != "rcall" {
				c.Callers, c.Calls = 1, calls
			}
			if kind == "mock" && mockWedged {
				id--
				continue
			}
			c09Run(t, id, c)
			if kind == "tcp" {
				sum.Samples = append(sum.Samples, c)
			}
		}
	}
	sum.Cases = id
	sum.Events = t.Lines
	sum.Nontrivial = id
	sum.Extra = tr.Rec{"callers": callers, "rounds": calls, "reverse_forced_steps": revForced}
	return sum
}
