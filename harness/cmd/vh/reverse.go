package main

import (
	"context"
	"fmt"
	"reflect"
	"sync"
	"sync/atomic"
	"time"

	"github.com/hprose/hprose-golang/v3/rpc/core"
	"github.com/hprose/hprose-golang/v3/rpc/plugins/reverse"

	"verif/harness/gate"
	"verif/harness/rpcenv"
	"verif/harness/tr"
)

// C09, reverse calls: a service (reverse.Caller) calls functions of a provider that polls it
// (reverse.Provider). Every scenario runs the real caller, the real provider and a real transport;
// the peer is healthy (the provider polls and answers everything), so the MuxMonitor accepts only
// calls that return their own response.
//
//	rcall          concurrent Invoke calls with unique payloads; the provider answers after seeded
//	               delays, so completion order differs from call order
//	rcall-idle     the same while the provider's long poll times out every few milliseconds
//	rcall-idlestop calls after the poll has timed out several times (Reverse.tla: ProviderPolls)
//	rcall-race     a call is queued and handed over exactly while the poll is at its idle time-out
//	               (Reverse.tla: the counterexample of Reverse_bug_idle.cfg, NoStuckPoll/NoDeadLetter)
//	rcall-stale    a call is queued between a poll that timed out and the next poll (NoDeadLetter)
//	rcall-script   a scripted provider fetches rounds of three concurrent calls and reports them in seeded
//	               order: with an index nobody waits for and a long-answered one in the middle of the
//	               batch, after one caller has given up, one by one, and twice (foreign payloads)
//	rcall-wake     a call is queued between a poll's empty check and the registration of its
//	               responder (Reverse.tla: the counterexample of Reverse_bug_wake.cfg, NoSleepingCall)
//
// The last three step the code through the verif yield points reverse.pollStart, pollEmpty,
// pollTimeout and invokeQueued.
type revEnv struct {
	t      *tr.Writer
	caller *reverse.Caller
	prov   *reverse.Provider
	env    *rpcenv.Env
	client *core.Client
	k      int32
	listen chan struct{} // closed when Provider.Listen has returned
	extra  []*revEnv     // further providers (ids of their own) at the same caller
	id     string        // this provider's id ("prov1" when empty)
}

// addProvider starts another provider with an id of its own at the same caller.
func (e *revEnv) addProvider(id string) *revEnv {
	x := &revEnv{t: e.t, caller: e.caller, id: id}
	x.client = core.NewClient(e.env.URL)
	x.client.Timeout = 10 * time.Second
	x.prov = reverse.NewProvider(x.client, id)
	x.prov.RetryInterval = 10 * time.Millisecond
	x.prov.AddFunction(func(payload string) string {
		if cc, n, ok := muxParse([]byte(payload)); ok {
			e.t.Emit(tr.Rec{"ev": "answer", "c": cc, "n": n})
		}
		return payload
	}, "echo")
	x.start()
	e.extra = append(e.extra, x)
	return x
}

// stopProvider ends a provider's Listen (see close).
func (e *revEnv) stopProvider() {
	go e.prov.Close()
	for i := 0; i < 100 && e.listen != nil; i++ {
		select {
		case <-e.listen:
			i = 100
		case <-time.After(20 * time.Millisecond):
			go e.client.Invoke("!!", nil)
		}
	}
	e.client.Abort()
}

func (e *revEnv) start() {
	e.listen = make(chan struct{})
	go func() { defer close(e.listen); e.prov.Listen() }()
}

func newRevEnv(t *tr.Writer, c c09Case, idle, timeout time.Duration, delays []int) (*revEnv, error) {
	svc := core.NewService()
	e := &revEnv{t: t}
	e.caller = reverse.NewCaller(svc)
	e.caller.HeartBeat = 0
	e.caller.Timeout = timeout
	e.caller.IdleTimeout = idle
	env, err := rpcenv.Start(c.Kind, svc, false)
	if err != nil {
		return nil, err
	}
	e.env = env
	e.client = core.NewClient(env.URL)
	e.client.Timeout = 10 * time.Second
	e.prov = reverse.NewProvider(e.client, "prov1")
	e.prov.RetryInterval = 10 * time.Millisecond
	e.prov.AddFunction(func(payload string) string {
		cc, n, ok := muxParse([]byte(payload))
		if ok {
			t.Emit(tr.Rec{"ev": "answer", "c": cc, "n": n})
		}
		if len(delays) > 0 {
			time.Sleep(time.Duration(delays[int(atomic.AddInt32(&e.k, 1))%len(delays)]) * time.Microsecond)
		}
		return payload
	}, "echo")
	return e, nil
}

func (e *revEnv) close() {
	for _, x := range e.extra {
		x.stopProvider()
	}
	go e.prov.Close()
	// Close ends a poll only if its responder is registered at that moment: repeat the stop request until
	// Listen has returned (a poll left waiting would keep the mock server from closing)
	for i := 0; i < 100 && e.listen != nil; i++ {
		select {
		case <-e.listen:
			i = 100
		case <-time.After(20 * time.Millisecond):
			go e.client.Invoke("!!", nil)
		}
	}
	e.client.Abort()
	// a poll handler that never returns keeps the server from closing: that is a stuck poll
	closed := make(chan struct{})
	go func() { defer close(closed); e.env.Close() }()
	select {
	case <-closed:
	case <-time.After(5 * time.Second):
		e.t.Emit(tr.Rec{"ev": "hang", "c": 0, "n": 0, "what": "a poll handler never returned: the server cannot close"})
		if e.env.Kind == "mock" {
			mockWedged = true // the mock agent is process-wide: later mock servers would not start
		}
	}
}

// invoke issues call (cc, n) and emits callB / ret.
func (e *revEnv) invoke(cc, n int, bound int) {
	e.t.Emit(tr.Rec{"ev": "callB", "c": cc, "n": n})
	e.invokeBegun(cc, n, bound)
}

// invokeBegun: the call whose callB has been emitted already (nothing between a barrier and the call)
func (e *revEnv) invokeBegun(cc, n int, bound int) {
	t0 := time.Now()
	var r muxRet
	func() {
		defer func() {
			if p := recover(); p != nil {
				r = muxRet{kind: "err", err: fmt.Sprintf("ESCAPED-PANIC %v", p)}
			}
		}()
		id := e.id
		if id == "" {
			id = "prov1"
		}
		res, err := e.caller.Invoke(id, "echo", []interface{}{muxPayload(cc, n)}, reflect.TypeOf(""))
		if err != nil {
			r = muxRet{kind: "err", err: err.Error()}
			return
		}
		s := ""
		if len(res) == 1 {
			s, _ = res[0].(string)
		}
		rc, rn, ok := muxParse([]byte(s))
		if !ok {
			r = muxRet{kind: "resp", rc: -1, rn: -1}
			return
		}
		r = muxRet{kind: "resp", rc: rc, rn: rn}
	}()
	e.t.Emit(tr.Rec{"ev": "ret", "c": cc, "n": n, "kind": r.kind, "rc": r.rc, "rn": r.rn, "ms": int(time.Since(t0) / time.Millisecond), "bound": bound, "err": r.err})
}

var mockWedged bool

// revForced counts scripted steps that did not reach their yield point (reported in the summary)
var revForced int

func parked(g *gate.Controller, point string, wait time.Duration) *gate.Hold {
	deadline := time.After(wait)
	for {
		select {
		case h := <-g.Parked:
			if h.Point == point {
				return h
			}
			h.Release()
		case <-deadline:
			return nil
		}
	}
}

// revProvider is a scripted provider: it speaks the reverse protocol itself ("!" fetches the queued calls,
// "=" reports results), so that the harness decides what is reported, in which order and how often.
type revProvider struct {
	Begin func() ([][]interface{}, error)     `name:"!"`
	End   func(results [][]interface{}) error `name:"="`
}

func revInt(v interface{}) int {
	switch x := v.(type) {
	case int:
		return x
	case int64:
		return int(x)
	}
	return -1
}

// invokeCtx is invoke with a deadline of its own; expected says that the deadline is shorter than the
// scripted provider's delay, so that the error is the call's proper outcome.
func (e *revEnv) invokeCtx(cc, n int, deadline time.Duration, expected bool, bound int) {
	e.t.Emit(tr.Rec{"ev": "callB", "c": cc, "n": n})
	t0 := time.Now()
	ctx, cancel := context.WithTimeout(context.Background(), deadline)
	defer cancel()
	res, err := e.caller.InvokeContext(ctx, "prov1", "echo", []interface{}{muxPayload(cc, n)}, reflect.TypeOf(""))
	r := muxRet{kind: "resp", rc: -1, rn: -1}
	if err != nil {
		r = muxRet{kind: "err", err: err.Error()}
	} else if len(res) == 1 {
		if s, ok := res[0].(string); ok {
			if rc, rn, ok := muxParse([]byte(s)); ok {
				r.rc, r.rn = rc, rn
			}
		}
	}
	e.t.Emit(tr.Rec{"ev": "ret", "c": cc, "n": n, "kind": r.kind, "rc": r.rc, "rn": r.rn, "ms": int(time.Since(t0) / time.Millisecond), "bound": bound, "err": r.err, "expected": expected && r.kind == "err"})
}

// c09ReverseScript: rounds of three concurrent calls against the scripted provider.
func c09ReverseScript(t *tr.Writer, c c09Case) {
	rng := tr.NewRng(c.Seed)
	e, err := newRevEnv(t, c, 0, 2*time.Second, nil)
	if err != nil {
		t.Emit(tr.Rec{"ev": "setup-failed", "err": err.Error()})
		return
	}
	defer e.close()
	sp := &revProvider{}
	e.client.UseService(sp)
	type fetched struct {
		index int
		arg   string
	}
	old := []fetched{}
	for round := 1; round <= c.Calls; round++ {
		shape := []string{"stray", "giveup", "split", "dup"}[(round-1)%4]
		var wg sync.WaitGroup
		for cc := 1; cc <= 3; cc++ {
			wg.Add(1)
			go func(cc int) {
				defer wg.Done()
				if shape == "giveup" && cc == 1+round%3 {
					// this caller gives up while its call is with the provider
					e.invokeCtx(cc, round, 40*time.Millisecond, true, 1000)
					return
				}
				e.invokeCtx(cc, round, 2*time.Second, false, 2500)
			}(cc)
		}
		// fetch until the three calls of the round are here (they are queued concurrently)
		var batch []fetched
		for tries := 0; len(batch) < 3 && tries < 50; tries++ {
			time.Sleep(2 * time.Millisecond)
			calls, err := sp.Begin()
			if err != nil {
				t.Emit(tr.Rec{"ev": "setup-failed", "err": "scripted poll: " + err.Error()})
				wg.Wait()
				return
			}
			for _, cl := range calls {
				if len(cl) == 3 {
					if args, ok := cl[2].([]interface{}); ok && len(args) == 1 {
						a, _ := args[0].(string)
						batch = append(batch, fetched{revInt(cl[0]), a})
					}
				}
			}
		}
		if shape == "giveup" {
			time.Sleep(80 * time.Millisecond) // one caller gives up meanwhile
		}
		mk := func(f fetched) []interface{} { return []interface{}{f.index, f.arg, ""} }
		report := func(rs [][]interface{}) {
			if err := sp.End(rs); err != nil {
				t.Emit(tr.Rec{"ev": "setup-failed", "err": "scripted report: " + err.Error()})
			}
		}
		for _, f := range batch {
			if cc, n, ok := muxParse([]byte(f.arg)); ok {
				t.Emit(tr.Rec{"ev": "answer", "c": cc, "n": n})
			}
		}
		// seeded order of the batch
		for i := len(batch) - 1; i > 0; i-- {
			j := rng.Intn(i + 1)
			batch[i], batch[j] = batch[j], batch[i]
		}
		switch shape {
		case "stray":
			// an index nobody waits for, and one that was answered rounds ago (with a foreign payload), in
			// the middle of the batch
			rs := [][]interface{}{{1000000 + round, "c9-n9", ""}}
			for i, f := range batch {
				rs = append(rs, mk(f))
				if i == 0 && len(old) > 0 {
					rs = append(rs, []interface{}{old[rng.Intn(len(old))].index, "c8-n8", ""})
				}
			}
			report(rs)
		case "giveup":
			rs := [][]interface{}{}
			for _, f := range batch {
				rs = append(rs, mk(f))
			}
			report(rs)
		case "split":
			for _, f := range batch {
				report([][]interface{}{mk(f)})
			}
		case "dup":
			rs := [][]interface{}{}
			for _, f := range batch {
				rs = append(rs, mk(f))
			}
			report(rs)
			for i := range rs {
				rs[i] = []interface{}{rs[i][0], "c7-n7", ""} // the same indexes again, foreign payloads
			}
			report(rs)
		}
		wg.Wait()
		old = append(old, batch...)
	}
}

func c09Reverse(t *tr.Writer, id int, c c09Case) {
	rng := tr.NewRng(c.Seed)
	switch c.Mode {
	case "rcall-script":
		c09ReverseScript(t, c)
	case "rcall", "rcall-idle":
		delays := make([]int, 4096)
		for i := range delays {
			delays[i] = rng.Intn(1500)
		}
		idle := time.Duration(0)
		if c.Mode == "rcall-idle" {
			idle = time.Duration(1+rng.Intn(3)) * time.Millisecond
		}
		e, err := newRevEnv(t, c, idle, 3*time.Second, delays)
		if err != nil {
			t.Emit(tr.Rec{"ev": "setup-failed", "err": err.Error()})
			return
		}
		defer e.close()
		e.start()
		time.Sleep(5 * time.Millisecond)
		pauses := make([][]int, c.Callers+1)
		for cc := range pauses {
			pauses[cc] = make([]int, c.Calls+1)
			for n := range pauses[cc] {
				pauses[cc][n] = rng.Intn(2500)
			}
		}
		var wg sync.WaitGroup
		for cc := 1; cc <= c.Callers; cc++ {
			wg.Add(1)
			go func(cc int) {
				defer wg.Done()
				for n := 1; n <= c.Calls; n++ {
					e.invoke(cc, n, 3500)
					if c.Mode == "rcall-idle" {
						// pauses of the order of the idle time-out, so that calls meet time-outs
						time.Sleep(time.Duration(pauses[cc][n]) * time.Microsecond)
					}
				}
			}(cc)
		}
		wg.Wait()
	case "rcall-first":
		// the very first calls to a provider id that has just connected, issued by several goroutines at the
		// same instant (a barrier releases them): each gets its own result. c.Calls provider ids.
		e, err := newRevEnv(t, c, 0, 2*time.Second, nil)
		if err != nil {
			t.Emit(tr.Rec{"ev": "setup-failed", "err": err.Error()})
			return
		}
		defer e.close()
		e.start()
		for n := 1; n <= c.Calls; n++ {
			x := e.addProvider(fmt.Sprintf("fresh%d", n))
			time.Sleep(3 * time.Millisecond) // its first poll is with the caller
			var arrived int32
			var wg sync.WaitGroup
			for cc := 1; cc <= c.Callers; cc++ {
				wg.Add(1)
				go func(cc int) {
					defer wg.Done()
					t.Emit(tr.Rec{"ev": "callB", "c": cc, "n": n})
					atomic.AddInt32(&arrived, 1)
					for spin := 0; atomic.LoadInt32(&arrived) < int32(c.Callers) && spin < 20000000; spin++ {
					}
					x.invokeBegun(cc, n, 2500)
				}(cc)
			}
			wg.Wait()
		}
	case "rcall-idlestop":
		e, err := newRevEnv(t, c, 5*time.Millisecond, 2*time.Second, nil)
		if err != nil {
			t.Emit(tr.Rec{"ev": "setup-failed", "err": err.Error()})
			return
		}
		defer e.close()
		e.start()
		for n := 1; n <= c.Calls; n++ {
			time.Sleep(time.Duration(10+rng.Intn(30)) * time.Millisecond) // several idle time-outs
			e.invoke(1, n, 2500)
		}
	case "rcall-race", "rcall-stale", "rcall-wake":
		g := gate.New()
		defer g.Close()
		g.HoldTimeout = 4 * time.Second
		idle := 15 * time.Millisecond
		if c.Mode == "rcall-wake" {
			idle = 0
		}
		e, err := newRevEnv(t, c, idle, 2*time.Second, nil)
		if err != nil {
			t.Emit(tr.Rec{"ev": "setup-failed", "err": err.Error()})
			return
		}
		defer e.close()
		all := func([]interface{}) bool { return true }
		switch c.Mode {
		case "rcall-race":
			g.HoldAt("reverse.pollTimeout", all)
		case "rcall-stale":
			g.HoldAt("reverse.pollTimeout", all)
		case "rcall-wake":
			g.HoldAt("reverse.pollEmpty", all)
		}
		e.start()
		forced := 0
		for n := 1; n <= c.Calls; n++ {
			var hp, hq, hs *gate.Hold
			done := make(chan struct{})
			switch c.Mode {
			case "rcall-race":
				// the poll is at its time-out; the call is queued and handed to the poll's responder; then
				// both go on
				if hp = parked(g, "reverse.pollTimeout", 3*time.Second); hp == nil {
					forced++
				}
				g.HoldAt("reverse.invokeQueued", all)
				go func() { defer close(done); e.invoke(1, n, 2500) }()
				if hq = parked(g, "reverse.invokeQueued", 3*time.Second); hq == nil {
					forced++
				}
				g.HoldAt("reverse.invokeQueued", nil)
			case "rcall-stale":
				// the poll has timed out and returned; the next poll is held at its start; the call is
				// queued in between
				if hp = parked(g, "reverse.pollTimeout", 3*time.Second); hp == nil {
					forced++
				}
				g.HoldAt("reverse.pollStart", all)
				if hp != nil {
					hp.Release()
					hp = nil
				}
				if hs = parked(g, "reverse.pollStart", 3*time.Second); hs == nil {
					forced++
				}
				g.HoldAt("reverse.pollStart", nil)
				g.HoldAt("reverse.invokeQueued", all)
				go func() { defer close(done); e.invoke(1, n, 2500) }()
				if hq = parked(g, "reverse.invokeQueued", 3*time.Second); hq == nil {
					forced++
				}
				g.HoldAt("reverse.invokeQueued", nil)
			case "rcall-wake":
				// the poll has found the queue empty and has not registered its responder yet; the call
				// is queued and finds no responder; then the poll registers
				if hp = parked(g, "reverse.pollEmpty", 3*time.Second); hp == nil {
					forced++
				}
				g.HoldAt("reverse.invokeQueued", all)
				go func() { defer close(done); e.invoke(1, n, 2500) }()
				if hq = parked(g, "reverse.invokeQueued", 3*time.Second); hq == nil {
					forced++
				}
				g.HoldAt("reverse.invokeQueued", nil)
			}
			for _, h := range []*gate.Hold{hq, hs, hp} {
				if h != nil {
					h.Release()
				}
			}
			select {
			case <-done:
			case <-time.After(5 * time.Second):
				t.Emit(tr.Rec{"ev": "hang", "c": 1, "n": n})
			}
			if forced > 0 {
				break // the scenario is off its script (the provider has stopped polling, say)
			}
		}
		g.HoldAt("reverse.pollTimeout", nil)
		g.HoldAt("reverse.pollEmpty", nil)
		// let go of whatever is still parked
		for {
			select {
			case h := <-g.Parked:
				h.Release()
				continue
			default:
			}
			break
		}
		revForced += forced + g.Forced
	}
}

// c09RealFns: concurrent callers on one client (one connection) call different functions of a real
// service at the same time; every function marks its answer with its own name, so that a request run
// through another caller's function (or context) shows in the response.
func c09RealFns(t *tr.Writer, c c09Case) {
	svc := core.NewService()
	const nfn = 8
	for i := 0; i < nfn; i++ {
		i := i
		svc.AddFunction(func(ctx context.Context, payload string) string {
			cc, n, ok := muxParse([]byte(payload))
			if ok {
				t.Emit(tr.Rec{"ev": "answer", "c": cc, "n": n})
			}
			// the method the service context of this very request names
			name := ""
			if sc := core.GetServiceContext(ctx); sc != nil && sc.Method != nil {
				name = sc.Method.Name()
			}
			return fmt.Sprintf("f%d|%s|%s", i, name, payload)
		}, fmt.Sprintf("fn%d", i))
	}
	env, err := rpcenv.Start(c.Kind, svc, c.Seed%2 == 0)
	if err != nil {
		t.Emit(tr.Rec{"ev": "setup-failed", "err": err.Error()})
		return
	}
	defer env.Close()
	client := core.NewClient(env.URL)
	defer client.Abort()
	var wg sync.WaitGroup
	for cc := 1; cc <= c.Callers; cc++ {
		wg.Add(1)
		go func(cc int) {
			defer wg.Done()
			fn := fmt.Sprintf("fn%d", cc%nfn)
			for n := 1; n <= c.Calls; n++ {
				t.Emit(tr.Rec{"ev": "callB", "c": cc, "n": n})
				t0 := time.Now()
				res, err := client.Invoke(fn, []interface{}{muxPayload(cc, n)})
				r := muxRet{kind: "resp", rc: -1, rn: -1}
				if err != nil {
					r = muxRet{kind: "err", err: err.Error()}
				} else if len(res) == 1 {
					if s, ok := res[0].(string); ok {
						// the answer must come from this caller's function, under this caller's method name
						want := fmt.Sprintf("f%d|%s|", cc%nfn, fn)
						if len(s) > len(want) && s[:len(want)] == want {
							if rc, rn, ok := muxParse([]byte(s[len(want):])); ok {
								r.rc, r.rn = rc, rn
							}
						} else {
							r.err = "answered by " + s[:minInt(len(s), 24)]
						}
					}
				}
				t.Emit(tr.Rec{"ev": "ret", "c": cc, "n": n, "kind": r.kind, "rc": r.rc, "rn": r.rn, "ms": int(time.Since(t0) / time.Millisecond), "bound": 5000, "err": r.err})
			}
		}(cc)
	}
	wg.Wait()
}

func minInt(a, b int) int {
	if a < b {
		return a
	}
	return b
}

// c10ReverseGiveup: reverse calls that time out while the provider is away must not stay queued: when the
// provider polls again it is handed nothing (the queue is the reverse calls' pending table).
func c10ReverseGiveup(t *tr.Writer, c c10Case) {
	cc := c09Case{Kind: c.Kind, Mode: "rcall-giveup", Callers: 3, Calls: 1, Seed: 1}
	e, err := newRevEnv(t, cc, 60*time.Millisecond, 2*time.Second, nil)
	if err != nil {
		t.Emit(tr.Rec{"ev": "setup-failed", "err": err.Error()})
		return
	}
	defer e.close()
	sp := &revProvider{}
	e.client.UseService(sp)
	var wg sync.WaitGroup
	for k := 1; k <= 3; k++ {
		wg.Add(1)
		go func(k int) {
			defer wg.Done()
			e.invokeCtx(k, 1, 30*time.Millisecond, true, 1000)
		}(k)
	}
	wg.Wait()
	time.Sleep(10 * time.Millisecond)
	stale := 0
	for i := 0; i < 2; i++ {
		calls, err := sp.Begin() // returns at the idle time-out when nothing is queued
		if err != nil {
			t.Emit(tr.Rec{"ev": "setup-failed", "err": "scripted poll: " + err.Error()})
			return
		}
		stale += len(calls)
	}
	t.Emit(tr.Rec{"ev": "quiesce", "pending": stale, "leak": 0, "pooled": 0})
	// and the caller stays usable: a call made while the provider polls is answered
	done := make(chan struct{})
	go func() { defer close(done); e.invokeCtx(9, 1, 2*time.Second, false, 2500) }()
	for i := 0; i < 20; i++ {
		calls, err := sp.Begin()
		if err != nil {
			break
		}
		answered := false
		for _, cl := range calls {
			if len(cl) == 3 {
				if args, ok := cl[2].([]interface{}); ok && len(args) == 1 {
					a, _ := args[0].(string)
					if cn, n, ok := muxParse([]byte(a)); ok {
						t.Emit(tr.Rec{"ev": "answer", "c": cn, "n": n})
					}
					sp.End([][]interface{}{{revInt(cl[0]), a, ""}})
					answered = true
				}
			}
		}
		if answered {
			break
		}
	}
	<-done
	t.Emit(tr.Rec{"ev": "fresh", "ok": true})
}
