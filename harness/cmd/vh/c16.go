package main

import (
	"context"
	"encoding/json"
	"errors"
	"fmt"
	"strconv"
	"strings"
	"sync"
	"sync/atomic"
	"time"

	"github.com/hprose/hprose-golang/v3/rpc/core"
	"github.com/hprose/hprose-golang/v3/rpc/plugins/cluster"

	"verif/harness/tr"
)

// C16: cluster plugin. A scripted downstream handler stands in for the servers: it records each
// attempt with its target URL and produces the scripted outcome. In the fan-out modes (forking,
// broadcast) every attempt parks until the driver releases it, so completion orders are chosen by
// the case. The Cluster monitor (TLA+) judges the attempts and the caller's result.

func init() { drivers["c16"] = runC16 }

type c16Call struct {
	Idem     string   `json:"idem"`  // default | true | false
	Retry    int      `json:"retry"` // -1 default
	Outcomes []string `json:"outcomes"`
	Order    []int    `json:"order,omitempty"` // fan-out: release order (indices into servers)
}

type c16Case struct {
	Mode    string    `json:"mode"`
	Servers int       `json:"servers"`
	Retry   int       `json:"retry"`
	Idem    bool      `json:"idem"`
	Calls   []c16Call `json:"calls"`
	// Warm > 0: before the traced calls this many goroutines make failing idempotent calls at the same time
	// (untraced): the rotation index that FailoverConfig shares between the calls is advanced and wrapped
	// around concurrently; the traced sequential calls then find it in whatever state that left
	Warm int `json:"warm,omitempty"`
}

type c16Park struct {
	url string
	k   int
	ch  chan string
}

func c16ParseVal(s string) tr.Rec {
	// "v:<url>:<k>" / "e:<url>:<k>" / "p:<url>:<k>"
	parts := strings.Split(s, ":")
	if len(parts) == 3 {
		k, err := strconv.Atoi(parts[2])
		kind := map[string]string{"v": "ok", "e": "err", "p": "panic"}[parts[0]]
		if err == nil && kind != "" {
			return tr.Rec{"kind": kind, "url": parts[1], "k": k}
		}
	}
	return tr.Rec{"kind": "garbled:" + s, "url": "", "k": -1}
}

func c16Run(t *tr.Writer, id int, c c16Case) {
	urls := []string{}
	names := []string{}
	for i := 0; i < c.Servers; i++ {
		urls = append(urls, fmt.Sprintf("verif://s%d", i))
		names = append(names, fmt.Sprintf("s%d", i))
	}
	client := core.NewClient(urls...)
	var mu sync.Mutex
	k := 0
	var script []string
	scriptPos := 0
	fan := c.Mode == "forking" || c.Mode == "broadcast"
	parked := make(chan *c16Park, 16)
	produce := func(o string, url string, kk int) (string, error) {
		switch o {
		case "ok":
			return fmt.Sprintf("v:%s:%d", url, kk), nil
		case "err":
			return "", errors.New(fmt.Sprintf("e:%s:%d", url, kk))
		default:
			panic(fmt.Sprintf("p:%s:%d", url, kk))
		}
	}
	var warming int32
	enter := func(ctx context.Context) (string, int, string) {
		url := core.GetClientContext(ctx).URL.Host
		if atomic.LoadInt32(&warming) == 1 {
			return url, 0, "warm"
		}
		mu.Lock()
		k++
		kk := k
		o := "ok"
		if !fan {
			if scriptPos < len(script) {
				o = script[scriptPos]
			}
			scriptPos++
		}
		mu.Unlock()
		if fan {
			t.Emit(tr.Rec{"ev": "attempt", "url": url, "o": "parked", "k": kk})
			p := &c16Park{url, kk, make(chan string)}
			parked <- p
			o = <-p.ch
		} else {
			t.Emit(tr.Rec{"ev": "attempt", "url": url, "o": o, "k": kk})
		}
		return url, kk, o
	}
	ioScripted := func(ctx context.Context, request []byte, next core.NextIOHandler) ([]byte, error) {
		url, kk, o := enter(ctx)
		if o == "warm" {
			return nil, errors.New("warm-up failure")
		}
		v, err := produce(o, url, kk)
		if err != nil {
			return nil, err
		}
		return miniResp(v), nil
	}
	invScripted := func(ctx context.Context, name string, args []interface{}, next core.NextInvokeHandler) ([]interface{}, error) {
		url, kk, o := enter(ctx)
		v, err := produce(o, url, kk)
		if err != nil {
			return nil, err
		}
		return []interface{}{v}, nil
	}
	opts := []cluster.Option{cluster.WithRetry(c.Retry), cluster.WithIdempotent(c.Idem), cluster.WithMinInterval(0), cluster.WithMaxInterval(0)}
	switch c.Mode {
	case "failover":
		client.Use(cluster.New(cluster.FailoverConfig(opts...)), core.IOHandler(ioScripted))
	case "failtry":
		client.Use(cluster.New(cluster.FailtryConfig(opts...)), core.IOHandler(ioScripted))
	case "failfast":
		client.Use(cluster.New(cluster.FailfastConfig(func(context.Context) {})), core.IOHandler(ioScripted))
	case "forking":
		client.Use(core.IOHandler(cluster.Forking), core.IOHandler(ioScripted))
	case "broadcast":
		client.Use(core.InvokeHandler(cluster.Broadcast), core.InvokeHandler(invScripted))
	}
	Watch(id, tr.Rec{"mode": c.Mode}, c)
	if c.Warm > 0 {
		atomic.StoreInt32(&warming, 1)
		var wg sync.WaitGroup
		start := make(chan struct{})
		for g := 0; g < c.Warm; g++ {
			wg.Add(1)
			go func() {
				defer wg.Done()
				defer func() { _ = recover() }()
				<-start
				for i := 0; i < 400; i++ {
					cc := core.NewClientContext()
					cc.Items().Set("idempotent", true)
					cc.Items().Set("retry", 2)
					_, _ = client.InvokeContext(core.WithContext(context.Background(), cc), "f", nil)
				}
			}()
		}
		close(start)
		wg.Wait()
		atomic.StoreInt32(&warming, 0)
	}
	t.Reset(id, tr.Rec{"mode": c.Mode, "servers": names, "retry": c.Retry, "idem": c.Idem, "input": c})
	for ci, call := range c.Calls {
		mu.Lock()
		script = call.Outcomes
		scriptPos = 0
		mu.Unlock()
		cc := core.NewClientContext()
		if call.Idem != "default" {
			cc.Items().Set("idempotent", call.Idem == "true")
		}
		if call.Retry >= 0 {
			cc.Items().Set("retry", call.Retry)
		}
		ctx := core.WithContext(context.Background(), cc)
		t.Emit(tr.Rec{"ev": "callB", "call": ci, "idem": call.Idem, "retry": call.Retry})
		type result struct {
			res []interface{}
			err error
		}
		done := make(chan result, 1)
		go func() {
			var r result
			defer func() {
				if e := recover(); e != nil {
					r.err = fmt.Errorf("ESCAPED-PANIC %v", e)
				}
				done <- r
			}()
			r.res, r.err = client.InvokeContext(ctx, "f", nil)
		}()
		emitEnd := func(r result) {
			if r.err != nil {
				t.Emit(tr.Rec{"ev": "callE", "call": ci, "res": c16ParseVal(r.err.Error())})
				return
			}
			if c.Mode == "broadcast" {
				vals := []tr.Rec{}
				for _, e := range r.res {
					s := "?"
					if l, ok := e.([]interface{}); ok && len(l) == 1 {
						s, _ = l[0].(string)
					}
					pv := c16ParseVal(s)
					vals = append(vals, tr.Rec{"url": pv["url"], "k": pv["k"]})
				}
				t.Emit(tr.Rec{"ev": "callE", "call": ci, "res": tr.Rec{"kind": "ok", "vals": vals}})
				return
			}
			s := "?"
			if len(r.res) == 1 {
				s, _ = r.res[0].(string)
			}
			t.Emit(tr.Rec{"ev": "callE", "call": ci, "res": c16ParseVal(s)})
		}
		if !fan {
			select {
			case r := <-done:
				emitEnd(r)
			case <-time.After(20 * time.Second):
				t.Emit(tr.Rec{"ev": "hang", "call": ci})
				return
			}
			continue
		}
		// fan-out: wait until every server's attempt is parked, then release in the case's order
		byURL := map[string]*c16Park{}
		deadline := time.After(5 * time.Second)
	collect:
		for len(byURL) < c.Servers {
			select {
			case p := <-parked:
				byURL[p.url] = p
			case <-deadline:
				break collect
			}
		}
		returned := false
		for _, si := range call.Order {
			p := byURL[names[si]]
			if p == nil {
				continue
			}
			o := call.Outcomes[si]
			t.Emit(tr.Rec{"ev": "release", "url": p.url, "o": o, "k": p.k})
			p.ch <- o
			if !returned {
				wait := 150 * time.Millisecond
				if o == "ok" || si == call.Order[len(call.Order)-1] {
					wait = 3 * time.Second // the call is expected to return now
				}
				if c.Mode == "broadcast" && si != call.Order[len(call.Order)-1] {
					wait = 2 * time.Millisecond
				} else if c.Mode == "forking" && o != "ok" && si != call.Order[len(call.Order)-1] {
					wait = 2 * time.Millisecond
				}
				select {
				case r := <-done:
					returned = true
					emitEnd(r)
				case <-time.After(wait):
				}
			} else {
				time.Sleep(200 * time.Microsecond)
			}
		}
		// extra attempts beyond the configured servers would show up here
		select {
		case p := <-parked:
			t.Emit(tr.Rec{"ev": "attempt", "url": p.url, "o": "extra", "k": p.k})
			close(p.ch)
		default:
		}
		if !returned {
			select {
			case r := <-done:
				emitEnd(r)
			case <-time.After(3 * time.Second):
				t.Emit(tr.Rec{"ev": "hang", "call": ci})
				return
			}
		}
		t.Emit(tr.Rec{"ev": "end", "call": ci})
	}
}

func c16Seqs(n int, alphabet []string) [][]string {
	if n == 0 {
		return [][]string{{}}
	}
	var out [][]string
	for _, p := range c16Seqs(n-1, alphabet) {
		for _, a := range alphabet {
			out = append(out, append(append([]string(nil), p...), a))
		}
	}
	return out
}

func c16Perms(n int) [][]int {
	if n == 1 {
		return [][]int{{0}}
	}
	var out [][]int
	for _, p := range c16Perms(n - 1) {
		for i := 0; i <= len(p); i++ {
			q := append(append(append([]int(nil), p[:i]...), n-1), p[i:]...)
			out = append(out, q)
		}
	}
	return out
}

func runC16(a Args) tr.Summary {
	t := tr.New(a.Out)
	defer t.Close()
	var sum tr.Summary
	if a.Only != "" {
		var c c16Case
		if err := json.Unmarshal([]byte(a.Only), &c); err != nil {
			panic(err)
		}
		c16Run(t, 1, c)
		sum.Cases, sum.Events = t.Cases, t.Lines
		return sum
	}
	outs := []string{"ok", "err", "panic"}
	maxRetry := 2
	if a.Tier == "thorough" {
		maxRetry = 3
	}
	id := 0
	nontrivial := 0
	run := func(c c16Case) {
		id++
		c16Run(t, id, c)
		fails := 0
		for _, k := range c.Calls {
			for _, o := range k.Outcomes {
				if o != "ok" {
					fails++
				}
			}
		}
		if fails > 0 {
			nontrivial++
		}
		if id%3331 == 5 && len(sum.Samples) < 5 {
			sum.Samples = append(sum.Samples, c)
		}
	}
	// retry modes, single call: every outcome sequence up to retry+2 attempts
	for _, mode := range []string{"failover", "failtry", "failfast"} {
		for servers := 1; servers <= 3; servers++ {
			for retry := 0; retry <= maxRetry; retry++ {
				for _, idem := range []bool{false, true} {
					for _, ov := range []string{"default", "true", "false"} {
						for _, seq := range c16Seqs(retry+2, outs) {
							run(c16Case{mode, servers, retry, idem, []c16Call{{ov, -1, seq, nil}}, 0})
						}
					}
				}
			}
		}
	}
	single := id
	// per-call retry override and sequences of calls on one client (the failover index is shared)
	rng := tr.NewRng(a.Seed)
	nSeq := 1500
	if a.Tier == "thorough" {
		nSeq = 20000
	}
	for i := 0; i < nSeq; i++ {
		mode := []string{"failover", "failover", "failtry"}[rng.Intn(3)]
		servers := 1 + rng.Intn(4)
		retry := rng.Intn(4)
		nc := 2 + rng.Intn(3)
		var calls []c16Call
		for j := 0; j < nc; j++ {
			r := -1
			if rng.Intn(3) == 0 {
				r = rng.Intn(4)
			}
			n := 5
			seq := make([]string, n)
			for x := range seq {
				seq[x] = outs[rng.Intn(3)]
				if rng.Intn(3) == 0 {
					seq[x] = "err"
				}
			}
			calls = append(calls, c16Call{[]string{"default", "true", "false"}[rng.Intn(3)], r, seq, nil})
		}
		run(c16Case{mode, servers, retry, rng.Intn(3) != 0, calls, 0})
	}
	// after a concurrent burst of failures (the shared rotation index has been advanced and wrapped around by
	// several goroutines at once) failover still moves on from a failed server
	nWarm := 6
	if a.Tier == "thorough" {
		nWarm = 40
	}
	for i := 0; i < nWarm; i++ {
		servers := 2 + i%3
		calls := []c16Call{{"true", -1, []string{"err", "ok"}, nil}, {"true", -1, []string{"err", "err", "ok"}, nil}, {"true", -1, []string{"panic", "ok"}, nil}}
		run(c16Case{"failover", servers, 3, true, calls, 4 + 4*(i%3)})
	}
	// fan-out modes: every outcome vector x every completion order
	for _, mode := range []string{"forking", "broadcast"} {
		for servers := 1; servers <= 3; servers++ {
			for _, seq := range c16Seqs(servers, outs) {
				for _, ord := range c16Perms(servers) {
					run(c16Case{mode, servers, 0, false, []c16Call{{"default", -1, seq, ord}}, 0})
				}
			}
		}
	}
	sum.Cases = id
	sum.Events = t.Lines
	sum.Nontrivial = nontrivial
	sum.Extra = tr.Rec{"single_call_cases": single, "multi_call_cases": nSeq, "max_retry": maxRetry}
	return sum
}
