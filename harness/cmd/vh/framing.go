package main

import (
	"bufio"
	"context"
	"fmt"
	"net"
	"net/url"
	"strings"
	"sync"
	"time"

	"github.com/hprose/hprose-golang/v3/rpc/core"

	"verif/harness/peers"
	"verif/harness/rpcenv"
	"verif/harness/tr"
)

// Replay of the message space of spec/calls/Framing.tla into the real transports. A message is
// (sender, body, declared length, checksum good?); bodies are up to frMaxBody bytes over two values,
// a byte carries its sender (0x10 / 0x20 / 0x30 + value), so that the trace can say whose bytes a
// handler was given. Every single message, and seeded sequences of two and three, are sent to a real
// service through raw sockets; what the service did with each (its outermost IO handler saw exactly
// these bytes / it answered "too large" / nothing / the connection had already been ended) is
// recorded and validated by FramingTrace against the model's receiver functions.

const (
	frMaxBody = 2
	frLimit   = 1
)

type frMsg struct {
	From string `json:"from"`
	Body []byte `json:"body"`
	Decl int    `json:"decl"` // -1: none (http: chunked)
	Crc  bool   `json:"crc"`
}

var frClients = map[string]byte{"a": 0x10, "b": 0x20, "s": 0x30}

func frBytes(b []byte) [][]interface{} {
	out := [][]interface{}{}
	for _, x := range b {
		who := "-"
		for c, base := range frClients {
			if x&0xf0 == base {
				who = c
			}
		}
		out = append(out, []interface{}{who, int(x & 0x0f)})
	}
	return out
}

func frSpace(kind string) []frMsg {
	var out []frMsg
	for _, from := range []string{"a", "b"} {
		base := frClients[from]
		bodies := [][]byte{{}}
		for n := 1; n <= frMaxBody; n++ {
			var next [][]byte
			for _, b := range bodies {
				if len(b) == n-1 {
					for v := byte(1); v <= 2; v++ {
						next = append(next, append(append([]byte{}, b...), base+v))
					}
				}
			}
			bodies = append(bodies, next...)
		}
		for _, body := range bodies {
			lo := 0
			if kind == "http" {
				lo = -1
			}
			for decl := lo; decl <= frMaxBody+1; decl++ {
				for _, crc := range []bool{true, false} {
					if kind == "http" && !crc {
						continue
					}
					out = append(out, frMsg{from, body, decl, crc})
				}
			}
		}
	}
	return out
}

type frEnv struct {
	kind           string // dgram | stream | http
	env            *rpcenv.Env
	mu             sync.Mutex
	handled        chan []byte
	udp            map[string]*net.UDPConn
	tcp            map[string]net.Conn
	dead           map[string]bool
	host           string
	pendingBarrier *frMsg // dgram: the barrier datagram sent behind the last message
}

func newFrEnv(kind string) (*frEnv, error) {
	e := &frEnv{kind: kind, handled: make(chan []byte, 64), udp: map[string]*net.UDPConn{}, tcp: map[string]net.Conn{}, dead: map[string]bool{}}
	s := core.NewService()
	s.MaxRequestLength = frLimit
	s.Use(core.IOHandler(func(ctx context.Context, request []byte, next core.NextIOHandler) ([]byte, error) {
		e.handled <- append([]byte{}, request...)
		return []byte("K"), nil
	}))
	transport := map[string]string{"dgram": "udp", "stream": "tcp", "http": "http"}[kind]
	env, err := rpcenv.Start(transport, s, false)
	if err != nil {
		return nil, err
	}
	e.env = env
	u, _ := url.Parse(env.URL)
	e.host = u.Host
	return e, nil
}

func (e *frEnv) close() {
	for _, c := range e.udp {
		c.Close()
	}
	for _, c := range e.tcp {
		c.Close()
	}
	e.env.Close()
}

func (e *frEnv) drain() {
	for {
		select {
		case <-e.handled:
		default:
			return
		}
	}
}

// wire renders the message's frame
func (e *frEnv) wire(m frMsg) []byte {
	var h []byte
	if e.kind == "dgram" {
		h = peers.UDPHeader(m.Decl, 1, false)
	} else {
		h = peers.SocketHeader(m.Decl, 1, false)
	}
	if !m.Crc {
		h[1] ^= 0x40
	}
	return append(h, m.Body...)
}

// send delivers the message and observes what the service does with it
func (e *frEnv) send(m frMsg) (outcome string, given []byte) {
	e.drain()
	wait := func(d time.Duration) ([]byte, bool) {
		select {
		case b := <-e.handled:
			return b, true
		case <-time.After(d):
			return nil, false
		}
	}
	switch e.kind {
	case "dgram":
		c := e.udp[m.From]
		if c == nil {
			addr, _ := net.ResolveUDPAddr("udp", e.host)
			c, _ = net.DialUDP("udp", nil, addr)
			e.udp[m.From] = c
		}
		c.Write(e.wire(m))
		// a barrier instead of a fixed wait: an honest one-byte datagram from a third socket is sent behind the
		// message; the service has one receive loop, so when the barrier has been answered the message has
		// been dealt with (the barrier is part of the trace: it lands in the receive buffer too)
		sc := e.udp["s"]
		if sc == nil {
			addr, _ := net.ResolveUDPAddr("udp", e.host)
			sc, _ = net.DialUDP("udp", nil, addr)
			e.udp["s"] = sc
		}
		barrier := frMsg{From: "s", Body: []byte{frClients["s"] + 1}, Decl: 1, Crc: true}
		sc.Write(e.wire(barrier))
		sbuf := make([]byte, 70000)
		sc.SetReadDeadline(time.Now().Add(3 * time.Second))
		if n, err := sc.Read(sbuf); err != nil || n < 8 {
			e.pendingBarrier = nil
			return "barrier-lost", nil
		}
		e.pendingBarrier = &barrier
		// what the handler was given for the message (the barrier's own hand-over is set aside)
		var given []byte
		handled := false
		deadline := time.After(30 * time.Millisecond)
	collect:
		for got := 0; got < 2; {
			select {
			case b := <-e.handled:
				got++
				if len(b) == 1 && b[0] == barrier.Body[0] && !(len(m.Body) >= 1 && m.Body[0] == barrier.Body[0]) {
					continue
				}
				given, handled = b, true
			case <-deadline:
				break collect
			}
		}
		c.SetReadDeadline(time.Now().Add(10 * time.Millisecond))
		buf := make([]byte, 70000)
		n, err := c.Read(buf)
		switch {
		case handled:
			return "delivered", given
		case err == nil && n >= 8 && buf[6]&0x80 != 0: // error flag: the top bit of the index
			return "refused", nil
		case err == nil && n >= 8:
			return "answered-unhandled", nil
		}
		return "dropped", nil
	case "stream":
		if e.dead[m.From] {
			return "closed", nil
		}
		c := e.tcp[m.From]
		if c == nil {
			c, _ = net.Dial("tcp", e.host)
			e.tcp[m.From] = c
		}
		frame := e.wire(m)
		if m.Decl >= 0 && m.Decl < len(m.Body) {
			frame = append(frame, []byte(strings.Repeat("\xee", 12))...) // what follows a short frame is not a header
		}
		c.Write(frame)
		if m.Decl > len(m.Body) {
			// the receiver waits for the rest: the sender ends the connection instead
			if tc, ok := c.(*net.TCPConn); ok {
				tc.CloseWrite()
			}
		}
		c.SetReadDeadline(time.Now().Add(2 * time.Second))
		hdr := make([]byte, 12)
		n, err := readFull(c, hdr)
		switch {
		case err == nil && n == 12:
			blen := int(hdr[4])<<24 | int(hdr[5])<<16 | int(hdr[6])<<8 | int(hdr[7])
			body := make([]byte, blen&0x7fffffff)
			readFull(c, body)
			if hdr[8]&0x80 != 0 { // error flag: the top bit of the index
				e.dead[m.From] = true // the service ends the connection after an error response
				return "refused", nil
			}
			b, ok := wait(50 * time.Millisecond)
			if m.Decl < len(m.Body) {
				e.dead[m.From] = true
			}
			if ok {
				return "delivered", b
			}
			return "answered-unhandled", nil
		default:
			e.dead[m.From] = true
			if b, ok := wait(2 * time.Millisecond); ok {
				return "delivered", b
			}
			return "dropped", nil
		}
	default: // http
		c, err := net.Dial("tcp", e.host)
		if err != nil {
			return "dropped", nil
		}
		defer c.Close()
		var req string
		if m.Decl >= 0 {
			req = fmt.Sprintf("POST / HTTP/1.1\r\nHost: x\r\nContent-Length: %d\r\nConnection: close\r\n\r\n%s", m.Decl, m.Body)
		} else if len(m.Body) == 0 {
			req = "POST / HTTP/1.1\r\nHost: x\r\nTransfer-Encoding: chunked\r\nConnection: close\r\n\r\n0\r\n\r\n"
		} else {
			req = fmt.Sprintf("POST / HTTP/1.1\r\nHost: x\r\nTransfer-Encoding: chunked\r\nConnection: close\r\n\r\n%x\r\n%s\r\n0\r\n\r\n", len(m.Body), m.Body)
		}
		c.Write([]byte(req))
		if m.Decl > len(m.Body) {
			if tc, ok := c.(*net.TCPConn); ok {
				tc.CloseWrite()
			}
		}
		c.SetReadDeadline(time.Now().Add(300 * time.Millisecond))
		line, _ := bufio.NewReader(c).ReadString('\n')
		switch {
		case strings.Contains(line, " 200"):
			if b, ok := wait(50 * time.Millisecond); ok {
				return "delivered", b
			}
			return "answered-unhandled", nil
		case strings.Contains(line, " 413"):
			return "refused", nil
		}
		if b, ok := wait(2 * time.Millisecond); ok {
			return "delivered", b
		}
		return "dropped", nil
	}
}

func readFull(c net.Conn, b []byte) (int, error) {
	n := 0
	for n < len(b) {
		k, err := c.Read(b[n:])
		n += k
		if err != nil {
			return n, err
		}
	}
	return n, nil
}

func frRun(t *tr.Writer, id int, kind string, seq []frMsg) {
	Watch(id, tr.Rec{"kind": kind}, seq)
	e, err := newFrEnv(kind)
	t.Reset(id, tr.Rec{"kind": kind, "limit": frLimit, "buflen": frMaxBody + 1, "input": tr.Rec{"kind": kind, "seq": seq}})
	if err != nil {
		t.Emit(tr.Rec{"ev": "setup-failed", "err": err.Error()})
		return
	}
	defer e.close()
	for _, m := range seq {
		outcome, given := e.send(m)
		t.Emit(tr.Rec{"ev": "msg", "from": m.From, "body": frBytes(m.Body), "decl": m.Decl, "crc": m.Crc, "outcome": outcome, "given": frBytes(given)})
		if b := e.pendingBarrier; b != nil {
			t.Emit(tr.Rec{"ev": "msg", "from": b.From, "body": frBytes(b.Body), "decl": b.Decl, "crc": b.Crc, "outcome": "delivered", "given": frBytes(b.Body)})
			e.pendingBarrier = nil
		}
	}
}

// runFraming writes the replay trace next to the driver's main trace (suffix .framing)
func runFraming(a Args, kinds []string) (cases int) {
	t := tr.New(a.Out + ".framing")
	defer t.Close()
	rng := tr.NewRng(a.Seed)
	id := 0
	for _, kind := range kinds {
		space := frSpace(kind)
		// every message by itself (a fresh service each: the receive buffer is as the model's Init says),
		// in groups: one service per group of single-message cases would share the buffer, so one each
		for _, m := range space {
			id++
			frRun(t, id, kind, []frMsg{m})
		}
		// seeded sequences of two and three messages: the state one message leaves behind (buffer, ended
		// connections) is what the next one meets
		n := 60
		if a.Tier == "thorough" {
			n = 600
		}
		for i := 0; i < n; i++ {
			id++
			seq := []frMsg{space[rng.Intn(len(space))], space[rng.Intn(len(space))]}
			if i%3 == 0 {
				seq = append(seq, space[rng.Intn(len(space))])
			}
			// the buffer-reuse shape on purpose, half of the time: a long honest body, then a short one that
			// declares more than it carries
			if i%2 == 0 {
				seq[0].Decl, seq[0].Crc = len(seq[0].Body), true
				seq[1].Decl, seq[1].Crc = len(seq[1].Body)+1, true
			}
			frRun(t, id, kind, seq)
		}
	}
	return id
}
