package main

import (
	"context"
	"encoding/json"
	"errors"
	"fmt"
	"runtime"
	"strings"
	"sync"
	"sync/atomic"
	"time"

	"github.com/hprose/hprose-golang/v3/rpc/core"

	"verif/harness/tr"
)

// C15: plugin onion. Recording handlers (distinct top-level functions and the methods of a
// two-sided plugin) are installed and removed through the real Client.Use/Unuse and
// Service.Use/Unuse; calls are run to completion or suspended inside a handler while the chain is
// changed. Every handler logs what it sees on the way in and what `next` gave it on the way out.
// The PluginChain monitor (TLA+) judges the trace. The driver contains no expectation.

func init() {
	drivers["c15"] = runC15
	core.RegisterTransport("verif", verifTransportFactory{})
}

// ---- a transport owned by the harness: hands the request to a function found in the context ----

type verifTransportKey struct{}
type verifTransportFn func(ctx context.Context, request []byte) ([]byte, error)
type verifTransport struct{}
type verifTransportFactory struct{}

func (verifTransportFactory) Schemes() []string   { return []string{"verif"} }
func (verifTransportFactory) New() core.Transport { return verifTransport{} }
func (verifTransport) Abort()                     {}
func (verifTransport) Transport(ctx context.Context, request []byte) ([]byte, error) {
	if f, ok := ctx.Value(verifTransportKey{}).(verifTransportFn); ok {
		return f(ctx, request)
	}
	return nil, fmt.Errorf("verif transport: no function in context")
}

// ---- mini codec (harness-owned, ASCII only) ----

func miniStr(s string) string {
	switch len(s) {
	case 0:
		return "e"
	case 1:
		return "u" + s
	}
	return fmt.Sprintf("s%d\"%s\"", len(s), s)
}
func miniReq(name string) []byte { return []byte("C" + miniStr(name) + "z") }
func miniResp(val string) []byte { return []byte("R" + miniStr(val) + "z") }
func miniParse(b []byte) string {
	s := string(b)
	if len(s) >= 3 && s[1] == 'u' {
		return s[2:3]
	}
	i := strings.IndexByte(s, '"')
	j := strings.LastIndexByte(s, '"')
	if i < 0 || j <= i {
		return ""
	}
	return s[i+1 : j]
}

// ---- state shared by the recording handlers of the running case ----

type c15State struct {
	t        *tr.Writer
	beh      map[string]string
	mu       sync.Mutex
	breakAt  map[int]string        // call -> handler at which it suspends (once)
	parked   map[int]chan struct{} // call -> release channel
	parkedCh chan int              // signals "call parked"
}

var c15Cur *c15State

type c15CallKey struct{}

func c15CallID(ctx context.Context) int {
	if v, ok := ctx.Value(c15CallKey{}).(int); ok {
		return v
	}
	return -1
}

func inPath(name string) []string {
	p := strings.Split(name, "_")[1:]
	if p == nil {
		p = []string{}
	}
	return p
}

// value strings: "R(<name>)" + "-h"*   or   "S(<h>,<name>)" + "-h"*
func outVal(v string) tr.Rec {
	out := []string{}
	// the core function's error "E(<name>)": as an error, or (ENC) as an already encoded response
	for _, pre := range []string{"ERR:E(", "ENC:E("} {
		if strings.HasPrefix(v, pre) && strings.HasSuffix(v, ")") {
			by := "core-error"
			if pre[1] == 'N' {
				by = "encoded-core-error"
			}
			return tr.Rec{"by": by, "inp": inPath(v[len(pre) : len(v)-1]), "out": out}
		}
	}
	k := strings.IndexByte(v, ')')
	if k < 0 {
		return tr.Rec{"by": "garbled:" + v, "inp": []string{}, "out": out}
	}
	head, tail := v[:k], v[k+1:]
	if tail != "" {
		out = strings.Split(tail, "-")[1:]
	}
	if strings.HasPrefix(head, "R(") {
		return tr.Rec{"by": "core", "inp": inPath(head[2:]), "out": out}
	}
	if strings.HasPrefix(head, "S(") {
		parts := strings.SplitN(head[2:], ",", 2)
		if len(parts) == 2 {
			return tr.Rec{"by": parts[0], "inp": inPath(parts[1]), "out": out}
		}
	}
	return tr.Rec{"by": "garbled:" + v, "inp": []string{}, "out": out}
}

func (s *c15State) maybePark(call int, h string) {
	s.mu.Lock()
	if s.breakAt[call] != h {
		s.mu.Unlock()
		return
	}
	delete(s.breakAt, call)
	ch := make(chan struct{})
	s.parked[call] = ch
	s.mu.Unlock()
	s.parkedCh <- call
	<-ch
}

func c15Invoke(h string, ctx context.Context, name string, args []interface{}, next core.NextInvokeHandler) ([]interface{}, error) {
	s := c15Cur
	call := c15CallID(ctx)
	s.t.Emit(tr.Rec{"ev": "enter", "call": call, "mgr": "invoke", "h": h, "seen": inPath(name)})
	s.maybePark(call, h)
	var res []interface{}
	var err error
	switch s.beh[h] {
	case "short":
		res = []interface{}{"S(" + h + "," + name + ")"}
	case "alter":
		res, err = next(ctx, name+"_"+h, args)
	default:
		res, err = next(ctx, name, args)
	}
	got := "ERR"
	if err == nil && len(res) == 1 {
		got, _ = res[0].(string)
	} else if err != nil {
		got = "ERR:" + err.Error()
	}
	s.t.Emit(tr.Rec{"ev": "exit", "call": call, "mgr": "invoke", "h": h, "got": outVal(got)})
	if s.beh[h] == "alter" && err == nil {
		res = []interface{}{got + "-" + h}
	}
	return res, err
}

func c15IO(h string, ctx context.Context, request []byte, next core.NextIOHandler) ([]byte, error) {
	s := c15Cur
	call := c15CallID(ctx)
	name := miniParse(request)
	s.t.Emit(tr.Rec{"ev": "enter", "call": call, "mgr": "io", "h": h, "seen": inPath(name)})
	s.maybePark(call, h)
	var resp []byte
	var err error
	switch s.beh[h] {
	case "short":
		resp = miniResp("S(" + h + "," + name + ")")
	case "alter":
		resp, err = next(ctx, miniReq(name+"_"+h))
	default:
		resp, err = next(ctx, request)
	}
	got := "ERR"
	if err == nil {
		got = miniParse(resp)
		if len(resp) > 0 && resp[0] == 'E' {
			got = "ENC:" + got // an encoded error response with a nil error
		} else if len(resp) == 0 || resp[0] != 'R' {
			got = "ERR:" + string(resp)
		}
	} else {
		got = "ERR:" + err.Error()
	}
	s.t.Emit(tr.Rec{"ev": "exit", "call": call, "mgr": "io", "h": h, "got": outVal(got)})
	if s.beh[h] == "alter" && err == nil {
		resp = miniResp(got + "-" + h)
	}
	return resp, err
}

// distinct top-level functions: Unuse identifies handlers by code pointer
func c15I1(ctx context.Context, name string, args []interface{}, next core.NextInvokeHandler) ([]interface{}, error) {
	return c15Invoke("i1", ctx, name, args, next)
}
func c15I2(ctx context.Context, name string, args []interface{}, next core.NextInvokeHandler) ([]interface{}, error) {
	return c15Invoke("i2", ctx, name, args, next)
}
func c15I3(ctx context.Context, name string, args []interface{}, next core.NextInvokeHandler) ([]interface{}, error) {
	return c15Invoke("i3", ctx, name, args, next)
}
func c15O1(ctx context.Context, request []byte, next core.NextIOHandler) ([]byte, error) {
	return c15IO("o1", ctx, request, next)
}
func c15O2(ctx context.Context, request []byte, next core.NextIOHandler) ([]byte, error) {
	return c15IO("o2", ctx, request, next)
}

// a two-sided plugin (both an invoke and an IO handler); two instances of the one type
type c15Plugin struct{ inv, io string }

func (p *c15Plugin) IOHandler(ctx context.Context, request []byte, next core.NextIOHandler) ([]byte, error) {
	return c15IO(p.io, ctx, request, next)
}
func (p *c15Plugin) InvokeHandler(ctx context.Context, name string, args []interface{}, next core.NextInvokeHandler) ([]interface{}, error) {
	return c15Invoke(p.inv, ctx, name, args, next)
}

// one-sided plugin objects (method value `Handler`)
type c15InvPlugin struct{}

func (*c15InvPlugin) Handler(ctx context.Context, name string, args []interface{}, next core.NextInvokeHandler) ([]interface{}, error) {
	return c15Invoke("qi", ctx, name, args, next)
}

var c15ThePlugin = &c15Plugin{"pi", "po"}
var c15TheTwin = &c15Plugin{"ti", "to"} // another plugin object of the same type
var c15TheInvPlugin = &c15InvPlugin{}

func c15Handler(id string) core.PluginHandler {
	switch id {
	case "i1":
		return core.InvokeHandler(c15I1)
	case "i2":
		return core.InvokeHandler(c15I2)
	case "i3":
		return core.InvokeHandler(c15I3)
	case "o1":
		return core.IOHandler(c15O1)
	case "o2":
		return core.IOHandler(c15O2)
	case "P":
		return c15ThePlugin
	case "T":
		return c15TheTwin
	case "Q":
		return c15TheInvPlugin
	}
	panic("handler " + id)
}

// split a use/unuse argument list into the per-manager id lists the monitor sees
func c15Split(hs []string) (inv []string, io []string) {
	inv, io = []string{}, []string{}
	for _, h := range hs {
		switch h {
		case "P":
			inv = append(inv, "pi")
			io = append(io, "po")
		case "T":
			inv = append(inv, "ti")
			io = append(io, "to")
		case "Q":
			inv = append(inv, "qi")
		case "o1", "o2":
			io = append(io, h)
		default:
			inv = append(inv, h)
		}
	}
	return
}

type c15Op struct {
	Op string   `json:"op"` // use | unuse | call | callS | resume | race
	Hs []string `json:"hs,omitempty"`
	Un []string `json:"un,omitempty"` // race: removed while Hs are added
	At string   `json:"at,omitempty"`
}

type c15Case struct {
	Side string            `json:"side"` // client | service
	Beh  map[string]string `json:"beh"`
	Ops  []c15Op           `json:"ops"`
	Conc int               `json:"conc,omitempty"` // >0: free-running concurrent mode with that many callers
	N    int               `json:"n,omitempty"`    // calls per caller / ops of the mutator in concurrent mode
	Seed int64             `json:"seed,omitempty"`
}

type c15Side interface {
	use(hs []string)
	unuse(hs []string)
	call(ctx context.Context) string
}

type c15Client struct{ c *core.Client }

func (x c15Client) use(hs []string) {
	var l []core.PluginHandler
	for _, h := range hs {
		l = append(l, c15Handler(h))
	}
	x.c.Use(l...)
}
func (x c15Client) unuse(hs []string) {
	var l []core.PluginHandler
	for _, h := range hs {
		l = append(l, c15Handler(h))
	}
	x.c.Unuse(l...)
}
func (x c15Client) call(ctx context.Context) string {
	call := c15CallID(ctx)
	ctx = context.WithValue(ctx, verifTransportKey{}, verifTransportFn(func(ctx context.Context, request []byte) ([]byte, error) {
		name := miniParse(request)
		c15Cur.t.Emit(tr.Rec{"ev": "core", "call": call, "seen": inPath(name)})
		if c15Cur.beh["core"] == "fail" {
			return nil, errors.New("E(" + name + ")")
		}
		return miniResp("R(" + name + ")"), nil
	}))
	res, err := x.c.InvokeContext(ctx, "f", nil)
	if err != nil {
		return "ERR:" + err.Error()
	}
	if len(res) == 1 {
		if s, ok := res[0].(string); ok {
			return s
		}
	}
	return fmt.Sprintf("ERR:%v", res)
}

type c15Service struct{ s *core.Service }

func (x c15Service) use(hs []string) {
	var l []core.PluginHandler
	for _, h := range hs {
		l = append(l, c15Handler(h))
	}
	x.s.Use(l...)
}
func (x c15Service) unuse(hs []string) {
	var l []core.PluginHandler
	for _, h := range hs {
		l = append(l, c15Handler(h))
	}
	x.s.Unuse(l...)
}
func (x c15Service) call(ctx context.Context) string {
	ctx = core.WithContext(ctx, core.NewServiceContext(x.s))
	resp, err := x.s.Handle(ctx, miniReq("f"))
	if err != nil {
		return "ERR:" + err.Error()
	}
	if len(resp) > 0 && resp[0] == 'E' {
		return "ERR:" + miniParse(resp) // the outermost step (Handle) encodes the error the handlers have seen
	}
	if len(resp) == 0 || resp[0] != 'R' {
		return "ERR:" + string(resp)
	}
	return miniParse(resp)
}

func c15NewSide(side string) c15Side {
	if side == "client" {
		return c15Client{core.NewClient("verif://x")}
	}
	s := core.NewService()
	s.AddMissingMethod(func(ctx context.Context, name string, args []interface{}) ([]interface{}, error) {
		c15Cur.t.Emit(tr.Rec{"ev": "core", "call": c15CallID(ctx), "seen": inPath(name)})
		if c15Cur.beh["core"] == "fail" {
			return nil, errors.New("E(" + name + ")")
		}
		return []interface{}{"R(" + name + ")"}, nil
	})
	return c15Service{s}
}

func c15Run(t *tr.Writer, id int, c c15Case) {
	st := &c15State{t: t, beh: c.Beh, breakAt: map[int]string{}, parked: map[int]chan struct{}{}, parkedCh: make(chan int, 64)}
	c15Cur = st
	outer, inner := "invoke", "io"
	if c.Side == "service" {
		outer, inner = "io", "invoke"
	}
	Watch(id, tr.Rec{"side": c.Side}, c)
	// twin: the history installs both plugin objects of the one type and removes one of them (Unuse tells
	// handlers apart by code pointer, which method values of two objects of one type share)
	usedP, usedT, twin := false, false, false
	for _, op := range c.Ops {
		for _, h := range op.Hs {
			switch {
			case op.Op == "use" && h == "P":
				usedP = true
			case op.Op == "use" && h == "T":
				usedT = true
			case op.Op == "unuse" && (h == "P" && usedT || h == "T" && usedP):
				twin = true
			}
		}
	}
	t.Reset(id, tr.Rec{"outer": outer, "inner": inner, "beh": c.Beh, "side": c.Side, "conc": c.Conc, "twin": twin, "input": c})
	side := c15NewSide(c.Side)
	if c.Conc > 0 {
		c15Concurrent(st, side, c)
		return
	}
	nextCall := 0
	done := map[int]chan struct{}{}
	var order []int // suspended calls, oldest first
	start := func(at string) {
		nextCall++
		call := nextCall
		if at != "" {
			st.breakAt[call] = at
		}
		d := make(chan struct{})
		done[call] = d
		t.Emit(tr.Rec{"ev": "callB", "call": call})
		go func() {
			defer close(d)
			res := side.call(context.WithValue(context.Background(), c15CallKey{}, call))
			t.Emit(tr.Rec{"ev": "callE", "call": call, "res": outVal(res)})
		}()
		select {
		case <-d:
		case <-st.parkedCh:
			order = append(order, call)
		case <-time.After(20 * time.Second):
			panic("c15: call neither returned nor parked")
		}
	}
	resume := func() {
		if len(order) == 0 {
			return
		}
		call := order[0]
		order = order[1:]
		st.mu.Lock()
		ch := st.parked[call]
		delete(st.parked, call)
		st.mu.Unlock()
		close(ch)
		select {
		case <-done[call]:
		case <-time.After(20 * time.Second):
			panic("c15: resumed call did not return")
		}
	}
	for _, op := range c.Ops {
		switch op.Op {
		case "use", "unuse":
			inv, io := c15Split(op.Hs)
			t.Emit(tr.Rec{"ev": "opB", "kind": op.Op, "invoke": inv, "io": io})
			if op.Op == "use" {
				side.use(op.Hs)
			} else {
				side.unuse(op.Hs)
			}
			t.Emit(tr.Rec{"ev": "opE"})
		case "race":
			// Use(op.Hs) and Unuse(op.Un) at the same time on the same managers; the handlers are disjoint, so
			// the two operations commute and are logged one after the other
			// (both goroutines are running and spin on a flag, so that the two operations really start
			// together: a goroutine woken through a channel starts microseconds after the other)
			var ready, goFlag, finished int32
			for _, f := range []func(){func() { side.use(op.Hs) }, func() { side.unuse(op.Un) }} {
				f := f
				go func() {
					atomic.AddInt32(&ready, 1)
					for atomic.LoadInt32(&goFlag) == 0 {
					}
					f()
					atomic.AddInt32(&finished, 1)
				}()
			}
			for atomic.LoadInt32(&ready) < 2 {
				runtime.Gosched()
			}
			atomic.StoreInt32(&goFlag, 1)
			for atomic.LoadInt32(&finished) < 2 {
				runtime.Gosched()
			}
			inv, io := c15Split(op.Un)
			t.Emit(tr.Rec{"ev": "opB", "kind": "unuse", "invoke": inv, "io": io})
			t.Emit(tr.Rec{"ev": "opE"})
			inv, io = c15Split(op.Hs)
			t.Emit(tr.Rec{"ev": "opB", "kind": "use", "invoke": inv, "io": io})
			t.Emit(tr.Rec{"ev": "opE"})
		case "call":
			start("")
		case "callS":
			start(op.At)
		case "resume":
			resume()
		}
	}
	for len(order) > 0 {
		resume()
	}
}

// free-running concurrency: one mutator, several callers; the monitor's fetch windows absorb the
// uncertainty about when exactly a call fetched its chain
func c15Concurrent(st *c15State, side c15Side, c c15Case) {
	t := st.t
	rng := tr.NewRng(c.Seed)
	var wg sync.WaitGroup
	var idmu sync.Mutex
	nextCall := 0
	stop := make(chan struct{})
	wg.Add(1)
	go func() {
		defer wg.Done()
		sets := c15HandlerSets()[:14] // without the twin plugin object: see the known finding on Unuse
		for i := 0; i < c.N; i++ {
			select {
			case <-stop:
				return
			default:
			}
			hs := sets[rng.Intn(len(sets))]
			kind := "use"
			if rng.Intn(2) == 0 {
				kind = "unuse"
			}
			inv, io := c15Split(hs)
			t.Emit(tr.Rec{"ev": "opB", "kind": kind, "invoke": inv, "io": io})
			if kind == "use" {
				side.use(hs)
			} else {
				side.unuse(hs)
			}
			t.Emit(tr.Rec{"ev": "opE"})
			if i%3 == 0 {
				time.Sleep(time.Duration(rng.Intn(30)) * time.Microsecond)
			}
		}
	}()
	var cw sync.WaitGroup
	for g := 0; g < c.Conc; g++ {
		cw.Add(1)
		go func() {
			defer cw.Done()
			for i := 0; i < c.N; i++ {
				idmu.Lock()
				nextCall++
				call := nextCall
				idmu.Unlock()
				t.Emit(tr.Rec{"ev": "callB", "call": call})
				res := side.call(context.WithValue(context.Background(), c15CallKey{}, call))
				t.Emit(tr.Rec{"ev": "callE", "call": call, "res": outVal(res)})
			}
		}()
	}
	cw.Wait()
	close(stop)
	wg.Wait()
}

func c15HandlerSets() [][]string {
	return [][]string{
		{"i1"}, {"i2"}, {"i3"}, {"o1"}, {"o2"}, {"P"}, {"Q"},
		{"i1", "i2"}, {"i2", "i1"}, {"i1", "i1"}, {"i1", "o1"}, {"P", "i1"}, {"o1", "o2"}, {"o2", "P", "i3"},
		{"T"}, {"P", "T"},
	}
}

func c15Alphabet() []c15Op {
	var a []c15Op
	for _, hs := range c15HandlerSets() {
		a = append(a, c15Op{Op: "use", Hs: hs})
	}
	for _, hs := range c15HandlerSets() {
		a = append(a, c15Op{Op: "unuse", Hs: hs})
	}
	a = append(a, c15Op{Op: "call"})
	for _, at := range []string{"i1", "i2", "o1", "pi", "po"} {
		a = append(a, c15Op{Op: "callS", At: at})
	}
	a = append(a, c15Op{Op: "resume"})
	return a
}

var c15Behs = []map[string]string{
	{"i1": "pass", "i2": "pass", "i3": "pass", "o1": "pass", "o2": "pass", "pi": "pass", "po": "pass", "qi": "pass", "ti": "pass", "to": "pass"},
	{"i1": "alter", "i2": "pass", "i3": "alter", "o1": "alter", "o2": "pass", "pi": "alter", "po": "alter", "qi": "pass", "ti": "pass", "to": "alter"},
	{"i1": "pass", "i2": "alter", "i3": "short", "o1": "pass", "o2": "short", "pi": "pass", "po": "alter", "qi": "alter", "ti": "alter", "to": "pass"},
	{"i1": "alter", "i2": "short", "i3": "pass", "o1": "short", "o2": "alter", "pi": "alter", "po": "pass", "qi": "pass", "ti": "short", "to": "pass"},
	// the core function fails: every handler sees the error on the way out (an altering handler leaves it alone)
	{"core": "fail", "i1": "pass", "i2": "alter", "i3": "pass", "o1": "alter", "o2": "pass", "pi": "alter", "po": "pass", "qi": "pass", "ti": "pass", "to": "alter"},
	{"core": "fail", "i1": "alter", "i2": "pass", "i3": "short", "o1": "pass", "o2": "alter", "pi": "pass", "po": "alter", "qi": "alter", "ti": "alter", "to": "pass"},
}

func runC15(a Args) tr.Summary {
	t := tr.New(a.Out)
	defer t.Close()
	var sum tr.Summary
	if a.Only != "" {
		var c c15Case
		if err := json.Unmarshal([]byte(a.Only), &c); err != nil {
			panic(err)
		}
		c15Run(t, 1, c)
		sum.Cases, sum.Events = t.Cases, t.Lines
		return sum
	}
	alpha := c15Alphabet()
	id := 0
	nontrivial := map[string]bool{}
	note := func(c c15Case) {
		// non-trivial: at least one use and one call (or suspended call) in the history
		u, k := false, false
		for _, op := range c.Ops {
			if op.Op == "use" {
				u = true
			}
			if op.Op == "call" || op.Op == "callS" {
				k = true
			}
		}
		if (u && k) || c.Conc > 0 {
			b, _ := json.Marshal(c)
			nontrivial[string(b)] = true
		}
	}
	exLen := 2
	nRandom := 1500
	nConc := 6
	if a.Tier == "thorough" {
		exLen = 3
		nRandom = 20000
		nConc = 60
	}
	sides := []string{"client", "service"}
	var rec func(prefix []c15Op, n int)
	rec = func(prefix []c15Op, n int) {
		if len(prefix) == n {
			for _, side := range sides {
				id++
				c := c15Case{Side: side, Beh: c15Behs[id%len(c15Behs)], Ops: append([]c15Op(nil), prefix...)}
				c15Run(t, id, c)
				note(c)
				if id%9973 == 7 && len(sum.Samples) < 3 {
					sum.Samples = append(sum.Samples, c)
				}
			}
			return
		}
		for _, op := range alpha {
			rec(append(prefix, op), n)
		}
	}
	for n := 1; n <= exLen; n++ {
		rec(nil, n)
	}
	exhaustiveCases := id
	rng := tr.NewRng(a.Seed)
	for i := 0; i < nRandom; i++ {
		n := 4 + rng.Intn(6)
		ops := make([]c15Op, n)
		for j := range ops {
			// bias towards calls so that changes are observed
			switch k := rng.Intn(10); {
			case k < 3:
				ops[j] = c15Op{Op: "call"}
			case k < 5:
				ops[j] = alpha[len(alpha)-6+rng.Intn(6)] // callS / resume
			default:
				ops[j] = alpha[rng.Intn(len(alpha)-7)] // use / unuse
			}
		}
		id++
		c := c15Case{Side: sides[rng.Intn(2)], Beh: c15Behs[rng.Intn(len(c15Behs))], Ops: ops}
		c15Run(t, id, c)
		note(c)
		if i < 2 {
			sum.Samples = append(sum.Samples, c)
		}
	}
	for i := 0; i < nConc; i++ {
		id++
		c := c15Case{Side: sides[i%2], Beh: c15Behs[i%2], Conc: 4, N: 40, Seed: a.Seed*1000 + int64(i)}
		c15Run(t, id, c)
		note(c)
		if i == 0 {
			sum.Samples = append(sum.Samples, c)
		}
	}
	// Use racing with Unuse on the same managers (disjoint handlers), a call after every round
	nRace := 2
	if a.Tier == "thorough" {
		nRace = 8
	}
	pairs := [][2][]string{{{"i1"}, {"i2"}}, {{"o1"}, {"o2"}}, {{"P"}, {"i3", "o2"}}, {{"i1", "o1"}, {"Q", "o2"}}}
	for i := 0; i < nRace*2; i++ {
		pr := pairs[i%len(pairs)]
		ops := []c15Op{{Op: "use", Hs: pr[0]}, {Op: "call"}}
		for r := 0; r < 400; r++ {
			if r%2 == 0 {
				ops = append(ops, c15Op{Op: "race", Hs: pr[1], Un: pr[0]}, c15Op{Op: "call"})
			} else {
				ops = append(ops, c15Op{Op: "race", Hs: pr[0], Un: pr[1]}, c15Op{Op: "call"})
			}
		}
		id++
		c := c15Case{Side: sides[i%2], Beh: c15Behs[0], Ops: ops}
		c15Run(t, id, c)
		note(c)
	}
	sum.Cases = id
	sum.Events = t.Lines
	sum.Nontrivial = len(nontrivial)
	sum.Extra = tr.Rec{"race_cases": nRace * 2, "exhaustive_len": exLen, "exhaustive_cases": exhaustiveCases, "random_cases": nRandom, "concurrent_cases": nConc, "alphabet": len(alpha)}
	return sum
}
