package main

import (
	"bytes"
	"encoding/hex"
	"encoding/json"
	"errors"
	"fmt"
	"math/big"
	"reflect"
	"time"

	hio "github.com/hprose/hprose-golang/v3/io"
	"github.com/hprose/hprose-golang/v3/rpc/codec/jsonrpc"
	"github.com/hprose/hprose-golang/v3/rpc/core"

	"verif/harness/fmtx"
	"verif/harness/gen"
	"verif/harness/tr"
)

// C07: the RPC codecs. A real client codec encodes (name, arguments, headers); the bytes are lexed
// and recorded; a real service codec (with its own options) decodes them against a real method
// table; the service codec encodes a result or an error; the client codec decodes it into the
// declared return types. RpcCodec!C07Why (TLA+) recognises both messages segment by segment and
// compares what each side decoded with what the other side passed.

func init() { drivers["c07"] = runC07 }

type c07Shape struct {
	Name    string        // name used by the client
	Args    []interface{} // arguments passed
	Headers map[string]interface{}
	Result  interface{} // what the service encodes: a value, []interface{} for several results, or an error
	Returns []reflect.Type
	Label   string
	BigOnly bool // only with option set 4 (big numbers in interface{} positions need LongTypeBigInt / RealTypeBigFloat)
}

func c07Service() *core.Service {
	s := core.NewService()
	s.AddFunction(func() {}, "f0")
	s.AddFunction(func(a int) int { return a }, "f1")
	s.AddFunction(func(a, b string) string { return a + b }, "f2")
	s.AddFunction(func(p gen.Plain) gen.Plain { return p }, "fs")
	s.AddFunction(func(p *gen.Plain) *gen.Plain { return p }, "fp")
	s.AddFunction(func(a int, rest ...string) int { return a }, "fv")
	s.AddFunction(func(m map[string]interface{}) int { return len(m) }, "fm")
	s.AddFunction(func(l []int) int { return len(l) }, "fl")
	s.AddFunction(func(x interface{}) interface{} { return x }, "fany")
	s.AddFunction(func(a int8, b uint16, c float32, d []byte, e time.Time) {}, "fw")
	s.AddFunction(func(a, b *gen.Plain) bool { return a == b }, "fsame")
	s.AddFunction(func(b *big.Int, f float64) {}, "fbig")
	s.AddFunction(func(s string) string { return s }, "привет")
	s.AddFunction(func(s string) string { return s }, "MixedCase")
	s.AddFunction(func(a float64, b float32) float64 { return a }, "ff")
	return s
}

func c07Shapes() []c07Shape {
	intT, strT := reflect.TypeOf(0), reflect.TypeOf("")
	plainT, pplainT := reflect.TypeOf(gen.Plain{}), reflect.TypeOf((*gen.Plain)(nil))
	ifaceT := reflect.TypeOf((*interface{})(nil)).Elem()
	p := &gen.Plain{A: 1, B: "shared", C: 1.5}
	tm := time.Date(2021, 1, 2, 3, 4, 5, 0, time.UTC)
	h0 := map[string]interface{}{}
	h1 := map[string]interface{}{"trace": "shared", "n": 5}
	h2 := map[string]interface{}{"a": "x", "b": "x", "shared": "shared", "list": []interface{}{"x", "x"}}
	var out []c07Shape
	add := func(label, name string, args []interface{}, h map[string]interface{}, result interface{}, returns ...reflect.Type) {
		out = append(out, c07Shape{name, args, h, result, returns, label, false})
	}
	add("no-args", "f0", nil, h0, nil)
	add("no-args-headers", "f0", nil, h1, nil)
	add("one-int", "f1", []interface{}{42}, h0, 42, intT)
	add("one-int-iface-return", "f1", []interface{}{42}, h0, 42, ifaceT)
	add("two-strings-same", "f2", []interface{}{"shared", "shared"}, h1, "sharedshared", strT)
	add("two-strings-same-as-name", "f2", []interface{}{"f2", "f2"}, h2, "f2f2", strT)
	add("name-in-header", "f2", []interface{}{"f2", "x"}, map[string]interface{}{"method": "f2", "f2": "f2"}, "shared", strT)
	add("result-in-response-header", "f1", []interface{}{1}, h1, []interface{}{"shared", "rh", "shared"}, strT, strT, strT)
	add("struct-by-value", "fs", []interface{}{gen.Plain{A: 1, B: "x", C: 2.5}}, h0, gen.Plain{A: 1, B: "x", C: 2.5}, plainT)
	add("struct-pointer", "fp", []interface{}{p}, h1, p, pplainT)
	add("same-pointer-twice", "fsame", []interface{}{p, p}, h2, true, reflect.TypeOf(true))
	add("variadic-none", "fv", []interface{}{1}, h0, 1, intT)
	add("variadic-two", "fv", []interface{}{1, "a", "a"}, h0, 1, intT)
	add("variadic-shared-with-header", "fv", []interface{}{1, "shared", "x", "shared"}, h2, 1, intT)
	add("map-arg", "fm", []interface{}{map[string]interface{}{"k": "shared", "l": []interface{}{1, "shared"}}}, h1, 2, intT)
	add("list-arg", "fl", []interface{}{[]int{1, 2, 3}}, h0, 3, intT)
	add("any-struct", "fany", []interface{}{gen.Plain{A: 7, B: "b"}}, h0, "r", strT)
	add("any-nil", "fany", []interface{}{nil}, h0, nil, ifaceT)
	add("any-bigint", "fany", []interface{}{big.NewInt(5)}, h0, big.NewInt(5), reflect.TypeOf((*big.Int)(nil)))
	add("widths", "fw", []interface{}{int8(-8), uint16(60000), float32(1.5), []byte("bytes"), tm}, h1, nil)
	add("big", "fbig", []interface{}{big.NewInt(123456789), 0.1}, h0, nil)
	add("fewer-args-than-params", "f2", []interface{}{"only"}, h0, "only", strT)
	add("more-args-than-params", "f1", []interface{}{1, "extra", "extra"}, h0, 1, intT)
	add("upper-case-name", "F1", []interface{}{3}, h0, 3, intT)
	add("mixed-case-name", "mixedcase", []interface{}{"x"}, h0, "x", strT)
	add("non-ascii-name", "привет", []interface{}{"мир"}, h1, "мир", strT)
	add("non-ascii-name-upper", "ПРИВЕТ", []interface{}{"мир"}, h0, "мир", strT)
	add("non-ascii-name-title", "Привет", []interface{}{"мир"}, h1, "мир", strT)
	add("several-results", "f1", []interface{}{1}, h0, []interface{}{1, "two", 3.5}, intT, strT, reflect.TypeOf(0.0))
	add("several-results-shared", "f1", []interface{}{1}, h2, []interface{}{"shared", "shared", p, p}, strT, strT, pplainT, pplainT)
	add("several-results-fewer", "f1", []interface{}{1}, h0, []interface{}{1}, intT, strT)
	add("result-struct-list", "f1", []interface{}{1}, h0, []gen.Plain{{A: 1, B: "x"}, {A: 2, B: "x"}}, reflect.TypeOf([]gen.Plain(nil)))
	add("result-map", "f1", []interface{}{1}, h1, map[string]interface{}{"a": "x", "b": "x"}, reflect.TypeOf(map[string]interface{}(nil)))
	// numbers that only the big types hold: what comes out of an interface{} position depends on the decoding side's
	// LongType / RealType (option set 4 on both sides); a side that ignores its option returns another number
	bi, _ := new(big.Int).SetString("1180591620717411303424", 10)        // 2^70
	bf, _ := new(big.Float).SetPrec(64).SetString("9223372036854775809") // 2^63 + 1: 64 bits of mantissa
	huge, _ := new(big.Float).SetPrec(64).SetString("1e400")             // beyond float64
	add("big-long-arg-real-result", "fany", []interface{}{bi}, h0, bf, ifaceT)
	add("big-real-arg-long-result", "fany", []interface{}{bf}, h0, bi, ifaceT)
	add("big-huge-real", "fany", []interface{}{huge}, h1, huge, ifaceT)
	add("big-in-containers", "fany", []interface{}{[]interface{}{bi, bf, "shared"}}, h1, map[string]interface{}{"a": bi, "b": bf, "shared": "shared"}, ifaceT)
	for i := len(out) - 4; i < len(out); i++ {
		out[i].BigOnly = true
	}
	add("error", "f1", []interface{}{1}, h0, errors.New("boom"), intT)
	add("error-with-headers", "f1", []interface{}{1}, h1, errors.New("shared"), intT)
	add("panic-error", "f1", []interface{}{1}, h0, core.NewPanicError("kaboom"), intT)
	add("error-non-ascii", "f1", []interface{}{1}, h0, errors.New("ошибка \U0001F600"), intT)
	return out
}

type c07Opts struct {
	CSimple bool `json:"csimple"`
	SSimple bool `json:"ssimple"`
	Types   int  `json:"types"` // index into option sets
}

func c07Options(o c07Opts, client bool) []core.CodecOption {
	simple := o.SSimple
	if client {
		simple = o.CSimple
	}
	opts := []core.CodecOption{core.WithSimple(simple)}
	switch o.Types {
	case 1:
		opts = append(opts, core.WithLongType(hio.LongTypeBigInt), core.WithRealType(hio.RealTypeFloat64))
	case 2:
		if client {
			opts = append(opts, core.WithLongType(hio.LongTypeInt64), core.WithMapType(hio.MapTypeIIMap))
		} else {
			opts = append(opts, core.WithStructType(hio.StructTypeValue), core.WithListType(hio.ListTypeSlice))
		}
	case 4:
		opts = append(opts, core.WithLongType(hio.LongTypeBigInt), core.WithRealType(hio.RealTypeBigFloat))
	case 3:
		if client {
			opts = append(opts, core.WithStructType(hio.StructTypeValue))
		} else {
			opts = append(opts, core.WithMapType(hio.MapTypeIIMap), core.WithDebug(true))
		}
	}
	return opts
}

func c07One(t *tr.Writer, id int, svc *core.Service, sh c07Shape, o c07Opts) {
	rec := tr.Rec{"ev": "one", "case": id, "kind": "rpc", "label": sh.Label, "opts": o, "csimple": o.CSimple, "ssimple": o.SSimple,
		"name": sh.Name, "namehex": hex.EncodeToString([]byte(sh.Name)), "nargs": len(sh.Args), "expectsdecerr": false,
		"input": tr.Rec{"label": sh.Label, "opts": o}}
	empty := fmtx.Graph{Nodes: []fmtx.AV{}, Root: fmtx.AV{"k": "nil"}}
	for _, k := range []string{"args", "hdr", "shdr", "expargs", "sargs", "result", "expresult", "cresult"} {
		rec[k] = empty
	}
	for _, k := range []string{"encerr", "sdecerr", "sencerr", "cdecerr", "sname", "errmsg", "errhex"} {
		rec[k] = "none"
	}
	rec["reqtoks"], rec["resptoks"], rec["iserror"] = []fmtx.Tok{}, []fmtx.Tok{}, false
	defer func() {
		if p := recover(); p != nil {
			rec["encerr"] = fmt.Sprint("PANIC ", p)
		}
		t.Emit(rec)
	}()
	ccodec := core.NewClientCodec(c07Options(o, true)...)
	scodec := core.NewServiceCodec(c07Options(o, false)...)
	cc := core.NewClientContext()
	for k, v := range sh.Headers {
		cc.RequestHeaders().Set(k, v)
	}
	args := sh.Args
	rec["args"] = fmtx.Abs(append([]interface{}{}, args...))
	rec["expargs"] = rec["args"]
	rec["hdr"] = fmtx.Abs(sh.Headers)
	req, err := ccodec.Encode(sh.Name, args, cc)
	if err != nil {
		rec["encerr"] = err.Error()
		return
	}
	rec["reqtoks"] = fmtx.Lex(req)
	if len(req) < 200 {
		rec["req"] = string(req)
	}
	sc := core.NewServiceContext(svc)
	sname, sargs, err := scodec.Decode(req, sc)
	if err != nil {
		rec["sdecerr"] = err.Error()
		return
	}
	rec["sname"] = sname
	if sargs == nil {
		sargs = []interface{}{}
	}
	rec["sargs"] = fmtx.Abs(sargs)
	h := sc.RequestHeaders().ToMap()
	delete(h, "simple")
	if h == nil {
		h = map[string]interface{}{}
	}
	rec["shdr"] = fmtx.Abs(h)
	// the way back
	if e, ok := sh.Result.(error); ok {
		rec["iserror"] = true
		msg := e.Error()
		if pe, ok := e.(*core.PanicError); ok && o.Types == 3 {
			msg = pe.String() // the service codec is in debug mode: message with stack
		}
		rec["errmsg"] = msg
		rec["errhex"] = hex.EncodeToString([]byte(msg))
	}
	rec["result"] = fmtx.Abs(sh.Result)
	if len(sh.Headers) > 0 {
		// response headers whose strings also occur in results
		sc.ResponseHeaders().Set("rh", "shared")
		sc.ResponseHeaders().Set("shared", "rh")
	}
	resp, err := scodec.Encode(sh.Result, sc)
	if err != nil {
		rec["sencerr"] = err.Error()
		return
	}
	rec["resptoks"] = fmtx.Lex(resp)
	if len(resp) < 200 {
		rec["resp"] = string(resp)
	}
	cc.ReturnType = sh.Returns
	cres, err := ccodec.Decode(resp, cc)
	if err != nil {
		rec["cdecerr"] = err.Error()
	}
	if cres == nil {
		cres = []interface{}{}
	}
	rec["cresult"] = fmtx.Abs(cres)
	// what the caller must see: one value per declared return type
	var exp []interface{}
	switch {
	case len(sh.Returns) == 0:
		exp = []interface{}{}
	case len(sh.Returns) == 1:
		exp = []interface{}{sh.Result}
	default:
		l, _ := sh.Result.([]interface{})
		for i := range sh.Returns {
			if i < len(l) {
				exp = append(exp, l[i])
			} else {
				exp = append(exp, reflect.Zero(sh.Returns[i]).Interface())
			}
		}
	}
	rec["expresult"] = fmtx.Abs(exp)
}

// ---- the JSON-RPC codec (rpc/codec/jsonrpc) ----

type c07JShape struct {
	Label   string
	Name    string
	Args    []interface{}
	Headers map[string]interface{}
	Result  interface{}
	Returns []reflect.Type
	Wire    bool // compare the JSON on the wire with the values passed (not for structs: their JSON keys are Go's)
}

func c07JShapes() []c07JShape {
	intT, strT := reflect.TypeOf(0), reflect.TypeOf("")
	ifaceT := reflect.TypeOf((*interface{})(nil)).Elem()
	plainT, pplainT := reflect.TypeOf(gen.Plain{}), reflect.TypeOf((*gen.Plain)(nil))
	h0 := map[string]interface{}{}
	h1 := map[string]interface{}{"trace": "shared", "flag": true, "l": []interface{}{"x", "x"}}
	p := &gen.Plain{A: 1, B: "shared", C: 1.5}
	var out []c07JShape
	add := func(label, name string, args []interface{}, h map[string]interface{}, wire bool, result interface{}, returns ...reflect.Type) {
		out = append(out, c07JShape{label, name, args, h, result, returns, wire})
	}
	add("j-no-args", "f0", nil, h0, true, nil)
	add("j-no-args-headers", "f0", nil, h1, true, nil)
	add("j-one-int", "f1", []interface{}{42}, h0, true, 42, intT)
	add("j-one-int-negative", "f1", []interface{}{-7}, h1, true, -7, intT)
	add("j-two-strings", "f2", []interface{}{"shared", "shared"}, h1, true, "sharedshared", strT)
	add("j-strings-escapes", "f2", []interface{}{"quote\"back\\slash", "nl\n\u00e9\U0001F600"}, h0, true, "r\"\n", strT)
	add("j-variadic-none", "fv", []interface{}{1}, h0, true, 1, intT)
	add("j-variadic-two", "fv", []interface{}{1, "a", "a"}, h0, true, 1, intT)
	add("j-map-arg", "fm", []interface{}{map[string]interface{}{"k": "v", "l": []interface{}{"a", true, nil}}}, h1, true, 2, intT)
	add("j-list-arg", "fl", []interface{}{[]int{1, 2, 3}}, h0, true, 3, intT)
	add("j-list-arg-empty", "fl", []interface{}{[]int{}}, h0, true, 0, intT)
	add("j-any-string", "fany", []interface{}{"s"}, h0, true, "r", strT)
	add("j-any-nil", "fany", []interface{}{nil}, h0, true, nil, ifaceT)
	add("j-any-bool", "fany", []interface{}{true}, h0, true, false, reflect.TypeOf(true))
	add("j-any-list", "fany", []interface{}{[]interface{}{"a", "b", "a"}}, h0, true, []interface{}{"x", "y"}, reflect.TypeOf([]string(nil)))
	add("j-struct-by-value", "fs", []interface{}{gen.Plain{A: 1, B: "x", C: 2.5}}, h0, false, gen.Plain{A: 1, B: "x", C: 2.5}, plainT)
	add("j-struct-pointer", "fp", []interface{}{p}, h1, false, p, pplainT)
	add("j-upper-case-name", "F1", []interface{}{3}, h0, true, 3, intT)
	add("j-non-ascii-name", "привет", []interface{}{"мир"}, h1, true, "мир", strT)
	add("j-several-results", "f1", []interface{}{1}, h0, true, []interface{}{1, "two", true}, intT, strT, reflect.TypeOf(true))
	add("j-several-results-fewer", "f1", []interface{}{1}, h0, true, []interface{}{1}, intT, strT)
	add("j-result-map", "f1", []interface{}{1}, h1, true, map[string]interface{}{"a": "x", "b": "x"}, reflect.TypeOf(map[string]interface{}(nil)))
	add("j-result-struct-list", "f1", []interface{}{1}, h0, false, []gen.Plain{{A: 1, B: "x"}, {A: 2, B: "x"}}, reflect.TypeOf([]gen.Plain(nil)))
	add("j-floats", "ff", []interface{}{3.141592653589793, float32(1.5)}, h0, true, 2.718281828459045, reflect.TypeOf(0.0))
	add("j-floats-small-large", "ff", []interface{}{1.0000000000000002e-7, float32(0.1)}, map[string]interface{}{"f": 0.1234567890123}, true, 1.7976931348623157e308, reflect.TypeOf(0.0))
	add("j-float-in-list", "fany", []interface{}{[]interface{}{0.1, 1e21, 123456.789012345}}, h0, true, []interface{}{0.30000000000000004}, reflect.TypeOf([]float64(nil)))
	add("j-error", "f1", []interface{}{1}, h0, true, errors.New("boom"), intT)
	add("j-error-with-headers", "f1", []interface{}{1}, h1, true, errors.New("shared"), intT)
	add("j-panic-error", "f1", []interface{}{1}, h0, true, core.NewPanicError("kaboom"), intT)
	add("j-error-non-ascii", "f1", []interface{}{1}, h0, true, errors.New("ошибка \U0001F600 \"q\""), intT)
	add("j-method-not-found", "nosuch", []interface{}{1}, h0, true, nil, intT)
	add("j-invalid-params", "f1", []interface{}{"not-a-number"}, h0, true, nil, intT)
	add("j-more-args-than-params", "f1", []interface{}{1, "extra"}, h0, true, nil, intT)
	return out
}

// jsonValue parses JSON keeping integers apart from other numbers
func jsonValue(b []byte) (interface{}, bool) {
	d := json.NewDecoder(bytes.NewReader(b))
	d.UseNumber()
	var v interface{}
	if err := d.Decode(&v); err != nil {
		return nil, false
	}
	var conv func(x interface{}) interface{}
	conv = func(x interface{}) interface{} {
		switch y := x.(type) {
		case json.Number:
			if i, err := y.Int64(); err == nil {
				return int(i)
			}
			f, _ := y.Float64()
			return f
		case []interface{}:
			for i := range y {
				y[i] = conv(y[i])
			}
			return y
		case map[string]interface{}:
			for k := range y {
				y[k] = conv(y[k])
			}
			return y
		}
		return x
	}
	return conv(v), true
}

func c07JSONOne(t *tr.Writer, id int, svc *core.Service, sh c07JShape, ccodec core.ClientCodec, scodec core.ServiceCodec) {
	empty := fmtx.Graph{Nodes: []fmtx.AV{}, Root: fmtx.AV{"k": "nil"}}
	noMsg := tr.Rec{"ok": false, "jsonrpc": "", "method": "", "id": "", "params": empty, "headers": empty, "hasresult": false, "result": empty,
		"haserror": false, "errmessage": "", "errcode": 0}
	rec := tr.Rec{"ev": "one", "case": id, "kind": "jsonrpc", "label": sh.Label, "name": sh.Name, "nargs": len(sh.Args), "wire": sh.Wire,
		"csimple": false, "ssimple": false, "opts": c07Opts{Types: -1}, "input": tr.Rec{"label": sh.Label, "opts": c07Opts{Types: -1}}, "req": noMsg, "resp": noMsg}
	for _, k := range []string{"args", "hdr", "shdr", "sargs", "result", "expresult", "cresult"} {
		rec[k] = empty
	}
	for _, k := range []string{"encerr", "sdecerr", "sencerr", "cdecerr", "sname", "errmsg"} {
		rec[k] = "none"
	}
	rec["iserror"] = false
	defer func() {
		if p := recover(); p != nil {
			rec["encerr"] = fmt.Sprint("PANIC ", p)
		}
		t.Emit(rec)
	}()
	message := func(b []byte) tr.Rec {
		m := tr.Rec{}
		for k, v := range noMsg {
			m[k] = v
		}
		v, ok := jsonValue(b)
		o, isObj := v.(map[string]interface{})
		if !ok || !isObj {
			return m
		}
		m["ok"] = true
		m["jsonrpc"], _ = o["jsonrpc"].(string)
		m["method"], _ = o["method"].(string)
		m["id"] = fmt.Sprint(o["id"])
		params, _ := o["params"].([]interface{})
		if params == nil {
			params = []interface{}{}
		}
		m["params"] = fmtx.Abs(params)
		h, _ := o["headers"].(map[string]interface{})
		if h == nil {
			h = map[string]interface{}{}
		}
		m["headers"] = fmtx.Abs(h)
		if r, has := o["result"]; has {
			m["hasresult"] = true
			m["result"] = fmtx.Abs(r)
		}
		if e, has := o["error"].(map[string]interface{}); has {
			m["haserror"] = true
			m["errmessage"], _ = e["message"].(string)
			if c, ok := e["code"].(int); ok {
				m["errcode"] = c
			}
		}
		return m
	}
	cc := core.NewClientContext()
	for k, v := range sh.Headers {
		cc.RequestHeaders().Set(k, v)
	}
	rec["args"] = fmtx.Abs(append([]interface{}{}, sh.Args...))
	rec["hdr"] = fmtx.Abs(sh.Headers)
	req, err := ccodec.Encode(sh.Name, sh.Args, cc)
	if err != nil {
		rec["encerr"] = err.Error()
		return
	}
	rec["req"] = message(req)
	if len(req) < 300 {
		rec["reqtext"] = string(req)
	}
	sc := core.NewServiceContext(svc)
	sname, sargs, derr := scodec.Decode(req, sc)
	result := sh.Result
	if derr != nil {
		rec["sdecerr"] = derr.Error()
		result = derr // what Service.Handle does with a decode error
	} else {
		rec["sname"] = sname
		if sargs == nil {
			sargs = []interface{}{}
		}
		rec["sargs"] = fmtx.Abs(sargs)
	}
	h := sc.RequestHeaders().ToMap()
	if h == nil {
		h = map[string]interface{}{}
	}
	rec["shdr"] = fmtx.Abs(h)
	if e, ok := result.(error); ok {
		rec["iserror"] = true
		rec["errmsg"] = e.Error()
	}
	rec["result"] = fmtx.Abs(result)
	if len(sh.Headers) > 0 {
		sc.ResponseHeaders().Set("rh", "shared")
	}
	resp, err := scodec.Encode(result, sc)
	if err != nil {
		rec["sencerr"] = err.Error()
		return
	}
	rec["resp"] = message(resp)
	if len(resp) < 300 {
		rec["resptext"] = string(resp)
	}
	cc.ReturnType = sh.Returns
	cres, err := ccodec.Decode(resp, cc)
	if err != nil {
		rec["cdecerr"] = err.Error()
	}
	if cres == nil {
		cres = []interface{}{}
	}
	rec["cresult"] = fmtx.Abs(cres)
	var exp []interface{}
	switch {
	case len(sh.Returns) == 0 || result == nil:
		exp = []interface{}{}
	case len(sh.Returns) == 1:
		exp = []interface{}{result}
	default:
		l, _ := result.([]interface{})
		exp = append(exp, l...)
	}
	rec["expresult"] = fmtx.Abs(exp)
}

func runC07(a Args) tr.Summary {
	t := tr.New(a.Out)
	defer t.Close()
	var sum tr.Summary
	svc := c07Service()
	shapes := c07Shapes()
	id := 0
	type only struct {
		Label string  `json:"label"`
		Opts  c07Opts `json:"opts"`
	}
	var o only
	if a.Only != "" {
		if err := json.Unmarshal([]byte(a.Only), &o); err != nil {
			panic(err)
		}
	}
	for _, sh := range shapes {
		for _, cs := range []bool{false, true} {
			for _, ss := range []bool{false, true} {
				for ty := 0; ty < 5; ty++ {
					if sh.BigOnly != (ty == 4) {
						continue
					}
					opts := c07Opts{cs, ss, ty}
					if a.Only != "" && (o.Label != sh.Label || o.Opts != opts) {
						continue
					}
					id++
					Watch(id, tr.Rec{"label": sh.Label}, only{sh.Label, opts})
					c07One(t, id, svc, sh, opts)
					if id%97 == 5 && len(sum.Samples) < 5 {
						sum.Samples = append(sum.Samples, tr.Rec{"shape": sh.Label, "name": sh.Name, "opts": opts, "nargs": len(sh.Args)})
					}
				}
			}
		}
	}
	jshapes := c07JShapes()
	jc, js := jsonrpc.NewClientCodec(nil), jsonrpc.NewServiceCodec(nil) // one pair: the request ids go up
	for _, sh := range jshapes {
		if a.Only != "" && (o.Label != sh.Label) {
			continue
		}
		id++
		Watch(id, tr.Rec{"label": sh.Label}, only{sh.Label, c07Opts{Types: -1}})
		c07JSONOne(t, id, svc, sh, jc, js)
	}
	sum.Cases = id
	sum.Events = t.Lines
	sum.Nontrivial = id
	sum.Extra = tr.Rec{"shapes": len(shapes), "option_pairs": 16, "jsonrpc_shapes": len(jshapes), "exhaustive": true}
	return sum
}
