package main

import (
	"context"
	"encoding/json"
	"fmt"
	"sort"
	"sync"
	"sync/atomic"
	"time"

	"github.com/hprose/hprose-golang/v3/rpc/core"
	"github.com/hprose/hprose-golang/v3/rpc/mock"
	"github.com/hprose/hprose-golang/v3/rpc/plugins/push"

	"verif/harness/gate"
	"verif/harness/rpcenv"
	"verif/harness/tr"
)

// C19: push broker. Real clients (one per client id, over the mock transport) subscribe, publish
// (unicast / multicast / broadcast) and poll a real Broker whose poll time-out is a few
// milliseconds, so that time-outs race with publishes. Sequential scripts, free-running concurrent
// runs and gate-forced orders. The PushMonitor (TLA+) judges what polls return against what the
// publish calls reported.

func init() {
	drivers["c19"] = runC19
	rpcenv.Register()
}

type c19Proxy struct {
	Message     func() (map[string][]push.Message, error)                                   `name:"<"`
	Subscribe   func(topic string) (bool, error)                                            `name:"+"`
	Unsubscribe func(topic string) (bool, error)                                            `name:"-"`
	Unicast     func(data interface{}, topic string, id string) (bool, error)               `name:">"`
	Multicast   func(data interface{}, topic string, ids []string) (map[string]bool, error) `name:">?"`
	Broadcast   func(data interface{}, topic string) (map[string]bool, error)               `name:">*"`
}

type c19Op struct {
	Op    string   `json:"op"` // sub | unsub | uni | multi | bcast | poll
	ID    string   `json:"id,omitempty"`
	Topic string   `json:"topic,omitempty"`
	IDs   []string `json:"ids,omitempty"`
}

type c19Case struct {
	Kind      string  `json:"kind,omitempty"`
	HBMs      int     `json:"hb_ms,omitempty"`
	Mode      string  `json:"mode"` // seq | conc | gate | hb
	Ops       []c19Op `json:"ops,omitempty"`
	TimeoutMs int     `json:"timeout_ms"`
	Pubs      int     `json:"pubs,omitempty"`
	N         int     `json:"n,omitempty"`
	Seed      int64   `json:"seed,omitempty"`
	Scenario  string  `json:"scenario,omitempty"`
}

var c19IDs = []string{"a", "b"}
var c19Topics = []string{"t", "u"}
var c19Server int64

type c19Env struct {
	t                    *tr.Writer
	broker               *push.Broker
	stop                 func()
	proxies              map[string]*c19Proxy
	clients              map[string]*core.Client
	m                    int64
	pollHook, polledHook func(id string) // before a poll is issued / after it has returned
}

func newC19Env(t *tr.Writer, timeout time.Duration) *c19Env {
	return newC19EnvOn(t, "mock", timeout, 0)
}

// newC19EnvOn: the broker behind the given transport (every client id has its own client, hence over tcp
// its own connection), with the given heart beat (0 = none).
func newC19EnvOn(t *tr.Writer, kind string, timeout, heartbeat time.Duration) *c19Env {
	service := core.NewService()
	b := push.NewBroker(service)
	b.Timeout = timeout
	b.HeartBeat = heartbeat
	e := &c19Env{t: t, broker: b, proxies: map[string]*c19Proxy{}, clients: map[string]*core.Client{}}
	url := ""
	if kind == "mock" {
		addr := fmt.Sprintf("c19-%d", atomic.AddInt64(&c19Server, 1))
		server := mock.Server{Address: addr}
		if err := service.Bind(server); err != nil {
			panic(err)
		}
		e.stop = func() { server.Close() }
		url = "mock://" + addr
	} else {
		env, err := rpcenv.Start(kind, service, false)
		if err != nil {
			panic(err)
		}
		e.stop = env.Close
		url = env.URL
	}
	for _, id := range append(append([]string(nil), c19IDs...), "p1", "p2", "p3") {
		client := core.NewClient(url)
		client.RequestHeaders().Set("id", id)
		p := &c19Proxy{}
		client.UseService(p)
		e.proxies[id] = p
		e.clients[id] = client
	}
	return e
}

func (e *c19Env) close() {
	for _, c := range e.clients {
		c.Abort()
	}
	e.stop()
}

func c19Int(v interface{}) int {
	switch x := v.(type) {
	case int:
		return x
	case int64:
		return int(x)
	case float64:
		return int(x)
	}
	return -1
}

func (e *c19Env) poll(id string) (int, bool) {
	if e.pollHook != nil {
		e.pollHook(id)
	}
	res, err := e.proxies[id].Message()
	if e.polledHook != nil {
		e.polledHook(id)
	}
	if err != nil {
		e.t.Emit(tr.Rec{"ev": "pollErr", "id": id, "err": err.Error()})
		return 0, false
	}
	out := tr.Rec{}
	n := 0
	for topic, msgs := range res {
		l := []int{}
		for _, m := range msgs {
			l = append(l, c19Int(m.Data))
		}
		n += len(l)
		out[topic] = l
	}
	e.t.Emit(tr.Rec{"ev": "pollE", "id": id, "res": out})
	return n, true
}

func (e *c19Env) drain(id string) {
	empty := 0
	for i := 0; i < 50 && empty < 2; i++ {
		n, ok := e.poll(id)
		if !ok {
			return
		}
		if n == 0 {
			empty++
		} else {
			empty = 0
		}
	}
	e.t.Emit(tr.Rec{"ev": "drain", "id": id, "topics": c19Topics})
}

func (e *c19Env) publish(from string, op c19Op) {
	m := int(atomic.AddInt64(&e.m, 1))
	p := e.proxies[from]
	switch op.Op {
	case "uni":
		e.t.Emit(tr.Rec{"ev": "pubB", "m": m, "topic": op.Topic, "ids": []string{op.ID}})
		ok, err := p.Unicast(m, op.Topic, op.ID)
		okids := []string{}
		if ok {
			okids = append(okids, op.ID)
		}
		e.pubE(m, okids, err)
	case "multi":
		e.t.Emit(tr.Rec{"ev": "pubB", "m": m, "topic": op.Topic, "ids": op.IDs})
		res, err := p.Multicast(m, op.Topic, op.IDs)
		e.pubE(m, c19True(res), err)
	case "bcast":
		e.t.Emit(tr.Rec{"ev": "pubB", "m": m, "topic": op.Topic, "ids": c19IDs})
		res, err := p.Broadcast(m, op.Topic)
		e.pubE(m, c19True(res), err)
	}
}

func c19True(res map[string]bool) []string {
	out := []string{}
	for id, ok := range res {
		if ok {
			out = append(out, id)
		}
	}
	sort.Strings(out)
	return out
}

func (e *c19Env) pubE(m int, okids []string, err error) {
	if err != nil {
		e.t.Emit(tr.Rec{"ev": "pubErr", "m": m, "err": err.Error()})
		return
	}
	e.t.Emit(tr.Rec{"ev": "pubE", "m": m, "okids": okids})
}

func (e *c19Env) subOp(op c19Op) {
	p := e.proxies[op.ID]
	if op.Op == "sub" {
		ok, err := p.Subscribe(op.Topic)
		if err != nil {
			e.t.Emit(tr.Rec{"ev": "subErr", "err": err.Error()})
			return
		}
		e.t.Emit(tr.Rec{"ev": "sub", "id": op.ID, "topic": op.Topic, "ok": ok})
	} else {
		ok, err := p.Unsubscribe(op.Topic)
		if err != nil {
			e.t.Emit(tr.Rec{"ev": "subErr", "err": err.Error()})
			return
		}
		e.t.Emit(tr.Rec{"ev": "unsub", "id": op.ID, "topic": op.Topic, "ok": ok})
	}
}

func c19Run(t *tr.Writer, id int, c c19Case) {
	Watch(id, tr.Rec{"mode": c.Mode}, c)
	t.Reset(id, tr.Rec{"mode": c.Mode, "scenario": c.Scenario, "input": c})
	if c.Mode == "hb" {
		c19HeartBeat(t, c)
		return
	}
	if c.Mode == "prosumer" {
		c19Prosumer(t, c)
		return
	}
	e := newC19Env(t, time.Duration(c.TimeoutMs)*time.Millisecond)
	defer e.close()
	switch c.Mode {
	case "seq":
		for _, op := range c.Ops {
			Watch(id, tr.Rec{"mode": c.Mode}, c)
			switch op.Op {
			case "sub", "unsub":
				e.subOp(op)
			case "poll":
				e.poll(op.ID)
			default:
				e.publish("p1", op)
			}
		}
		for _, cid := range c19IDs {
			e.drain(cid)
		}
	case "conc":
		for _, cid := range c19IDs {
			for _, tp := range c19Topics {
				e.subOp(c19Op{Op: "sub", ID: cid, Topic: tp})
			}
		}
		var pubs, polls sync.WaitGroup
		stop := make(chan struct{})
		for _, cid := range c19IDs {
			polls.Add(1)
			go func(cid string) {
				defer polls.Done()
				for {
					select {
					case <-stop:
						return
					default:
					}
					if _, ok := e.poll(cid); !ok {
						return
					}
				}
			}(cid)
		}
		for p := 0; p < c.Pubs; p++ {
			pubs.Add(1)
			go func(p int) {
				defer pubs.Done()
				rng := tr.NewRng(c.Seed*31 + int64(p))
				from := fmt.Sprintf("p%d", p+1)
				for i := 0; i < c.N; i++ {
					Watch(id, tr.Rec{"mode": c.Mode}, c)
					tp := c19Topics[rng.Intn(2)]
					switch rng.Intn(4) {
					case 0:
						e.publish(from, c19Op{Op: "bcast", Topic: tp})
					case 1:
						e.publish(from, c19Op{Op: "multi", Topic: tp, IDs: c19IDs})
					default:
						e.publish(from, c19Op{Op: "uni", Topic: tp, ID: c19IDs[rng.Intn(2)]})
					}
					// pace the publishes around the poll time-out so that time-outs and publishes collide
					time.Sleep(time.Duration(rng.Intn(c.TimeoutMs*700)) * time.Microsecond)
				}
			}(p)
		}
		pubs.Wait()
		close(stop)
		polls.Wait()
		for _, cid := range c19IDs {
			e.drain(cid)
		}
	case "gate":
		g := gate.New()
		defer g.Close()
		g.HoldTimeout = 3 * time.Second
		e.subOp(c19Op{Op: "sub", ID: "a", Topic: "t"})
		switch c.Scenario {
		case "popped-then-timeout":
			// the publisher has taken the poll's responder but not yet the messages when the poll times out
			g.HoldAt("push.responsePopped", func([]interface{}) bool { return true })
			pollDone := make(chan struct{})
			go func() { defer close(pollDone); e.poll("a") }()
			time.Sleep(time.Duration(c.TimeoutMs) * time.Millisecond / 3)
			pubDone := make(chan struct{})
			go func() { defer close(pubDone); e.publish("p1", c19Op{Op: "uni", Topic: "t", ID: "a"}) }()
			var h *gate.Hold
			select {
			case h = <-g.Parked:
			case <-time.After(2 * time.Second):
			}
			g.HoldAt("push.responsePopped", nil)
			// let the poll's time-out fire while the publisher is parked
			time.Sleep(time.Duration(c.TimeoutMs)*time.Millisecond + 5*time.Millisecond)
			if h != nil {
				h.Release()
			}
			<-pubDone
			select {
			case <-pollDone:
			case <-time.After(3 * time.Second):
				t.Emit(tr.Rec{"ev": "pollHang", "id": "a"})
			}
		case "taken-then-timeout":
			// the publisher holds the messages in its hand (taken from the cache) when the poll times out
			g.HoldAt("push.sendTaken", func([]interface{}) bool { return true })
			pollDone := make(chan struct{})
			go func() { defer close(pollDone); e.poll("a") }()
			time.Sleep(time.Duration(c.TimeoutMs) * time.Millisecond / 3)
			pubDone := make(chan struct{})
			go func() { defer close(pubDone); e.publish("p1", c19Op{Op: "uni", Topic: "t", ID: "a"}) }()
			var h *gate.Hold
			select {
			case h = <-g.Parked:
			case <-time.After(2 * time.Second):
			}
			g.HoldAt("push.sendTaken", nil)
			time.Sleep(time.Duration(c.TimeoutMs)*time.Millisecond + 5*time.Millisecond)
			if h != nil {
				h.Release()
			}
			<-pubDone
			select {
			case <-pollDone:
			case <-time.After(3 * time.Second):
				t.Emit(tr.Rec{"ev": "pollHang", "id": "a"})
			}
		case "timeout-then-publish":
			// the poll has timed out and is parked before it returns; a publish arrives
			g.HoldAt("push.pollTimeout", func([]interface{}) bool { return true })
			pollDone := make(chan struct{})
			go func() { defer close(pollDone); e.poll("a") }()
			var h *gate.Hold
			select {
			case h = <-g.Parked:
			case <-time.After(2 * time.Second):
			}
			g.HoldAt("push.pollTimeout", nil)
			e.publish("p1", c19Op{Op: "uni", Topic: "t", ID: "a"})
			if h != nil {
				h.Release()
			}
			select {
			case <-pollDone:
			case <-time.After(3 * time.Second):
				t.Emit(tr.Rec{"ev": "pollHang", "id": "a"})
			}
		case "empty-then-publish":
			// the poll found nothing and is parked before it registers; a publish arrives
			g.HoldAt("push.pollEmpty", func([]interface{}) bool { return true })
			pollDone := make(chan struct{})
			go func() { defer close(pollDone); e.poll("a") }()
			var h *gate.Hold
			select {
			case h = <-g.Parked:
			case <-time.After(2 * time.Second):
			}
			g.HoldAt("push.pollEmpty", nil)
			e.publish("p1", c19Op{Op: "uni", Topic: "t", ID: "a"})
			if h != nil {
				h.Release()
			}
			select {
			case <-pollDone:
			case <-time.After(3 * time.Second):
				t.Emit(tr.Rec{"ev": "pollHang", "id": "a"})
			}
		}
		e.drain("a")
	}
}

func c19Alphabet() []c19Op {
	var a []c19Op
	for _, id := range c19IDs {
		a = append(a, c19Op{Op: "sub", ID: id, Topic: "t"}, c19Op{Op: "poll", ID: id}, c19Op{Op: "uni", ID: id, Topic: "t"})
	}
	a = append(a, c19Op{Op: "unsub", ID: "a", Topic: "t"}, c19Op{Op: "sub", ID: "a", Topic: "u"},
		c19Op{Op: "bcast", Topic: "t"}, c19Op{Op: "multi", Topic: "t", IDs: c19IDs}, c19Op{Op: "uni", ID: "a", Topic: "u"})
	return a
}

func runC19(a Args) tr.Summary {
	t := tr.New(a.Out)
	defer t.Close()
	var sum tr.Summary
	if a.Only != "" {
		var c c19Case
		if err := json.Unmarshal([]byte(a.Only), &c); err != nil {
			panic(err)
		}
		c19Run(t, 1, c)
		sum.Cases, sum.Events = t.Cases, t.Lines
		return sum
	}
	alpha := c19Alphabet()
	var cases []c19Case
	exLen, nRandom, nConc := 3, 150, 6
	if a.Tier == "thorough" {
		exLen, nRandom, nConc = 4, 3000, 40
	}
	var rec func(p []c19Op, n int)
	rec = func(p []c19Op, n int) {
		if len(p) == n {
			// only histories in which somebody subscribes are of interest
			for _, op := range p {
				if op.Op == "sub" {
					cases = append(cases, c19Case{Mode: "seq", Ops: append([]c19Op(nil), p...), TimeoutMs: 4})
					break
				}
			}
			return
		}
		for _, op := range alpha {
			rec(append(p, op), n)
		}
	}
	for n := 1; n <= exLen; n++ {
		rec(nil, n)
	}
	exhaustive := len(cases)
	rng := tr.NewRng(a.Seed)
	for i := 0; i < nRandom; i++ {
		n := 5 + rng.Intn(8)
		ops := []c19Op{{Op: "sub", ID: c19IDs[rng.Intn(2)], Topic: "t"}}
		for j := 0; j < n; j++ {
			ops = append(ops, alpha[rng.Intn(len(alpha))])
		}
		cases = append(cases, c19Case{Mode: "seq", Ops: ops, TimeoutMs: 3 + rng.Intn(4)})
	}
	for i := 0; i < nConc; i++ {
		cases = append(cases, c19Case{Mode: "conc", TimeoutMs: 2 + rng.Intn(3), Pubs: 2 + rng.Intn(2), N: 60, Seed: a.Seed*977 + int64(i)})
	}
	// cases take real time (every empty poll waits for the poll time-out): run them 16 wide
	var wg sync.WaitGroup
	sem := make(chan struct{}, 16)
	id := 0
	nontrivial := 0
	for _, c := range cases {
		id++
		myid, cc := id, c
		pubs := 0
		for _, op := range cc.Ops {
			if op.Op == "uni" || op.Op == "multi" || op.Op == "bcast" {
				pubs++
			}
		}
		if pubs > 0 || cc.Mode != "seq" {
			nontrivial++
		}
		if id%499 == 3 && len(sum.Samples) < 4 {
			sum.Samples = append(sum.Samples, cc)
		}
		wg.Add(1)
		sem <- struct{}{}
		go func() {
			defer wg.Done()
			defer func() { <-sem }()
			sub := tr.New(fmt.Sprintf("%s.real%d", a.Out, myid))
			c19Run(sub, myid, cc)
			sub.Close()
		}()
	}
	wg.Wait()
	// Prosumer end to end
	for _, kind := range []string{"tcp", "mock"} {
		for r := 0; r < 4; r++ {
			id++
			nontrivial++
			c := c19Case{Mode: "prosumer", Kind: kind, TimeoutMs: 30, Pubs: 1 + r%2, N: 40, Seed: a.Seed*733 + int64(id)}
			if r == 2 {
				c.Scenario, c.N = "resub", 150
			}
			if r == 3 {
				c.Scenario, c.N = "welcome", 60
			}
			sub := tr.New(fmt.Sprintf("%s.real%d", a.Out, id))
			c19Run(sub, id, c)
			sub.Close()
		}
	}
	// heart beat scenarios (real time: the heart beat is 400 ms, the client polls within 40 ms)
	for _, kind := range []string{"tcp", "mock"} {
		for _, sc := range []string{"pubclose", "direct", "lapse"} {
			id++
			nontrivial++
			c := c19Case{Mode: "hb", Kind: kind, Scenario: sc, TimeoutMs: 40, HBMs: 400, Seed: a.Seed*131 + int64(id)}
			if sc == "lapse" {
				c.HBMs = 60
			}
			sub := tr.New(fmt.Sprintf("%s.real%d", a.Out, id))
			c19Run(sub, id, c)
			sub.Close()
		}
	}
	// gate-forced orders run alone (the gate is process-global)
	for _, sc := range []string{"popped-then-timeout", "taken-then-timeout", "timeout-then-publish", "empty-then-publish"} {
		for _, to := range []int{6, 12} {
			id++
			nontrivial++
			c := c19Case{Mode: "gate", Scenario: sc, TimeoutMs: to}
			sub := tr.New(fmt.Sprintf("%s.real%d", a.Out, id))
			c19Run(sub, id, c)
			sub.Close()
			if to == 6 && len(sum.Samples) < 6 {
				sum.Samples = append(sum.Samples, c)
			}
		}
	}
	t.Close()
	appendFiles(a.Out, 1, id)
	sum.Cases = id
	sum.Nontrivial = nontrivial
	sum.Extra = tr.Rec{"exhaustive_len": exLen, "exhaustive_cases": exhaustive, "random_cases": nRandom, "concurrent_cases": nConc, "gate_cases": 8}
	return sum
}

// heart beat: after a delivery the broker takes a client offline (drops its subscriptions and what is
// queued for it) unless the client polls again within Broker.HeartBeat. A client that does poll in
// time must lose nothing, whatever else happens - in particular whatever becomes of the publishers.
//
//	pubclose  a publish wakes the waiting poll; a second message is accepted; the first publisher
//	          disconnects; the client polls again well within the heart beat
//	direct    a poll finds a queued message at once; further messages are published and polled
//	          within the heart beat, by publishers that come and go
//	lapse     the client lets the heart beat pass: from then on the broker may have taken it offline
//	          (the monitor's `lapse` step), and the remaining run is judged accordingly
func c19HeartBeat(t *tr.Writer, c c19Case) {
	hb := time.Duration(c.HBMs) * time.Millisecond
	e := newC19EnvOn(t, c.Kind, time.Duration(c.TimeoutMs)*time.Millisecond, hb)
	defer e.close()
	// the scenarios poll well within the heart beat; on a machine so loaded that a poll comes later than
	// that all the same, the lapse is recorded (the broker may then have taken the client offline)
	lastPoll := time.Now()
	origPoll := e.pollHook
	_ = origPoll
	e.pollHook = func(id string) {
		if id == "a" && time.Since(lastPoll) > hb*7/10 {
			t.Emit(tr.Rec{"ev": "lapse", "id": "a"})
		}
	}
	e.polledHook = func(id string) {
		if id == "a" {
			lastPoll = time.Now()
		}
	}
	rng := tr.NewRng(c.Seed)
	e.subOp(c19Op{Op: "sub", ID: "a", Topic: "t"})
	pubs := []string{"p1", "p2", "p3"}
	switch c.Scenario {
	case "pubclose":
		for round := 0; round < 3; round++ {
			x, y := pubs[round%3], pubs[(round+1)%3]
			pollDone := make(chan struct{})
			go func() { defer close(pollDone); e.poll("a") }()
			time.Sleep(time.Duration(c.TimeoutMs) * time.Millisecond / 4)
			e.publish(x, c19Op{Op: "uni", Topic: "t", ID: "a"}) // wakes the poll; the heart beat starts
			<-pollDone
			e.publish(y, c19Op{Op: "uni", Topic: "t", ID: "a"}) // queued
			e.clients[x].Abort()                                // x's connection goes away
			time.Sleep(hb / 10)
			e.poll("a") // well within the heart beat
		}
	case "direct":
		for round := 0; round < 4; round++ {
			x := pubs[rng.Intn(3)]
			e.publish(x, c19Op{Op: "uni", Topic: "t", ID: "a"})
			if rng.Intn(2) == 0 {
				e.clients[x].Abort()
			}
			e.poll("a") // finds the message at once
			time.Sleep(time.Duration(rng.Intn(int(hb/8) + 1)))
		}
	case "lapse":
		e.publish("p1", c19Op{Op: "uni", Topic: "t", ID: "a"})
		e.poll("a")
		time.Sleep(hb * 3)
		t.Emit(tr.Rec{"ev": "lapse", "id": "a"})
		e.publish("p2", c19Op{Op: "uni", Topic: "t", ID: "a"})
		e.poll("a")
	}
	time.Sleep(hb / 10)
	e.drain("a")
}

// Prosumer end to end: a real Prosumer subscribes with callbacks; publishers publish; what the
// callbacks see is the delivery (one pollE per callback, in the order the callbacks are entered).
// Some callbacks are slow (seeded), so that the next batch arrives while the previous one is still
// being handed to the application.
func c19Prosumer(t *tr.Writer, c c19Case) {
	e := newC19EnvOn(t, c.Kind, time.Duration(c.TimeoutMs)*time.Millisecond, 0)
	defer e.close()
	rng := tr.NewRng(c.Seed)
	slow := map[int]bool{}
	for m := 1; m <= c.N*c.Pubs+4; m++ {
		slow[m] = rng.Intn(3) == 0
	}
	url := ""
	for _, cl := range e.clients {
		url = cl.URLs[0].String()
		break
	}
	pc := core.NewClient(url)
	defer pc.Abort()
	ps := push.NewProsumer(pc, "a")
	ps.RetryInterval = 5 * time.Millisecond
	var seen int64
	first := c19Topics
	if c.Scenario == "welcome" {
		// only "t" to begin with; "u" comes and goes during the traffic, and the broker greets every new
		// subscriber of "u" from its OnSubscribe callback: accepted before Subscribe has returned
		first = c19Topics[:1]
		e.broker.OnSubscribe = func(ctx context.Context, id string, topic string) {
			if topic != "u" {
				return
			}
			m := int(atomic.AddInt64(&e.m, 1))
			t.Emit(tr.Rec{"ev": "pubB", "m": m, "topic": "u", "ids": []string{id}})
			okids := []string{}
			if e.broker.Unicast(ctx, m, "u", id, "broker") {
				okids = append(okids, id)
			}
			t.Emit(tr.Rec{"ev": "pubE", "m": m, "okids": okids})
			// the reply to Subscribe is late: the running poll brings the greeting to the client first
			time.Sleep(3 * time.Millisecond)
		}
	}
	var seenU int64
	for _, topic := range first {
		topic := topic
		ok, err := ps.Subscribe(topic, func(data interface{}, from string) {
			m := c19Int(data)
			t.Emit(tr.Rec{"ev": "pollE", "id": "a", "res": tr.Rec{topic: []int{m}}})
			atomic.AddInt64(&seen, 1)
			if slow[m] {
				time.Sleep(1500 * time.Microsecond)
			}
		})
		if err != nil {
			t.Emit(tr.Rec{"ev": "subErr", "err": err.Error()})
			return
		}
		t.Emit(tr.Rec{"ev": "sub", "id": "a", "topic": topic, "ok": ok})
	}
	time.Sleep(10 * time.Millisecond)
	var wg sync.WaitGroup
	var accepted int64
	stopResub := make(chan struct{})
	var resubDone sync.WaitGroup
	if c.Scenario == "resub" {
		// subscribing during traffic: every Subscribe starts another poll loop, so loops overlap while
		// messages flow (a third topic nobody publishes to comes and goes)
		resubDone.Add(1)
		go func() {
			defer resubDone.Done()
			for i := 0; ; i++ {
				select {
				case <-stopResub:
					return
				default:
				}
				if ok, err := ps.Subscribe("w", func(data interface{}, from string) {}); err == nil {
					t.Emit(tr.Rec{"ev": "sub", "id": "a", "topic": "w", "ok": ok})
				}
				time.Sleep(time.Duration(200+i%7*150) * time.Microsecond)
				if ok, err := ps.Unsubscribe("w"); err == nil {
					t.Emit(tr.Rec{"ev": "unsub", "id": "a", "topic": "w", "ok": ok})
				}
				time.Sleep(time.Duration(100+i%5*100) * time.Microsecond)
			}
		}()
	}
	if c.Scenario == "welcome" {
		resubDone.Add(1)
		go func() {
			defer resubDone.Done()
			for i := 0; ; i++ {
				select {
				case <-stopResub:
					return
				default:
				}
				t.Emit(tr.Rec{"ev": "subB", "id": "a", "topic": "u"})
				ok, err := ps.Subscribe("u", func(data interface{}, from string) {
					t.Emit(tr.Rec{"ev": "pollE", "id": "a", "res": tr.Rec{"u": []int{c19Int(data)}}})
					atomic.AddInt64(&seenU, 1)
				})
				if err != nil {
					t.Emit(tr.Rec{"ev": "subErr", "err": err.Error()})
					return
				}
				t.Emit(tr.Rec{"ev": "subE", "id": "a", "topic": "u", "ok": ok})
				// the greeting was accepted inside Subscribe: its callback comes (or never does)
				for w := 0; w < 2500 && atomic.LoadInt64(&seenU) < int64(i+1); w++ {
					time.Sleep(time.Millisecond)
				}
				t.Emit(tr.Rec{"ev": "settled", "id": "a", "topic": "u"})
				if ok, err := ps.Unsubscribe("u"); err == nil {
					t.Emit(tr.Rec{"ev": "unsub", "id": "a", "topic": "u", "ok": ok})
				}
				time.Sleep(time.Duration(300+i%5*200) * time.Microsecond)
			}
		}()
	}
	for p := 0; p < c.Pubs; p++ {
		wg.Add(1)
		go func(p int) {
			defer wg.Done()
			prng := tr.NewRng(c.Seed*31 + int64(p))
			from := fmt.Sprintf("p%d", p+1)
			for i := 0; i < c.N; i++ {
				// flow control: with many accepted messages not yet seen by the callbacks, the order of every
				// concurrent pair among them is still open for the monitor (2^pairs states)
				for w := 0; w < 2000 && atomic.LoadInt64(&accepted)-atomic.LoadInt64(&seen) > 6; w++ {
					time.Sleep(200 * time.Microsecond)
				}
				before := atomic.LoadInt64(&e.m)
				topic := c19Topics[prng.Intn(2)]
				if c.Scenario == "welcome" {
					topic = "t"
				}
				e.publish(from, c19Op{Op: "uni", Topic: topic, ID: "a"})
				_ = before
				atomic.AddInt64(&accepted, 1)
				time.Sleep(time.Duration(prng.Intn(900)) * time.Microsecond)
			}
		}(p)
	}
	wg.Wait()
	close(stopResub)
	resubDone.Wait()
	// everything published has been accepted (the client is subscribed): wait for the callbacks
	for i := 0; i < 600 && atomic.LoadInt64(&seen) < atomic.LoadInt64(&accepted); i++ {
		time.Sleep(5 * time.Millisecond)
	}
	time.Sleep(20 * time.Millisecond)
	t.Emit(tr.Rec{"ev": "drain", "id": "a", "topics": first})
	for _, topic := range c19Topics {
		ps.Unsubscribe(topic)
	}
}
