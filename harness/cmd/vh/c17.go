package main

import (
	"context"
	"encoding/json"
	"errors"
	"fmt"
	"sort"
	"strings"
	"sync"
	"sync/atomic"
	"time"

	"github.com/hprose/hprose-golang/v3/rpc/core"
	"github.com/hprose/hprose-golang/v3/rpc/plugins/limiter"

	"verif/harness/gate"
	"verif/harness/tr"
)

// C17: limiters. Semaphore cases run lock-step: requests are started one at a time, park inside an
// instrumented downstream handler and are finished in the case's order; time-outs are provoked by
// real waits. Rate-limiter cases bracket every Acquire with monotonic clock readings (microseconds
// from the start of the case). The Limiter monitors (TLA+) judge the traces.

func init() { drivers["c17"] = runC17 }

type c17Op struct {
	Op string `json:"op"` // sem: start | finish | wait | quiesce ; rate: acquire | sleep
	O  string `json:"o,omitempty"`
	J  int    `json:"j,omitempty"`
	N  int    `json:"n,omitempty"`  // rate: tokens
	Us int    `json:"us,omitempty"` // rate: sleep microseconds
}

type c17Case struct {
	Kind    string  `json:"kind"` // sem | rate | rateconc
	Max     int     `json:"max,omitempty"`
	Timeout int     `json:"timeout_us"`
	Rate    int     `json:"rate,omitempty"`
	MaxP    int     `json:"maxp,omitempty"`
	Ops     []c17Op `json:"ops,omitempty"`
	Procs   int     `json:"procs,omitempty"`
	N       int     `json:"n,omitempty"`
	Via     string  `json:"via,omitempty"` // rate: "acquire" | "invoke"
}

func c17Sem(t *tr.Writer, id int, c c17Case) {
	start := time.Now()
	us := func() int { return int(time.Since(start) / time.Microsecond) }
	var lim *limiter.ConcurrentLimiter
	if c.Timeout > 0 {
		lim = limiter.NewConcurrentLimiter(c.Max, time.Duration(c.Timeout)*time.Microsecond)
	} else {
		lim = limiter.NewConcurrentLimiter(c.Max)
	}
	client := core.NewClient("verif://sem")
	type held struct {
		c    int
		ch   chan string
		done chan struct{}
	}
	var mu sync.Mutex
	var holds []*held
	entered := make(chan int, 64)
	callKey := struct{ k string }{"c17"}
	rec := func(ctx context.Context, request []byte, next core.NextIOHandler) ([]byte, error) {
		cid := ctx.Value(callKey).(int)
		h := &held{c: cid, ch: make(chan string)}
		mu.Lock()
		holds = append(holds, h)
		t.Emit(tr.Rec{"ev": "enter", "c": cid})
		mu.Unlock()
		entered <- cid
		o := <-h.ch
		t.Emit(tr.Rec{"ev": "exit", "c": cid, "o": o})
		switch o {
		case "ok":
			return miniResp("ok"), nil
		case "err":
			return nil, errors.New("scripted")
		default:
			panic("scripted-panic")
		}
	}
	client.Use(lim, core.IOHandler(rec))
	Watch(id, tr.Rec{"kind": c.Kind}, c)
	t.Reset(id, tr.Rec{"kind": "sem", "max": c.Max, "timeout": c.Timeout, "input": c})
	next := 0
	dones := map[int]chan struct{}{}
	cancels := map[int]context.CancelFunc{}
	// requests in flight (a sync.WaitGroup must not be waited for while new requests are added)
	var active int64
	allDone := func() chan struct{} {
		ch := make(chan struct{})
		go func() {
			for atomic.LoadInt64(&active) > 0 {
				time.Sleep(200 * time.Microsecond)
			}
			close(ch)
		}()
		return ch
	}
	var lastStart time.Time
	startCall := func() int {
		next++
		cid := next
		lastStart = time.Now()
		d := make(chan struct{})
		dones[cid] = d
		cctx, cancel := context.WithCancel(context.WithValue(context.Background(), callKey, cid))
		cancels[cid] = cancel
		t.Emit(tr.Rec{"ev": "acqB", "c": cid, "t": us()})
		atomic.AddInt64(&active, 1)
		go func() {
			defer atomic.AddInt64(&active, -1)
			defer close(d)
			res := "ok"
			func() {
				defer func() {
					if e := recover(); e != nil {
						res = "panic"
					}
				}()
				_, err := client.InvokeContext(cctx, "f", nil)
				switch {
				case err == nil:
				case err == core.ErrTimeout:
					res = "timeout"
				case err == context.Canceled:
					res = "canceled"
				case err.Error() == "scripted":
					res = "err"
				case err.Error() == "scripted-panic":
					res = "panic"
				default:
					res = "other:" + err.Error()
				}
			}()
			t.Emit(tr.Rec{"ev": "end", "c": cid, "res": res, "t": us()})
		}()
		return cid
	}
	settle := func(cid int) {
		// wait until the request is executing, has ended, or has evidently joined the queue
		select {
		case <-entered:
		case <-dones[cid]:
		case <-time.After(3 * time.Millisecond):
		}
	}
	finish := func(j int, o string) {
		mu.Lock()
		if len(holds) == 0 {
			mu.Unlock()
			return
		}
		h := holds[j%len(holds)]
		holds = append(holds[:j%len(holds)], holds[j%len(holds)+1:]...)
		mu.Unlock()
		h.ch <- o
		<-dones[h.c]
		// a queued request may now be admitted
		select {
		case <-entered:
		case <-time.After(2 * time.Millisecond):
		}
	}
	quiesce := func() bool {
		mu.Lock()
		busy := len(holds) > 0
		mu.Unlock()
		if busy {
			return false
		}
		// queued requests without a timeout would wait forever: only probe when none is queued
		select {
		case <-allDone():
		case <-time.After(time.Duration(c.Timeout)*time.Microsecond + 50*time.Millisecond):
			return false
		}
		t.Emit(tr.Rec{"ev": "quiesce", "cr": lim.ConcurrentRequests()})
		return true
	}
	for _, op := range c.Ops {
		Watch(id, tr.Rec{"kind": c.Kind}, c)
		switch op.Op {
		case "start":
			settle(startCall())
		case "finish":
			finish(op.J, op.O)
		case "finishAt":
			// a request finishes just when the latest queued request's wait runs out (op.Us: offset in us)
			if c.Timeout > 0 {
				if d := time.Until(lastStart.Add(time.Duration(c.Timeout+op.Us) * time.Microsecond)); d > 0 {
					time.Sleep(d)
				}
			}
			finish(op.J, op.O)
		case "cancel":
			// the caller of the latest request gives up (its own context is cancelled): if the request still
			// waits for a permit it leaves the queue; it must not go on without one
			if next > 0 {
				t.Emit(tr.Rec{"ev": "cancel", "c": next})
				cancels[next]()
				select {
				case <-entered:
				case <-dones[next]:
				case <-time.After(3 * time.Millisecond):
				}
			}
		case "wait":
			if c.Timeout > 0 {
				time.Sleep(time.Duration(c.Timeout)*time.Microsecond + 8*time.Millisecond)
			}
		case "quiesce":
			quiesce()
		}
	}
	// drain: finish everything that is executing until nothing is left
	for i := 0; i < 1000; i++ {
		mu.Lock()
		n := len(holds)
		mu.Unlock()
		if n == 0 {
			select {
			case <-allDone():
				i = 1000
			case <-entered:
			case <-time.After(20 * time.Second):
				t.Emit(tr.Rec{"ev": "wedged"})
				return
			}
			continue
		}
		finish(0, "ok")
	}
	t.Emit(tr.Rec{"ev": "quiesce", "cr": lim.ConcurrentRequests()})
	// capacity probe: Max fresh requests must all be admitted together
	n := 0
	for i := 0; i < c.Max; i++ {
		cid := startCall()
		select {
		case <-entered:
			n++
		case <-dones[cid]:
		case <-time.After(2 * time.Second):
		}
	}
	for {
		mu.Lock()
		k := len(holds)
		mu.Unlock()
		if k == 0 {
			break
		}
		finish(0, "ok")
	}
	select {
	case <-allDone():
		t.Emit(tr.Rec{"ev": "probe", "n": n})
	case <-time.After(time.Duration(c.Timeout)*time.Microsecond + 5*time.Second):
		t.Emit(tr.Rec{"ev": "wedged"})
	}
}

func c17Rate(t *tr.Writer, id int, c c17Case) {
	opts := []limiter.Option{limiter.WithMaxPermits(float64(c.MaxP))}
	if c.Timeout > 0 {
		opts = append(opts, limiter.WithTimeout(time.Duration(c.Timeout)*time.Microsecond))
	}
	ival := 1000000 / c.Rate
	start := time.Now()
	us := func() int { return int(time.Since(start) / time.Microsecond) }
	t0 := us()
	lim := limiter.NewRateLimiter(int64(c.Rate), opts...)
	t1 := us() + 1
	maxtok := 1
	for _, op := range c.Ops {
		if op.N > maxtok {
			maxtok = op.N
		}
	}
	Watch(id, tr.Rec{"kind": c.Kind}, c)
	if c.Via == "io" {
		maxtok = 600
	}
	t.Reset(id, tr.Rec{"kind": c.Kind, "ival": ival, "maxp": c.MaxP, "timeout": c.Timeout, "t0": t0, "t1": t1,
		"maxtok": maxtok, "rate": c.Rate, "input": c})
	var client *core.Client
	var reqLen int64 // Via "io": the length of the request the limiter is about to charge for
	if c.Via == "io" {
		maxtok = 600
		client = core.NewClient("verif://rate")
		client.Use(core.IOHandler(func(ctx context.Context, request []byte, next core.NextIOHandler) ([]byte, error) {
			atomic.StoreInt64(&reqLen, int64(len(request)))
			return next(ctx, request)
		}), core.IOHandler(lim.IOHandler), core.IOHandler(func(ctx context.Context, request []byte, next core.NextIOHandler) ([]byte, error) {
			return miniResp("ok"), nil
		}))
	}
	if c.Via == "invoke" {
		client = core.NewClient("verif://rate")
		client.Use(core.InvokeHandler(lim.InvokeHandler), core.InvokeHandler(func(ctx context.Context, name string, args []interface{}, next core.NextInvokeHandler) ([]interface{}, error) {
			return []interface{}{"ok"}, nil
		}))
	}
	acquireCtx := func(ctx context.Context, n int) (int, int, string) {
		a := us()
		var err error
		if c.Via == "io" {
			_, err = client.InvokeContext(ctx, "f", []interface{}{strings.Repeat("x", n)})
		} else if client != nil {
			_, err = client.InvokeContext(ctx, "f", nil)
		} else {
			err = lim.Acquire(ctx, n)
		}
		b := us() + 1
		res := "ok"
		if err == core.ErrTimeout {
			res = "timeout"
		} else if err == context.Canceled || err == context.DeadlineExceeded {
			res = "canceled"
		} else if err != nil {
			res = "other:" + err.Error()
		}
		return a, b, res
	}
	acquire := func(n int) (int, int, string) {
		return acquireCtx(context.Background(), n)
	}
	if c.Kind == "rate" {
		for _, op := range c.Ops {
			Watch(id, tr.Rec{"kind": c.Kind}, c)
			switch op.Op {
			case "acquire", "acquirec":
				n := op.N
				if client != nil && c.Via != "io" {
					n = 1
				}
				ctx := context.Background()
				if op.Op == "acquirec" {
					// the caller gives up after op.Us microseconds: if it still waits then, it is not admitted
					var cancel context.CancelFunc
					ctx, cancel = context.WithCancel(ctx)
					tm := time.AfterFunc(time.Duration(op.Us)*time.Microsecond, cancel)
					defer tm.Stop()
				}
				a, b, res := acquireCtx(ctx, n)
				if c.Via == "io" {
					n = int(atomic.LoadInt64(&reqLen)) // what the limiter charges: the request's length
				}
				// cost and burst in microseconds, computed here (64-bit): at high rates a permit is a fraction
				// of a microsecond and TLC's integers are 32-bit
				t.Emit(tr.Rec{"ev": "acquire", "t0": a, "t1": b, "n": n, "res": res,
					"cost": int(int64(n) * 1000000 / int64(c.Rate)), "burst": int(int64(c.MaxP) * 1000000 / int64(c.Rate))})
			case "sleep":
				time.Sleep(time.Duration(op.Us) * time.Microsecond)
			}
		}
		return
	}
	// rategate: the yield point between Load and Store of `next` is a barrier for Procs goroutines,
	// so that all of them compute from the same loaded value (the lost-update order)
	if c.Kind == "rategate" {
		g := gate.New()
		g.Barrier("limiter.rateLoaded", c.Procs, 3*time.Millisecond)
		defer g.Close()
	}
	// concurrent: Procs goroutines x N acquisitions of one token; judged on windows
	type adm struct{ a, b int }
	var mu sync.Mutex
	var adms []adm
	var wg sync.WaitGroup
	for g := 0; g < c.Procs; g++ {
		wg.Add(1)
		go func() {
			defer wg.Done()
			for i := 0; i < c.N; i++ {
				a, b, res := acquire(1)
				if res == "ok" {
					mu.Lock()
					adms = append(adms, adm{a, b})
					mu.Unlock()
				}
			}
		}()
	}
	wg.Wait()
	// windows [x, y] over a sample of the recorded instants; tokens = admissions whose whole call lies inside
	sort.Slice(adms, func(i, j int) bool { return adms[i].a < adms[j].a })
	var pts []int
	step := len(adms)/24 + 1
	for i := 0; i < len(adms); i += step {
		pts = append(pts, adms[i].a)
	}
	ends := []int{}
	for i := 0; i < len(adms); i += step {
		ends = append(ends, adms[i].b)
	}
	if len(adms) > 0 {
		ends = append(ends, adms[len(adms)-1].b+1, us()+1)
	}
	for _, x := range pts {
		for _, y := range ends {
			if y <= x {
				continue
			}
			n := 0
			for _, m := range adms {
				if m.a >= x && m.b <= y {
					n++
				}
			}
			t.Emit(tr.Rec{"ev": "window", "x": x, "y": y, "tokens": n})
		}
	}
}

func runC17(a Args) tr.Summary {
	t := tr.New(a.Out)
	defer t.Close()
	var sum tr.Summary
	if a.Only != "" {
		var c c17Case
		if err := json.Unmarshal([]byte(a.Only), &c); err != nil {
			panic(err)
		}
		if c.Kind == "sem" {
			c17Sem(t, 1, c)
		} else {
			c17Rate(t, 1, c)
		}
		sum.Cases, sum.Events = t.Cases, t.Lines
		return sum
	}
	rng := tr.NewRng(a.Seed)
	id := 0
	var cases []c17Case
	// semaphore: exhaustive short scripts without timing (timeout 0 and a long timeout), then seeded ones with waits
	alpha := []c17Op{{Op: "start"}, {Op: "finish", J: 0, O: "ok"}, {Op: "finish", J: 1, O: "err"}, {Op: "finish", J: 0, O: "panic"}, {Op: "quiesce"}}
	exLen := 4
	nSemRandom, nRate, nRateConc := 40, 48, 6
	if a.Tier == "thorough" {
		exLen = 6
		nSemRandom, nRate, nRateConc = 400, 400, 30
	}
	var gen func(p []c17Op, n int)
	gen = func(p []c17Op, n int) {
		if len(p) == n {
			for _, max := range []int{1, 2} {
				// without a timeout queued requests need a later finish; the drain at the end provides it
				cases = append(cases, c17Case{Kind: "sem", Max: max, Timeout: 0, Ops: append([]c17Op(nil), p...)})
			}
			return
		}
		for _, o := range alpha {
			gen(append(p, o), n)
		}
	}
	for n := 1; n <= exLen; n++ {
		gen(nil, n)
	}
	// the same with a (long) wait time-out and the caller giving up in the alphabet
	alphaC := []c17Op{{Op: "start"}, {Op: "cancel"}, {Op: "finish", J: 0, O: "ok"}, {Op: "finish", J: 1, O: "panic"}, {Op: "quiesce"}}
	var genC func(p []c17Op, n int)
	genC = func(p []c17Op, n int) {
		if len(p) == n {
			hasCancel := false
			for _, o := range p {
				hasCancel = hasCancel || o.Op == "cancel"
			}
			if hasCancel {
				for _, max := range []int{1, 2} {
					cases = append(cases, c17Case{Kind: "sem", Max: max, Timeout: 400000, Ops: append([]c17Op(nil), p...)})
				}
			}
			return
		}
		for _, o := range alphaC {
			genC(append(p, o), n)
		}
	}
	for n := 2; n <= exLen; n++ {
		genC(nil, n)
	}
	for i := 0; i < nSemRandom; i++ {
		m := 6 + rng.Intn(10)
		var ops []c17Op
		for j := 0; j < m; j++ {
			switch x := rng.Intn(10); {
			case x < 4:
				ops = append(ops, c17Op{Op: "start"})
				if rng.Intn(4) == 0 {
					ops = append(ops, c17Op{Op: "cancel"})
				}
			case x < 7:
				ops = append(ops, c17Op{Op: "finish", J: rng.Intn(3), O: []string{"ok", "err", "panic"}[rng.Intn(3)]})
			case x < 9:
				ops = append(ops, c17Op{Op: "wait"})
			default:
				ops = append(ops, c17Op{Op: "quiesce"})
			}
		}
		cases = append(cases, c17Case{Kind: "sem", Max: 1 + rng.Intn(3), Timeout: 20000, Ops: ops})
	}
	// a permit released just when a queued request's wait runs out: the request takes it or gives up, the
	// permit is not lost either way
	nSemRace := 6
	if a.Tier == "thorough" {
		nSemRace = 40
	}
	for i := 0; i < nSemRace; i++ {
		ops := []c17Op{{Op: "start"}}
		for j := 0; j < 14; j++ {
			ops = append(ops, c17Op{Op: "start"}, c17Op{Op: "finishAt", J: 0, O: "ok", Us: rng.Intn(240) - 160})
		}
		ops = append(ops, c17Op{Op: "quiesce"})
		cases = append(cases, c17Case{Kind: "sem", Max: 1 + i%2, Timeout: 2500, Ops: ops})
	}
	// high rates, many tokens per request (what the IO handler does with request sizes): a permit takes a
	// fraction of a microsecond, the requests still have to wait milliseconds
	nHigh := 4
	if a.Tier == "thorough" {
		nHigh = 24
	}
	for i := 0; i < nHigh; i++ {
		rate := []int{7000000, 300000000, 700000000, 45000000}[i%4]
		var ops []c17Op
		for j := 0; j < 5; j++ {
			ms := 2 + rng.Intn(12) // the request costs this many milliseconds
			ops = append(ops, c17Op{Op: "acquire", N: rate / 1000 * ms})
			if rng.Intn(3) == 0 {
				ops = append(ops, c17Op{Op: "sleep", Us: rng.Intn(3000)})
			}
		}
		cases = append(cases, c17Case{Kind: "rate", Rate: rate, MaxP: 0, Timeout: 0, Ops: ops, Via: "acquire"})
	}
	for i := 0; i < nRate; i++ {
		rate := []int{100, 200, 250, 500}[rng.Intn(4)]
		ival := 1000000 / rate
		m := 6 + rng.Intn(14)
		var ops []c17Op
		for j := 0; j < m; j++ {
			if rng.Intn(3) == 0 {
				ops = append(ops, c17Op{Op: "sleep", Us: rng.Intn(4 * ival)})
			} else {
				ops = append(ops, c17Op{Op: "acquire", N: 1 + rng.Intn(3)})
			}
		}
		to := 0
		if rng.Intn(3) > 0 {
			to = ival + rng.Intn(3*ival)
		}
		via := "acquire"
		if rng.Intn(4) == 0 {
			via = "invoke"
		}
		cases = append(cases, c17Case{Kind: "rate", Rate: rate, MaxP: rng.Intn(4), Timeout: to, Ops: ops, Via: via})
	}
	// the limiter as IO handler: a request costs its length in permits; bursts smaller than a request
	nIO := 6
	if a.Tier == "thorough" {
		nIO = 40
	}
	for i := 0; i < nIO; i++ {
		rate := []int{20000, 50000, 100000}[i%3]
		var ops []c17Op
		for j := 0; j < 6; j++ {
			ops = append(ops, c17Op{Op: "acquire", N: 20 + rng.Intn(200)})
			if rng.Intn(4) == 0 {
				ops = append(ops, c17Op{Op: "sleep", Us: rng.Intn(4000)})
			}
		}
		cases = append(cases, c17Case{Kind: "rate", Rate: rate, MaxP: []int{0, 10, 50}[rng.Intn(3)], Timeout: 0, Ops: ops, Via: "io"})
	}
	// callers that give up while they wait
	for i := 0; i < nIO; i++ {
		rate := []int{100, 200, 500}[i%3]
		ival := 1000000 / rate
		var ops []c17Op
		for j := 0; j < 8; j++ {
			if rng.Intn(2) == 0 {
				ops = append(ops, c17Op{Op: "acquirec", N: 1 + rng.Intn(2), Us: rng.Intn(ival)})
			} else {
				ops = append(ops, c17Op{Op: "acquire", N: 1})
			}
		}
		cases = append(cases, c17Case{Kind: "rate", Rate: rate, MaxP: rng.Intn(2), Timeout: 0, Ops: ops, Via: []string{"acquire", "invoke"}[i%2]})
	}
	for i := 0; i < nRateConc; i++ {
		cases = append(cases, c17Case{Kind: "rateconc", Rate: []int{500, 1000, 2000}[rng.Intn(3)], MaxP: rng.Intn(3), Procs: 8, N: 40 + rng.Intn(40)})
	}
	nGate := 3
	if a.Tier == "thorough" {
		nGate = 12
	}
	var gateCases []c17Case
	for i := 0; i < nGate; i++ {
		gateCases = append(gateCases, c17Case{Kind: "rategate", Rate: []int{500, 1000, 2000}[rng.Intn(3)], MaxP: rng.Intn(3), Procs: 2 + rng.Intn(3), N: 25})
	}
	// cases take real time: run them 16 wide, each into its own file, and concatenate
	var wg sync.WaitGroup
	sem := make(chan struct{}, 16)
	nontrivial := 0
	for _, c := range cases {
		id++
		myid := id
		cc := c
		if len(cc.Ops) >= 3 || cc.Kind == "rateconc" {
			nontrivial++
		}
		if id%311 == 1 && len(sum.Samples) < 6 {
			sum.Samples = append(sum.Samples, cc)
		}
		wg.Add(1)
		sem <- struct{}{}
		go func() {
			defer wg.Done()
			defer func() { <-sem }()
			sub := tr.New(fmt.Sprintf("%s.real%d", a.Out, myid))
			if cc.Kind == "sem" {
				c17Sem(sub, myid, cc)
			} else {
				c17Rate(sub, myid, cc)
			}
			sub.Close()
		}()
	}
	wg.Wait()
	// the gate is process-global: gated cases run alone, one after the other
	for _, c := range gateCases {
		id++
		nontrivial++
		sub := tr.New(fmt.Sprintf("%s.real%d", a.Out, id))
		c17Rate(sub, id, c)
		sub.Close()
		if len(sum.Samples) < 7 {
			sum.Samples = append(sum.Samples, c)
		}
	}
	t.Close()
	appendFiles(a.Out, 1, id)
	sum.Cases = id
	sum.Nontrivial = nontrivial
	sum.Extra = tr.Rec{"sem_exhaustive_len": exLen, "sem_random": nSemRandom, "rate_sequential": nRate, "rate_concurrent": nRateConc, "rate_gated": nGate}
	return sum
}
