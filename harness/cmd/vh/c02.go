package main

import (
	"container/list"
	"context"
	"encoding/json"
	"errors"
	"fmt"
	hio "github.com/hprose/hprose-golang/v3/io"
	"math/big"
	"os"
	"os/exec"
	"reflect"
	"runtime/debug"
	"sort"
	"strings"
	"syscall"
	"time"

	"github.com/google/uuid"

	"verif/harness/gen"
	"verif/harness/tr"
)

// C02: reference mode on shared and cyclic graphs. (1) every rooted graph with up to N nodes and
// up to E edges over the recursive type gen.Node (edges: Next pointer, Kids slice element, M map
// value, Any interface), trees, DAGs, self-loops, longer cycles, cycles through slices and maps;
// (2) every sequence of up to two referable items of 16 kinds followed by repeats of the first and
// the last, so that every reference counter site is followed by a back-reference. Judged by
// HproseFormat!C02Why: the stream is well-formed, every reference lands on the node the projection
// says is shared, each object reached through pointers is written once, and the decoded graph has
// the same unfolding.

func init() { drivers["c02"] = runC02 }

type c02Edge struct {
	Src  int    `json:"s"`
	Kind string `json:"k"` // next | kid | map | any
	Dst  int    `json:"d"`
}

type c02Case struct {
	Kind  string    `json:"kind"` // graph | prefix | tprefix | random | ptrifacecycle
	N     int       `json:"n,omitempty"`
	Edges []c02Edge `json:"edges,omitempty"`
	Items []int     `json:"items,omitempty"`
	Dest  string    `json:"dest"` // typed | iface
	Mode  string    `json:"mode"`
	Seed  int64     `json:"seed,omitempty"`
	Fam   string    `json:"fam,omitempty"` // graph family: "" = gen.Node, "B" = gen.Node2
}

func c02Build(n int, edges []c02Edge) *gen.Node {
	nodes := make([]*gen.Node, n)
	for i := range nodes {
		nodes[i] = &gen.Node{V: i + 1}
	}
	for _, e := range edges {
		s, d := nodes[e.Src], nodes[e.Dst]
		switch e.Kind {
		case "next":
			s.Next = d
		case "kid":
			s.Kids = append(s.Kids, d)
		case "map":
			if s.M == nil {
				s.M = map[string]*gen.Node{}
			}
			s.M[fmt.Sprintf("k%d", len(s.M))] = d
		case "any":
			s.Any = d
		}
	}
	return nodes[0]
}

func c02Build2(n int, edges []c02Edge) *gen.Node2 {
	nodes := make([]*gen.Node2, n)
	for i := range nodes {
		nodes[i] = &gen.Node2{V: i + 1}
	}
	for _, e := range edges {
		s, d := nodes[e.Src], nodes[e.Dst]
		switch e.Kind {
		case "arr":
			if s.Arr == nil {
				s.Arr = &[2]*gen.Node2{}
			}
			if s.Arr[0] == nil {
				s.Arr[0] = d
			} else {
				s.Arr[1] = d
			}
		case "ps":
			if s.PS == nil {
				s.PS = &[]*gen.Node2{}
			}
			*s.PS = append(*s.PS, d)
		case "pm":
			if s.PM == nil {
				s.PM = &map[string]*gen.Node2{}
			}
			(*s.PM)[fmt.Sprintf("k%d", len(*s.PM))] = d
		case "val":
			s.Val[0] = d
		}
	}
	// then the edges that share a container: the source points at the destination's array / slice / map
	// itself, so that the container (not a node) is what is referred back to
	for _, e := range edges {
		s, d := nodes[e.Src], nodes[e.Dst]
		switch e.Kind {
		case "sarr":
			if d.Arr == nil {
				d.Arr = &[2]*gen.Node2{}
			}
			s.Arr = d.Arr
		case "sps":
			if d.PS == nil {
				d.PS = &[]*gen.Node2{}
			}
			s.PS = d.PS
		case "spm":
			if d.PM == nil {
				d.PM = &map[string]*gen.Node2{}
			}
			s.PM = d.PM
		}
	}
	return nodes[0]
}

var c02Kinds = map[string][]string{"": {"next", "kid", "map", "any"}, "B": {"arr", "ps", "pm", "val"},
	"C": {"arr", "sarr", "ps", "sps", "pm", "spm"}}

func c02Graphs(n, maxEdges int, family string) [][]c02Edge {
	var all []c02Edge
	for s := 0; s < n; s++ {
		for _, k := range c02Kinds[family] {
			for d := 0; d < n; d++ {
				all = append(all, c02Edge{s, k, d})
			}
		}
	}
	var out [][]c02Edge
	seen := map[string]bool{}
	var rec func(start int, cur []c02Edge)
	rec = func(start int, cur []c02Edge) {
		// single-valued edges: at most one next / any per source
		single := map[string]bool{}
		okc := true
		for _, e := range cur {
			if e.Kind == "next" || e.Kind == "any" || e.Kind == "val" || e.Kind == "sarr" || e.Kind == "sps" || e.Kind == "spm" {
				k := fmt.Sprintf("%d%s", e.Src, e.Kind)
				if single[k] {
					okc = false
				}
				single[k] = true
			}
			if e.Kind == "arr" { // two slots
				k := fmt.Sprintf("%d%s", e.Src, e.Kind)
				if single[k+"2"] {
					okc = false
				}
				if single[k] {
					single[k+"2"] = true
				}
				single[k] = true
			}
		}
		if !okc {
			return
		}
		// every node must be reachable from node 0 and every edge must start at a reachable node
		reach := map[int]bool{0: true}
		for changed := true; changed; {
			changed = false
			for _, e := range cur {
				if reach[e.Src] && !reach[e.Dst] {
					reach[e.Dst] = true
					changed = true
				}
			}
		}
		full := len(reach) == n
		for _, e := range cur {
			if !reach[e.Src] {
				full = false
			}
		}
		if full {
			key := fmt.Sprint(cur)
			if !seen[key] {
				seen[key] = true
				out = append(out, append([]c02Edge(nil), cur...))
			}
		}
		if len(cur) == maxEdges {
			return
		}
		for i := start; i < len(all); i++ {
			rec(i+1, append(cur, all[i]))
			if k := all[i].Kind; k == "kid" || k == "map" || k == "arr" || k == "ps" || k == "pm" {
				// a slice or map may hold the same node twice
				rec(i, append(cur, all[i]))
			}
		}
	}
	rec(0, nil)
	return out
}

// the 16 kinds of referable items; every call returns fresh objects, the caller repeats the same ones
func c02Items() []func() interface{} {
	return []func() interface{}{
		func() interface{} { return "hello" },
		func() interface{} { b := []byte("bytes"); return &b },
		func() interface{} { return time.Date(2021, 1, 2, 3, 4, 5, 0, time.UTC) },
		func() interface{} { t := time.Date(2022, 2, 3, 4, 5, 6, 0, time.UTC); return &t },
		func() interface{} { return uuid.MustParse("01234567-89ab-cdef-0123-456789abcdef") },
		func() interface{} { s := []int{1, 2}; return &s },
		func() interface{} { m := map[string]int{"a": 1}; return &m },
		func() interface{} { return &gen.Plain{A: 1, B: "pb", C: 1.5} },
		func() interface{} { return &struct{ X, Y string }{"ax", "ay"} },
		func() interface{} { return gen.Base{ID: 7, Tag: "tg"} },
		func() interface{} { one := 1; return &gen.Tagged{Name: "nm", Age: 3, Ptr: &one} },
		func() interface{} { return complex(1.5, 2.5) },
		func() interface{} { return big.NewRat(1, 3) },
		func() interface{} { return errors.New("boom") },
		func() interface{} { x := [][]byte{[]byte("r0"), nil, []byte("r2")}; return &x },
		func() interface{} { x := [][]int{{1, 2}, {3}}; return &x },
		// a list.List with referable elements, byte arrays (by value and behind a pointer), a registered and a
		// non-ASCII struct
		func() interface{} {
			l := list.New()
			l.PushBack("in-list")
			l.PushBack("in-list")
			l.PushBack(1.5)
			return l
		},
		func() interface{} { return [4]byte{1, 2, 3, 4} },
		func() interface{} { return &[3]byte{7, 8, 9} },
		func() interface{} { return &gen.OneMap{M: map[string]int{"one": 1}} },
		func() interface{} { return &gen.Ünï{Ключ: 3, A名: "名"} },
		// a long text (strings are referred to whatever their length), a struct without fields (a map with
		// no entries on the wire: it takes its place in the reference table like any other)
		func() interface{} { return strings.Repeat("long-", 230) },
		func() interface{} { return struct{}{} },
		func() interface{} { m := map[string]struct{}{"k": {}}; return &m },
	}
}

func runC02(a Args) tr.Summary {
	t := tr.New(a.Out)
	defer t.Close()
	var sum tr.Summary
	id := 0
	nodeT := reflect.TypeOf((*gen.Node)(nil))
	ifaceT := reflect.TypeOf((*interface{})(nil)).Elem()
	items := c02Items()
	run := func(c c02Case) {
		id++
		Watch(id, tr.Rec{"kind": c.Kind}, c)
		var v reflect.Value
		var g gen.Gen
		switch c.Kind {
		case "graph":
			var root interface{} = c02Build(c.N, c.Edges)
			nodeT := nodeT
			if c.Fam == "B" || c.Fam == "C" {
				root, nodeT = c02Build2(c.N, c.Edges), reflect.TypeOf((*gen.Node2)(nil))
			}
			if c.Dest == "typed" {
				g = gen.Gen{Name: "graph:*Node", T: nodeT, Leaf: "graph"}
				v = reflect.ValueOf(root)
			} else {
				g = gen.Gen{Name: "graph:iface", T: ifaceT, Leaf: "graph"}
				x := reflect.New(ifaceT).Elem()
				x.Set(reflect.ValueOf(root))
				v = x
			}
		case "prefix":
			objs := []interface{}{}
			for _, i := range c.Items {
				objs = append(objs, items[i]())
			}
			seq := append([]interface{}{}, objs...)
			seq = append(seq, objs[0], objs[len(objs)-1], "hello", objs[0])
			g = gen.Gen{Name: "prefix:[]iface", T: reflect.TypeOf([]interface{}{}), Leaf: "prefix"}
			v = reflect.ValueOf(seq)
		case "tprefix":
			// the same sequence in typed fields: every typed decoder's reference counter site is followed
			// by back-references (the same pointers, equal strings)
			objs := []interface{}{}
			for _, i := range c.Items {
				objs = append(objs, items[i]())
			}
			seq := append([]interface{}{}, objs...)
			seq = append(seq, objs[0], objs[len(objs)-1], "hello", objs[0])
			fs := make([]reflect.StructField, len(seq))
			for i, o := range seq {
				fs[i] = reflect.StructField{Name: fmt.Sprintf("F%d", i), Type: reflect.TypeOf(o)}
				if fs[i].Type.Implements(reflect.TypeOf((*error)(nil)).Elem()) {
					fs[i].Type = reflect.TypeOf((*error)(nil)).Elem()
				}
			}
			st := reflect.StructOf(fs)
			sv := reflect.New(st).Elem()
			for i, o := range seq {
				sv.Field(i).Set(reflect.ValueOf(o))
			}
			g = gen.Gen{Name: "tprefix:struct", T: st, Leaf: "tprefix"}
			v = sv
		case "ptrifacecycle":
			// a cycle that closes through a *interface{} and a slice held by value. In the child (-extra child)
			// the value is encoded; the parent turns a dead child into the case's encoder panic
			r := new(interface{})
			*r = []interface{}{r}
			g = gen.Gen{Name: "ptrifacecycle:ptr(iface)", T: reflect.TypeOf(r), Leaf: "ptrifacecycle"}
			v = reflect.ValueOf(r)
			if a.Extra == "child" {
				debug.SetMaxStack(32 << 20)
				b, err := hio.Formatter{Simple: false}.Marshal(r)
				fmt.Println("ENCODED", len(b), err)
				return
			}
			self, _ := os.Executable()
			cb, _ := json.Marshal(c)
			ctx, cancel := context.WithTimeout(context.Background(), 60*time.Second)
			cmd := exec.CommandContext(ctx, self, "c02", "-only", string(cb), "-extra", "child", "-out", os.DevNull)
			cmd.SysProcAttr = &syscall.SysProcAttr{Pdeathsig: syscall.SIGKILL}
			var stderr strings.Builder
			cmd.Stderr = &stderr
			err := cmd.Run()
			cancel()
			msg := ""
			if err != nil {
				msg = "the encoder did not return: " + err.Error()
				if i := strings.Index(stderr.String(), "fatal error: "); i >= 0 {
					msg = strings.SplitN(stderr.String()[i:], "\n", 2)[0]
				}
			}
			failedEncode(t, id, g, gen.Val{V: v, Class: "cycle"}, c.Mode, tr.Rec{"input": c, "kind": "c02"}, msg)
			return
		case "random":
			g = gen.RandomOpt(c.Seed, c.N, true)
			v = g.Vals[0].V
		}
		roundTrip(t, id, g, gen.Val{V: v, Class: fmt.Sprint(c.Items, len(c.Edges))}, c.Mode, tr.Rec{"input": c, "kind": "c02"})
		if id%997 == 5 && len(sum.Samples) < 5 {
			sum.Samples = append(sum.Samples, c)
		}
	}
	if a.Only != "" {
		var c c02Case
		if err := json.Unmarshal([]byte(a.Only), &c); err != nil {
			panic(err)
		}
		run(c)
		sum.Cases, sum.Events = t.Lines, t.Lines
		return sum
	}
	maxN, maxE := 3, 3
	if a.Tier == "thorough" {
		maxN, maxE = 4, 4
	}
	nontrivial := 0
	for _, fam := range []string{"", "B", "C"} {
		for n := 1; n <= maxN; n++ {
			if fam == "C" && a.Tier != "thorough" && n > 2 {
				continue // containers shared between nodes: two nodes in the quick tier
			}
			me := maxE
			if a.Tier == "thorough" && fam != "" {
				// the second and third family in the thorough tier: 3 nodes (4 / 3 edges); 4 nodes x 4 edges
				// is several million graphs each
				if n > 3 {
					continue
				}
				if me = 4; fam == "C" {
					me = 3
				}
			}
			gs := c02Graphs(n, me, fam)
			sort.Slice(gs, func(i, j int) bool { return len(gs[i]) < len(gs[j]) })
			for _, edges := range gs {
				for _, dest := range []string{"typed", "iface"} {
					run(c02Case{Kind: "graph", N: n, Edges: edges, Dest: dest, Mode: "ref", Fam: fam})
					if len(edges) >= n {
						nontrivial++ // at least one edge beyond a tree: sharing or a cycle
					}
				}
			}
		}
	}
	graphs := id
	for i := range items {
		run(c02Case{Kind: "prefix", Items: []int{i}, Dest: "iface", Mode: "ref"})
		nontrivial++
		for j := range items {
			run(c02Case{Kind: "prefix", Items: []int{i, j}, Dest: "iface", Mode: "ref"})
			nontrivial++
			if a.Tier == "thorough" {
				for k := range items {
					run(c02Case{Kind: "prefix", Items: []int{i, j, k}, Dest: "iface", Mode: "ref"})
					nontrivial++
				}
			}
		}
	}
	prefixes := id - graphs
	errIdx := 13 // an error is not a typed round-trip type
	for i := range items {
		for j := range items {
			if i == errIdx || j == errIdx {
				continue
			}
			run(c02Case{Kind: "tprefix", Items: []int{i, j}, Dest: "typed", Mode: "ref"})
			nontrivial++
		}
	}
	nRandom := 2000
	if a.Tier == "thorough" {
		nRandom = 30000
	}
	for i := 0; i < nRandom; i++ {
		run(c02Case{Kind: "random", N: 2 + i%3, Dest: "typed", Mode: "ref", Seed: a.Seed*1000003 + int64(i)})
		if i == 0 {
			run(c02Case{Kind: "ptrifacecycle", Dest: "typed", Mode: "ref"})
		}
	}
	sum.Cases = id
	sum.Events = t.Lines
	sum.Nontrivial = nontrivial
	sum.Extra = tr.Rec{"graphs": graphs, "prefixes": prefixes, "typed_prefixes": id - graphs - prefixes - nRandom, "random": nRandom,
		"max_nodes": maxN, "max_edges": maxE, "exhaustive": true}
	return sum
}
