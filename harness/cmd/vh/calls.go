package main

import (
	"bufio"
	"bytes"
	"context"
	"crypto/sha1"
	"encoding/hex"
	"encoding/json"
	"errors"
	"fmt"
	"io"
	"net"
	"net/http"
	"net/http/httptest"
	"net/url"
	"reflect"
	"sort"
	"strings"
	"sync"
	"sync/atomic"
	"time"

	"github.com/hprose/hprose-golang/v3/rpc/core"
	"github.com/hprose/hprose-golang/v3/rpc/plugins/oneway"
	"github.com/hprose/hprose-golang/v3/rpc/plugins/reverse"

	"verif/harness/peers"
	"verif/harness/rpcenv"
	"verif/harness/tr"
)

// C11 / C12 / C13: containment of faults, exact delivery of bytes, MaxRequestLength. Every case runs
// in a child process (a fault that takes the process down must not take the check down): a real
// Service on a real transport, IO-level recording handlers, honest clients, raw sockets with crafted
// frames, and scripted peers answering real clients with crafted responses. The monitors
// Framing / MaxLen / Containment (TLA+) judge the events.

func init() {
	drivers["c11"] = func(a Args) tr.Summary { return runCalls(a, "c11") }
	drivers["c12"] = func(a Args) tr.Summary { return runCalls(a, "c12") }
	drivers["c13"] = func(a Args) tr.Summary { return runCalls(a, "c13") }
}

type callsCase struct {
	Prop     string `json:"prop"`
	Kind     string `json:"kind"`
	Sc       string `json:"sc"`    // scenario
	Limit    int    `json:"limit"` // C13
	Pool     bool   `json:"pool"`
	Seed     int64  `json:"seed"`
	Thorough bool   `json:"thorough"`
}

func digest(b []byte) string {
	h := sha1.Sum(b)
	return hex.EncodeToString(h[:6])
}

func pattern(kind string, n int, seed int64) []byte {
	b := make([]byte, n)
	switch kind {
	case "zeros":
	case "header":
		// bytes that look like frame headers of the socket transport
		h := peers.SocketHeader(5, 1, false)
		for i := range b {
			b[i] = h[i%len(h)]
		}
	default:
		r := tr.NewRng(seed + int64(n))
		for i := range b {
			b[i] = byte(r.U64())
		}
	}
	return b
}

type callsEnv struct {
	t       *tr.Writer
	svc     *core.Service
	env     *rpcenv.Env
	handled int
	mu      sync.Mutex
	silent  int32 // != 0: the IO handler does not record (a concurrent burst is counted by its driver)
}

// newCallsEnv: a service whose outermost IO handler records what it is handed and what it produces.
// A request starting with "RAW:" is answered at the IO level with its bytes XOR 0x5A; anything else goes on
// to the normal processing (published functions).
func newCallsEnv(t *tr.Writer, c callsCase) *callsEnv {
	e := &callsEnv{t: t}
	s := core.NewService()
	e.svc = s
	if c.Limit > 0 {
		s.MaxRequestLength = c.Limit
	} else if c.Limit < 0 {
		s.MaxRequestLength = 0 // nothing but the empty request is within the limit
	}
	s.Use(core.IOHandler(func(ctx context.Context, request []byte, next core.NextIOHandler) ([]byte, error) {
		e.mu.Lock()
		e.handled++
		e.mu.Unlock()
		silent := atomic.LoadInt32(&e.silent) != 0
		if !silent && !strings.HasPrefix(string(request), "Cs2\"ok\"a1{i41;}") { // the sentinel call is not part of the traffic under test
			t.Emit(tr.Rec{"ev": "handled", "n": len(request), "h": digest(request)})
		}
		if strings.HasPrefix(string(request), "RAW:") {
			resp := make([]byte, len(request))
			for i, x := range request {
				resp[i] = x ^ 0x5A
			}
			if !silent {
				t.Emit(tr.Rec{"ev": "produced", "n": len(resp), "h": digest(resp)})
			}
			return resp, nil
		}
		if strings.HasPrefix(string(request), "PANIC-IO") {
			panic("io plugin panic")
		}
		return next(ctx, request)
	}))
	s.AddFunction(func(x int) int { t.Emit(tr.Rec{"ev": "function", "name": "ok"}); return x + 1 }, "ok")
	s.AddFunction(func(v string) int {
		switch v {
		case "string":
			panic("panic-string")
		case "error":
			panic(errors.New("panic-error"))
		case "nil":
			var p *callsCase
			return len(p.Kind)
		case "custom":
			panic(struct{ X int }{7})
		case "nilerror":
			// an error value whose own Error method panics (a typed nil pointer)
			var e *c11BadErr
			panic(e)
		case "stringer":
			panic(c11BadStringer{})
		}
		return 0
	}, "boom")
	s.AddFunction(func(n int) []byte { return make([]byte, n) }, "big")
	s.AddFunction(func(x int) int { time.Sleep(25 * time.Millisecond); return x + 1 }, "slow")
	s.AddFunction(func(a int, b map[string]int) int { return a }, "typed")
	s.Use(core.InvokeHandler(func(ctx context.Context, name string, args []interface{}, next core.NextInvokeHandler) ([]interface{}, error) {
		if name == "pluginboom" {
			panic("invoke plugin panic")
		}
		return next(ctx, name, args)
	}))
	s.AddFunction(func() {}, "pluginboom")
	s.AddMissingMethod(func(name string, args []interface{}) ([]interface{}, error) {
		if name == "missingboom" {
			panic("missing-method panic")
		}
		return []interface{}{"missing"}, nil
	})
	env, err := rpcenv.Start(c.Kind, s, c.Pool)
	if err != nil {
		t.Emit(tr.Rec{"ev": "setup-failed", "err": err.Error()})
		return nil
	}
	e.env = env
	return e
}

func (e *callsEnv) client() *core.Client {
	c := core.NewClient(e.env.URL)
	c.Timeout = 3 * time.Second
	return c
}

// rawRequest sends payload at the IO level through a real client and returns the response bytes
func rawRequest(c *core.Client, payload []byte) ([]byte, error) {
	cc := core.NewClientContext()
	cc.Init(c)
	ctx := core.WithContext(context.Background(), cc)
	var resp []byte
	var err error
	func() {
		defer func() {
			if p := recover(); p != nil {
				err = fmt.Errorf("CALLER-PANIC %v", p)
			}
		}()
		resp, err = c.Request(ctx, payload)
	}()
	return resp, err
}

func errKind(err error) string {
	switch {
	case err == nil:
		return "ok"
	case err == core.ErrRequestEntityTooLarge || strings.Contains(err.Error(), "Request entity too large") || strings.Contains(err.Error(), "413"):
		return "toolarge"
	case strings.HasPrefix(err.Error(), "CALLER-PANIC"):
		return "callerpanic"
	}
	return "error"
}

func sentinel(t *tr.Writer, c *core.Client, where string) {
	done := make(chan struct{})
	var res []interface{}
	var err error
	go func() {
		defer close(done)
		defer func() {
			if p := recover(); p != nil {
				err = fmt.Errorf("CALLER-PANIC %v", p)
			}
		}()
		res, err = c.Invoke("ok", []interface{}{41})
	}()
	select {
	case <-done:
	case <-time.After(5 * time.Second):
		t.Emit(tr.Rec{"ev": "sentinel", "where": where, "ok": false, "detail": "hang"})
		return
	}
	ok := err == nil && len(res) == 1 && fmt.Sprint(res[0]) == "42"
	d := ""
	if err != nil {
		d = err.Error()
	}
	t.Emit(tr.Rec{"ev": "sentinel", "where": where, "ok": ok, "detail": d})
}

// ---- the child: one case ----

func callsChild(t *tr.Writer, c callsCase) {
	e := newCallsEnv(t, c)
	if e == nil {
		return
	}
	defer e.env.Close()
	switch c.Prop {
	case "c12":
		c12Child(t, e, c)
	case "c13":
		c13Child(t, e, c)
	case "c11":
		c11Child(t, e, c)
	}
}

func abs(x int) int {
	if x < 0 {
		return -x
	}
	return x
}

// c11BadErr is an error whose Error method dereferences its receiver
type c11BadErr struct{ msg string }

func (e *c11BadErr) Error() string { return e.msg }

// c11BadStringer panics when it is formatted
type c11BadStringer struct{}

func (c11BadStringer) String() string { panic("String panics") }

func maxPayload(kind string) int {
	if kind == "udp" {
		return 65499
	}
	return 1<<20 + 1
}

func c12Child(t *tr.Writer, e *callsEnv, c callsCase) {
	cl := e.client()
	defer cl.Abort()
	switch c.Sc {
	case "concurrent":
		// many callers on one client, responses larger than the transports' small buffers, every response
		// compared byte by byte with what the service produces for that request (request XOR 0x5A): a
		// response buffer handed back while somebody else already writes into it shows only here
		atomic.StoreInt32(&e.silent, 1)
		cl.Timeout = 3 * time.Second
		var bad, total, failed int64
		var first atomic.Value
		var wg sync.WaitGroup
		for g := 0; g < 8; g++ {
			wg.Add(1)
			go func(g int) {
				defer wg.Done()
				rng := tr.NewRng(c.Seed*97 + int64(g))
				var prevPayload, prevResp []byte
				check := func(what string, payload, resp []byte, err error) {
					atomic.AddInt64(&total, 1)
					if err != nil {
						// "or nothing": a call that fails (a datagram lost under load, say) delivered no bytes
						atomic.AddInt64(&failed, 1)
						return
					}
					ok := len(resp) == len(payload)
					for k := 0; ok && k < len(resp); k++ {
						ok = resp[k] == payload[k]^0x5A
					}
					if !ok {
						atomic.AddInt64(&bad, 1)
						first.CompareAndSwap(nil, fmt.Sprintf("%s: err=%v", what, err))
					}
				}
				for i := 0; i < 40; i++ {
					n := 4097 + rng.Intn(26000)
					if c.Kind == "udp" {
						n = 4097 + rng.Intn(8000) // (eight callers' datagrams have to fit the socket buffers)
					}
					payload := append([]byte("RAW:"), pattern("random", n-4, c.Seed*1000+int64(g*100+i))...)
					resp, err := rawRequest(cl, payload)
					check(fmt.Sprintf("caller %d request %d (%d bytes)", g, i, n), payload, resp, err)
					// the bytes a call returned are the caller's: they are still the same after later calls
					if prevResp != nil {
						check(fmt.Sprintf("caller %d request %d, looked at again after the next call", g, i-1), prevPayload, prevResp, nil)
					}
					prevPayload, prevResp = payload, resp
					if err != nil {
						prevResp = nil
					}
				}
			}(g)
		}
		wg.Wait()
		atomic.StoreInt32(&e.silent, 0)
		d := fmt.Sprintf("%d of %d responses were not what the service produced for the request (%d calls failed)", bad, total, failed)
		if f := first.Load(); f != nil {
			d += "; first: " + f.(string)
		}
		t.Emit(tr.Rec{"ev": "sentinel", "where": "concurrent-large-responses", "ok": bad == 0, "detail": d})
	case "honest":
		lens := []int{4, 5, 7, 8, 11, 12, 13, 16, 255, 256, 257, 4095, 4096, 4097, 65491, 65495}
		if c.Kind != "udp" {
			lens = append(lens, 65499, 65500, 65503, 65535, 65536, 65537, 1<<20-1, 1<<20, 1<<20+1)
		}
		big := []int{}
		if c.Kind == "tcp" || c.Kind == "unix" || c.Kind == "ws" || c.Kind == "http" {
			big = []int{8<<20 + 3} // a length with bit 23 set
			if c.Thorough {
				big = append(big, 16<<20+1, 24<<20-1)
			}
		}
		if !c.Thorough {
			lens = []int{4, 8, 12, 13, 255, 256, 4096, 65495}
			if c.Kind != "udp" {
				lens = append(lens, 65536, 1<<20+1)
			}
		}
		// every length in a window below and above each power of two (buffer and segment sizes), random bytes
		sweep := map[int]bool{}
		for _, b := range []int{256, 512, 1024, 2048, 4096, 8192, 16384, 32768, 65536} {
			for d := -20; d <= 2; d++ {
				if n := b + d; n <= maxPayload(c.Kind) && (c.Thorough || b == 4096 || b == 65536 || d >= -1) {
					sweep[n] = true
				}
			}
		}
		for _, n := range lens {
			delete(sweep, n)
		}
		for n := range sweep {
			lens = append(lens, -n) // negative: swept length
		}
		for _, n := range big {
			lens = append(lens, -n) // random bytes only
		}
		sort.Slice(lens, func(i, j int) bool { return abs(lens[i]) < abs(lens[j]) })
		for _, n := range lens {
			patterns := []string{"zeros", "header", "random"}
			if n < 0 {
				n, patterns = -n, []string{"random"}
			}
			for _, p := range patterns {
				payload := append([]byte("RAW:"), pattern(p, n-4, c.Seed)...)
				t.Emit(tr.Rec{"ev": "sent", "n": len(payload), "h": digest(payload)})
				resp, err := rawRequest(cl, payload)
				if err != nil {
					t.Emit(tr.Rec{"ev": "ret", "kind": errKind(err), "detail": err.Error(), "n": 0, "h": ""})
				} else {
					t.Emit(tr.Rec{"ev": "ret", "kind": "ok", "n": len(resp), "h": digest(resp), "detail": ""})
				}
			}
		}
	case "crafted":
		// client A leaves a recognisable payload behind; raw client B then sends inconsistent frames
		secret := append([]byte("RAW:SECRET-OF-CLIENT-A-"), pattern("random", 200, c.Seed)...)
		t.Emit(tr.Rec{"ev": "sent", "n": len(secret), "h": digest(secret)})
		resp, err := rawRequest(cl, secret)
		if err == nil {
			t.Emit(tr.Rec{"ev": "ret", "kind": "ok", "n": len(resp), "h": digest(resp), "detail": ""})
		} else {
			t.Emit(tr.Rec{"ev": "ret", "kind": errKind(err), "detail": err.Error(), "n": 0, "h": ""})
		}
		u, _ := url.Parse(e.env.URL)
		body := []byte("RAW:xyz-from-client-B")
		frames := c12Frames(c.Kind, body)
		for _, f := range frames {
			var conn net.Conn
			var err error
			switch c.Kind {
			case "udp":
				conn, err = net.Dial("udp", u.Host)
			case "tcp":
				conn, err = net.Dial("tcp", u.Host)
			case "unix":
				conn, err = net.Dial("unix", u.Path)
			}
			if err != nil {
				continue
			}
			t.Emit(tr.Rec{"ev": "rawsent", "what": f.what, "deliver": f.deliver != nil, "n": len(f.deliver), "h": digest(f.deliver)})
			conn.Write(f.bytes)
			conn.SetReadDeadline(time.Now().Add(60 * time.Millisecond))
			buf := make([]byte, 70000)
			conn.Read(buf)
			conn.Close()
			time.Sleep(5 * time.Millisecond)
			t.Emit(tr.Rec{"ev": "rawdone"})
		}
	case "responses":
		// a scripted peer answers a real client with crafted response frames
		c12Responses(t, c)
	}
	sentinel(t, cl, "after")
}

type c12Frame struct {
	what    string
	bytes   []byte
	deliver []byte // what the service may be handed for this frame (nil: nothing)
}

func c12Frames(kind string, body []byte) []c12Frame {
	var out []c12Frame
	n := len(body)
	if kind == "udp" {
		h := func(decl int) []byte { return peers.UDPHeader(decl, 3, false) }
		out = append(out,
			c12Frame{"consistent", append(h(n), body...), body},
			c12Frame{"declared-larger", append(h(n+40), body...), nil},
			c12Frame{"declared-much-larger", append(h(220), body[:5]...), nil},
			c12Frame{"declared-smaller", append(h(n-6), body...), nil},
			c12Frame{"declared-zero", append(h(0), body...), nil},
			c12Frame{"short-datagram", []byte{1, 2, 3}, nil},
			c12Frame{"header-only-declares-body", h(50), nil},
		)
		bad := append(h(n), body...)
		bad[1] ^= 0x40
		out = append(out, c12Frame{"bad-checksum", bad, nil})
		for bit := 0; bit < 64; bit++ {
			x := append(h(n), body...)
			x[bit/8] ^= 1 << uint(bit%8)
			out = append(out, c12Frame{fmt.Sprintf("bitflip-%d", bit), x, nil})
		}
	} else {
		h := func(decl int) []byte { return peers.SocketHeader(decl, 3, false) }
		out = append(out,
			c12Frame{"consistent", append(h(n), body...), body},
			c12Frame{"declared-larger-then-eof", append(h(n+40), body...), nil},
			// a lying stream sender splices its own bytes: the declared prefix is a frame, the rest garbage
			c12Frame{"declared-smaller", append(h(n-6), body...), body[:n-6]},
			c12Frame{"short-header", []byte{1, 2, 3, 4, 5}, nil},
		)
		bad := append(h(n), body...)
		bad[1] ^= 0x40
		out = append(out, c12Frame{"bad-checksum", bad, nil})
		for bit := 0; bit < 96; bit++ {
			x := append(h(n), body...)
			x[bit/8] ^= 1 << uint(bit%8)
			out = append(out, c12Frame{fmt.Sprintf("bitflip-%d", bit), x, nil})
		}
	}
	return out
}

func c12Responses(t *tr.Writer, c callsCase) {
	p, err := peers.New(c.Kind)
	if err != nil {
		return
	}
	defer p.Close()
	cl := core.NewClient(p.URL)
	cl.Timeout = 400 * time.Millisecond
	defer cl.Abort()
	good := []byte("RESPONSE-OF-THE-PEER")
	type crafted struct {
		what    string
		send    func(r peers.Request)
		deliver []byte
	}
	hdr := func(decl, idx int) []byte {
		switch c.Kind {
		case "udp":
			return peers.UDPHeader(decl, idx, false)
		case "ws":
			return peers.WSHeader(idx, false)
		}
		return peers.SocketHeader(decl, idx, false)
	}
	list := []crafted{
		{"consistent", func(r peers.Request) { p.Respond(r.Conn, r.Index, good) }, good},
		{"bad-checksum", func(r peers.Request) {
			b := append(hdr(len(good), r.Index), good...)
			b[1] ^= 0x40
			p.Raw(r.Conn, b)
		}, nil},
	}
	if c.Kind == "udp" {
		list = append(list,
			crafted{"declared-larger", func(r peers.Request) { p.Raw(r.Conn, append(hdr(len(good)+30, r.Index), good...)) }, nil},
			crafted{"declared-smaller", func(r peers.Request) { p.Raw(r.Conn, append(hdr(len(good)-5, r.Index), good...)) }, nil},
			crafted{"short-datagram", func(r peers.Request) { p.Raw(r.Conn, []byte{1, 2, 3}) }, nil})
	}
	if c.Kind == "ws" {
		list = list[:1]
		list = append(list, crafted{"short-message", func(r peers.Request) { p.Raw(r.Conn, []byte{1, 2}) }, nil},
			crafted{"empty-message", func(r peers.Request) { p.Raw(r.Conn, []byte{}) }, nil})
	}
	for _, cr := range list {
		t.Emit(tr.Rec{"ev": "produced", "n": len(cr.deliver), "h": digest(cr.deliver), "what": cr.what, "deliver": cr.deliver != nil})
		done := make(chan struct{})
		var resp []byte
		var err error
		go func() { defer close(done); resp, err = rawRequest(cl, []byte("RAW:q")) }()
		if r, ok := p.Next(time.Second); ok {
			cr.send(r)
		}
		select {
		case <-done:
		case <-time.After(3 * time.Second):
			t.Emit(tr.Rec{"ev": "ret", "kind": "hang", "n": 0, "h": "", "detail": "client call did not return"})
			continue
		}
		if err != nil {
			t.Emit(tr.Rec{"ev": "ret", "kind": errKind(err), "detail": err.Error(), "n": 0, "h": ""})
		} else {
			t.Emit(tr.Rec{"ev": "ret", "kind": "ok", "n": len(resp), "h": digest(resp), "detail": ""})
		}
	}
}

func c13Child(t *tr.Writer, e *callsEnv, c callsCase) {
	cl := e.client()
	defer cl.Abort()
	limit := c.Limit
	if limit < 0 {
		limit = 0
	}
	switch c.Sc {
	case "honest":
		sizes := []int{limit - 1, limit, limit + 1, 5*limit + 3}
		if limit == 0 {
			sizes = []int{4, 16}
		}
		for _, n := range sizes {
			if n < 4 || n > maxPayload(c.Kind) {
				continue
			}
			payload := append([]byte("RAW:"), pattern("random", n-4, c.Seed)...)
			t.Emit(tr.Rec{"ev": "req", "n": n, "limit": limit, "decl": "truthful"})
			_, err := rawRequest(cl, payload)
			d := ""
			if err != nil {
				d = err.Error()
			}
			t.Emit(tr.Rec{"ev": "ret", "kind": errKind(err), "detail": d})
		}
		// far above the limit and more than the socket buffers hold: the client is still writing when the
		// service has made up its mind (the race is lost often, not always: several times)
		if c.Kind != "udp" {
			for k := 0; k < 3; k++ {
				n := 3<<20 + k // (below 4 MiB: a fasthttp.Server refuses more than that by itself)
				payload := append([]byte("RAW:"), pattern("random", n-4, c.Seed+int64(k))...)
				t.Emit(tr.Rec{"ev": "req", "n": n, "limit": limit, "decl": "truthful"})
				_, err := rawRequest(cl, payload)
				d := ""
				if err != nil {
					d = err.Error()
				}
				t.Emit(tr.Rec{"ev": "ret", "kind": errKind(err), "detail": d})
			}
		}
		// the limit is lowered while the client's connection is established: it holds for the next request
		if half := limit / 2; half >= 16 {
			// (a refused request ends its connection: a small request first, so that a connection is
			// established under the old limit)
			small := append([]byte("RAW:"), pattern("random", 8, c.Seed+2)...)
			t.Emit(tr.Rec{"ev": "req", "n": len(small), "limit": limit, "decl": "truthful"})
			_, err0 := rawRequest(cl, small)
			d0 := ""
			if err0 != nil {
				d0 = err0.Error()
			}
			t.Emit(tr.Rec{"ev": "ret", "kind": errKind(err0), "detail": d0})
			e.svc.MaxRequestLength = half
			time.Sleep(2 * time.Millisecond)
			for _, n := range []int{half + 1, half - 1, half, limit} {
				payload := append([]byte("RAW:"), pattern("random", n-4, c.Seed+1)...)
				t.Emit(tr.Rec{"ev": "req", "n": n, "limit": half, "decl": "truthful"})
				_, err := rawRequest(cl, payload)
				d := ""
				if err != nil {
					d = err.Error()
				}
				t.Emit(tr.Rec{"ev": "ret", "kind": errKind(err), "detail": d})
			}
			e.svc.MaxRequestLength = limit
			time.Sleep(2 * time.Millisecond)
		}
		// through a published function as well
		if limit >= 100 {
			t.Emit(tr.Rec{"ev": "req", "n": 0, "limit": limit, "decl": "call"})
			_, err := cl.Invoke("ok", []interface{}{1})
			d := ""
			if err != nil {
				d = err.Error()
			}
			t.Emit(tr.Rec{"ev": "ret", "kind": errKind(err), "detail": d})
		}
	case "http-raw":
		u, _ := url.Parse(e.env.URL)
		body := append([]byte("RAW:"), pattern("random", 5*limit, c.Seed)...)
		small := append([]byte("RAW:"), pattern("random", limit/2, c.Seed)...)
		type req struct {
			decl string
			n    int
			raw  string
		}
		chunked := func(b []byte) string {
			return fmt.Sprintf("POST / HTTP/1.1\r\nHost: x\r\nTransfer-Encoding: chunked\r\nConnection: close\r\n\r\n%x\r\n%s\r\n0\r\n\r\n", len(b), b)
		}
		withCL := func(b []byte, cl int) string {
			return fmt.Sprintf("POST / HTTP/1.1\r\nHost: x\r\nContent-Length: %d\r\nConnection: close\r\n\r\n%s", cl, b)
		}
		// the handlers treat every method but GET like POST: the limit holds for PUT and the others as well
		as := func(method, raw string) string { return method + strings.TrimPrefix(raw, "POST") }
		for _, r := range []req{
			{"absent", len(body), chunked(body)},
			{"absent", len(small), chunked(small)},
			{"truthful", len(body), withCL(body, len(body))},
			{"truthful", len(small), withCL(small, len(small))},
			{"smaller", len(body), withCL(body, limit-1)},
			{"absent", len(body), as("PUT", chunked(body))},
			{"absent", len(small), as("PUT", chunked(small))},
			{"truthful", len(body), as("PUT", withCL(body, len(body)))},
			{"absent", len(body), as("PATCH", chunked(body))},
			{"absent", len(body), as("DELETE", chunked(body))},
		} {
			conn, err := net.Dial("tcp", u.Host)
			if err != nil {
				continue
			}
			t.Emit(tr.Rec{"ev": "req", "n": r.n, "limit": limit, "decl": r.decl})
			conn.Write([]byte(r.raw))
			conn.SetReadDeadline(time.Now().Add(500 * time.Millisecond))
			line, _ := bufio.NewReader(conn).ReadString('\n')
			conn.Close()
			kind := "error"
			switch {
			case strings.Contains(line, " 200"):
				kind = "ok"
			case strings.Contains(line, " 413"):
				kind = "toolarge"
			}
			t.Emit(tr.Rec{"ev": "ret", "kind": kind, "detail": strings.TrimSpace(line)})
		}
	case "http2":
		// the same service behind net/http speaking HTTP/2 (TLS): a body streamed without a declared length has
		// no Transfer-Encoding there - it is just data frames until the stream ends
		hs := &http.Server{}
		if err := e.svc.Bind(hs); err != nil {
			t.Emit(tr.Rec{"ev": "setup-failed", "err": err.Error()})
			return
		}
		ts := httptest.NewUnstartedServer(hs.Handler)
		ts.EnableHTTP2 = true
		ts.StartTLS()
		defer ts.Close()
		hc := ts.Client()
		for _, n := range []int{limit / 2, limit, limit + 1, 5 * limit, 100 * limit} {
			if n < 4 {
				continue
			}
			for _, decl := range []string{"absent", "truthful"} {
				payload := append([]byte("RAW:"), pattern("random", n-4, c.Seed+int64(n))...)
				var body io.Reader = bytes.NewReader(payload)
				if decl == "absent" {
					body = struct{ io.Reader }{body} // no length to be found: the request is streamed
				}
				req, err := http.NewRequest("POST", ts.URL+"/", body)
				if err != nil {
					continue
				}
				t.Emit(tr.Rec{"ev": "req", "n": n, "limit": limit, "decl": decl})
				resp, err := hc.Do(req)
				kind, detail := "error", ""
				if err != nil {
					detail = err.Error()
				} else {
					detail = resp.Proto + " " + resp.Status
					io.Copy(io.Discard, resp.Body)
					resp.Body.Close()
					switch resp.StatusCode {
					case 200:
						kind = "ok"
					case 413:
						kind = "toolarge"
					}
					if resp.ProtoMajor != 2 {
						kind, detail = "error", "not HTTP/2: "+detail
					}
				}
				t.Emit(tr.Rec{"ev": "ret", "kind": kind, "detail": detail})
			}
		}
	case "raw-frames":
		u, _ := url.Parse(e.env.URL)
		body := append([]byte("RAW:"), pattern("random", 3*limit, c.Seed)...)
		for _, decl := range []string{"truthful", "smaller"} {
			d := len(body)
			if decl == "smaller" {
				d = limit - 1
			}
			var conn net.Conn
			var err error
			var frame []byte
			switch c.Kind {
			case "udp":
				conn, err = net.Dial("udp", u.Host)
				frame = append(peers.UDPHeader(d, 1, false), body...)
			case "tcp":
				conn, err = net.Dial("tcp", u.Host)
				frame = append(peers.SocketHeader(d, 1, false), body...)
			case "unix":
				conn, err = net.Dial("unix", u.Path)
				frame = append(peers.SocketHeader(d, 1, false), body...)
			}
			if err != nil {
				continue
			}
			// on a stream the declared prefix is what the sender sent as its frame: it is within the limit
			n := len(body)
			if decl == "smaller" && c.Kind != "udp" {
				n = d
			}
			t.Emit(tr.Rec{"ev": "req", "n": n, "limit": limit, "decl": decl + "-raw"})
			conn.Write(frame)
			// collect whatever the service answers until it has been silent for a while
			buf := make([]byte, 0, 70000)
			tmp := make([]byte, 70000)
			for {
				conn.SetReadDeadline(time.Now().Add(250 * time.Millisecond))
				m, err := conn.Read(tmp)
				buf = append(buf, tmp[:m]...)
				if err != nil || (c.Kind == "udp" && m > 0) {
					break
				}
			}
			k := len(buf)
			conn.Close()
			kind := "error"
			if k > 12 && strings.Contains(strings.ToLower(string(buf[:k])), "too large") {
				kind = "toolarge"
			} else if k > 8 {
				kind = "ok"
			}
			t.Emit(tr.Rec{"ev": "ret", "kind": kind, "detail": ""})
		}
	}
}

func c11Child(t *tr.Writer, e *callsEnv, c callsCase) {
	cl := e.client()
	other := e.client()
	defer cl.Abort()
	defer other.Abort()
	sentinel(t, cl, "before")
	// healthy calls in flight while the fault happens: on another connection always; on the same connection
	// when the fault is the call's own (a panic, arguments that do not fit, an undecodable request), which
	// must produce an error for that call and leave the connection alone
	inflight := func(c *core.Client, where string) func() {
		ch := make(chan bool, 1)
		go func() {
			defer func() {
				if p := recover(); p != nil {
					ch <- false
				}
			}()
			res, err := c.Invoke("slow", []interface{}{41})
			ch <- err == nil && len(res) == 1 && fmt.Sprint(res[0]) == "42"
		}()
		return func() {
			select {
			case ok := <-ch:
				t.Emit(tr.Rec{"ev": "sentinel", "where": where, "ok": ok, "detail": ""})
			case <-time.After(6 * time.Second):
				t.Emit(tr.Rec{"ev": "sentinel", "where": where, "ok": false, "detail": "hang"})
			}
		}
	}
	ownFault := func(what string) bool {
		for _, p := range []string{"function-panic", "invoke-plugin-panic", "missing-method-panic", "mismatched-arguments"} {
			if strings.HasPrefix(what, p) {
				return true
			}
		}
		// a request that one datagram cannot carry is refused before anything is sent: no frame, no peer and
		// no connection is at fault, so it is the call's own error. (An oversized response is different: the
		// service answers with an error-flagged datagram, which the client takes as the end of the connection -
		// the property allows that.)
		if c.Kind == "udp" && what == "request-beyond-transport" {
			return true
		}
		return false
	}
	fault := func(what string, f func() error) {
		t.Emit(tr.Rec{"ev": "fault", "what": what})
		waitOther := inflight(other, "other-client-in-flight-during-"+what)
		waitSame := func() {}
		if ownFault(what) {
			waitSame = inflight(cl, "same-client-in-flight-during-"+what)
		}
		time.Sleep(4 * time.Millisecond) // the healthy calls are with the service now
		defer waitSame()
		defer waitOther()
		done := make(chan error, 1)
		go func() {
			defer func() {
				if p := recover(); p != nil {
					done <- fmt.Errorf("CALLER-PANIC %v", p)
				}
			}()
			done <- f()
		}()
		select {
		case err := <-done:
			d := ""
			if err != nil {
				d = err.Error()
			}
			t.Emit(tr.Rec{"ev": "faultret", "what": what, "kind": errKind(err), "detail": d})
		case <-time.After(6 * time.Second):
			t.Emit(tr.Rec{"ev": "faultret", "what": what, "kind": "hang", "detail": ""})
		}
		sentinel(t, other, "other-client-after-"+what)
		sentinel(t, cl, "same-client-after-"+what)
	}
	invoke := func(name string, args ...interface{}) func() error {
		return func() error { _, err := cl.Invoke(name, args); return err }
	}
	switch c.Sc {
	case "service-faults":
		for _, v := range []string{"string", "error", "nil", "custom", "nilerror", "stringer"} {
			fault("function-panic-"+v, invoke("boom", v))
		}
		fault("invoke-plugin-panic", invoke("pluginboom"))
		fault("missing-method-panic", invoke("missingboom"))
		ioErr := func(resp []byte, err error) error {
			if err == nil && len(resp) > 0 && resp[0] == 'E' {
				return errors.New("error response: " + string(resp))
			}
			return err
		}
		fault("io-plugin-panic", func() error { return ioErr(rawRequest(cl, []byte("PANIC-IO"))) })
		fault("mismatched-arguments", invoke("typed", "not-an-int", "not-a-map"))
		fault("undecodable-request", func() error { return ioErr(rawRequest(cl, []byte("Cs2\"ok\"a1{s5\"ab"))) })
		fault("garbage-request", func() error { return ioErr(rawRequest(cl, []byte{0xff, 0x00, 0x7f})) })
	case "oversize":
		e.svc.MaxRequestLength = 1000
		fault("oversized-request", func() error {
			_, err := rawRequest(cl, append([]byte("RAW:"), make([]byte, 5000)...))
			return err
		})
		n := 70000
		if c.Kind != "udp" {
			n = 2 << 20
		}
		fault("request-beyond-transport", func() error {
			e.svc.MaxRequestLength = 1 << 30
			_, err := rawRequest(cl, append([]byte("RAW:"), make([]byte, n)...))
			return err
		})
		fault("oversized-response", invoke("big", n))
		if c.Kind == "udp" {
			// every response size around what one datagram carries (the body is the result plus 10 bytes)
			for r := 65470; r <= 65512; r++ {
				fault(fmt.Sprintf("response-size-%d", r+10), invoke("big", r))
			}
		}
	case "frames":
		u, _ := url.Parse(e.env.URL)
		for _, f := range c12Frames(c.Kind, []byte("RAW:frame-body-of-fault")) {
			if strings.HasPrefix(f.what, "bitflip") && !strings.HasSuffix(f.what, "7") {
				continue
			}
			what := f.what
			fr := f
			fault("frame-"+what, func() error {
				var conn net.Conn
				var err error
				switch c.Kind {
				case "udp":
					conn, err = net.Dial("udp", u.Host)
				case "tcp":
					conn, err = net.Dial("tcp", u.Host)
				case "unix":
					conn, err = net.Dial("unix", u.Path)
				}
				if err != nil {
					return nil
				}
				conn.Write(fr.bytes)
				conn.SetReadDeadline(time.Now().Add(40 * time.Millisecond))
				buf := make([]byte, 70000)
				conn.Read(buf)
				conn.Close()
				return nil
			})
		}
	case "client-faults":
		c11ClientFaults(t, c)
	case "reverse-faults":
		// a function of a reverse provider panics: its caller gets an error, the provider goes on polling, the
		// other calls of the same batch and the calls after it get their results
		caller := reverse.NewCaller(e.svc)
		caller.HeartBeat = 0
		caller.Timeout = 3 * time.Second
		pcl := e.client()
		defer pcl.Abort()
		prov := reverse.NewProvider(pcl, "p")
		prov.RetryInterval = 10 * time.Millisecond
		prov.AddFunction(func(x int) int {
			if x < 0 {
				panic("provider-boom")
			}
			return x + 1
		}, "inc")
		go prov.Listen()
		defer func() { go prov.Close() }()
		rcall := func(x int) (int, error) {
			res, err := caller.Invoke("p", "inc", []interface{}{x}, reflect.TypeOf(0))
			if err != nil || len(res) != 1 {
				return 0, err
			}
			v, _ := res[0].(int)
			return v, nil
		}
		rsentinel := func(where string) {
			v, err := rcall(41)
			d := ""
			if err != nil {
				d = err.Error()
			}
			t.Emit(tr.Rec{"ev": "sentinel", "where": where, "ok": err == nil && v == 42, "detail": d})
		}
		time.Sleep(5 * time.Millisecond)
		rsentinel("reverse-call-before")
		fault("function-panic-reverse-provider", func() error { _, err := rcall(-1); return err })
		rsentinel("reverse-call-after-panic")
		// "and nothing else": once the calls are over the provider is back in its long poll - it does not
		// keep sending the report of the panicked call (or anything else) over and over
		quiet := func(where string) {
			e.mu.Lock()
			before := e.handled
			e.mu.Unlock()
			time.Sleep(150 * time.Millisecond)
			e.mu.Lock()
			n := e.handled - before
			e.mu.Unlock()
			t.Emit(tr.Rec{"ev": "sentinel", "where": where, "ok": n <= 2, "detail": fmt.Sprintf("%d requests in 150 ms of silence", n)})
		}
		quiet("service-quiet-after-reverse-panic")
		// a batch: the provider is busy (not polling) while three calls queue up, the panicking one first
		busy := make(chan struct{})
		prov.AddFunction(func() int { <-busy; return 0 }, "hold")
		held := make(chan struct{})
		go func() { defer close(held); caller.Invoke("p", "hold", nil, reflect.TypeOf(0)) }()
		time.Sleep(10 * time.Millisecond)
		type rr struct {
			v   int
			err error
		}
		outs := make([]chan rr, 3)
		for i, x := range []int{-1, 10, 20} {
			outs[i] = make(chan rr, 1)
			go func(ch chan rr, x int) { v, err := rcall(x); ch <- rr{v, err} }(outs[i], x)
			time.Sleep(2 * time.Millisecond)
		}
		t.Emit(tr.Rec{"ev": "fault", "what": "function-panic-reverse-batch"})
		close(busy)
		<-held
		for i, want := range []int{0, 11, 21} {
			select {
			case r := <-outs[i]:
				if i == 0 {
					d := ""
					if r.err != nil {
						d = r.err.Error()
					}
					t.Emit(tr.Rec{"ev": "faultret", "what": "function-panic-reverse-batch", "kind": errKind(r.err), "detail": d})
				} else {
					t.Emit(tr.Rec{"ev": "sentinel", "where": fmt.Sprintf("reverse-call-%d-in-the-batch-of-the-panic", i), "ok": r.err == nil && r.v == want, "detail": fmt.Sprint(r.err)})
				}
			case <-time.After(5 * time.Second):
				t.Emit(tr.Rec{"ev": "sentinel", "where": fmt.Sprintf("reverse-call-%d-in-the-batch-of-the-panic", i), "ok": false, "detail": "hang"})
			}
		}
		rsentinel("reverse-call-after-batch")
		quiet("service-quiet-after-reverse-batch")
	}
}

// malformed responses at the client: the client process must survive and stay usable
func c11ClientFaults(t *tr.Writer, c callsCase) {
	p, err := peers.New(c.Kind)
	if err != nil {
		return
	}
	defer p.Close()
	cl := core.NewClient(p.URL)
	cl.Timeout = 300 * time.Millisecond
	defer cl.Abort()
	answer := func(f func(r peers.Request)) (kind string, detail string) {
		done := make(chan error, 1)
		go func() {
			defer func() {
				if pp := recover(); pp != nil {
					done <- fmt.Errorf("CALLER-PANIC %v", pp)
				}
			}()
			_, err := cl.Invoke("ok", []interface{}{41})
			done <- err
		}()
		if r, ok := p.Next(time.Second); ok {
			f(r)
		}
		select {
		case err := <-done:
			if err != nil {
				return errKind(err), err.Error()
			}
			return "ok", ""
		case <-time.After(4 * time.Second):
			return "hang", ""
		}
	}
	faults := map[string]func(r peers.Request){
		"short-message":    func(r peers.Request) { p.Raw(r.Conn, []byte{1, 2}) },
		"empty-message":    func(r peers.Request) { p.Raw(r.Conn, []byte{}) },
		"garbage-header":   func(r peers.Request) { p.Raw(r.Conn, []byte{9, 9, 9, 9, 9, 9, 9, 9, 9, 9, 9, 9, 9}) },
		"malformed-body":   func(r peers.Request) { p.Respond(r.Conn, r.Index, []byte("Ra99999999999{")) },
		"wrong-type-body":  func(r peers.Request) { p.Respond(r.Conn, r.Index, []byte("Rs3\"abc\"z")) },
		"error-frame":      func(r peers.Request) { p.RespondError(r.Conn, r.Index, []byte("boom")) },
		"unknown-tag-body": func(r peers.Request) { p.Respond(r.Conn, r.Index, []byte("Xyz")) },
		"empty-body":       func(r peers.Request) { p.Respond(r.Conn, r.Index, []byte{}) },
		"negative-count":   func(r peers.Request) { p.Respond(r.Conn, r.Index, []byte("Ra-1{}z")) },
	}
	names := make([]string, 0, len(faults))
	for k := range faults {
		names = append(names, k)
	}
	sortStrings(names)
	for _, name := range names {
		if (c.Kind == "tcp" || c.Kind == "unix") && (name == "short-message" || name == "empty-message" || name == "garbage-header") {
			// on a stream these are not messages: they desynchronise the connection, which the next frame then closes
			continue
		}
		t.Emit(tr.Rec{"ev": "fault", "what": "response-" + name})
		k, d := answer(faults[name])
		t.Emit(tr.Rec{"ev": "faultret", "what": "response-" + name, "kind": k, "detail": d})
		// the client stays usable: a well-formed answer is delivered afterwards
		k2, d2 := answer(func(r peers.Request) { p.Respond(r.Conn, r.Index, []byte("R42z")) })
		t.Emit(tr.Rec{"ev": "sentinel", "where": "same-client-after-response-" + name, "ok": k2 == "ok", "detail": d2})
	}
	// one-way calls (plugins/oneway) run in a goroutine of the plugin's own after the caller has returned:
	// whatever goes wrong there - a malformed answer, a panic below the plugin - stays there
	ow := core.NewClient(p.URL)
	ow.Timeout = 300 * time.Millisecond
	defer ow.Abort()
	boom := false
	ow.Use(oneway.Oneway{})
	ow.Use(core.IOHandler(func(ctx context.Context, request []byte, next core.NextIOHandler) ([]byte, error) {
		if boom {
			panic("a plugin below the one-way plugin panics")
		}
		return next(ctx, request)
	}))
	var proxy struct {
		Ok func(x int) error `context:"oneway"`
	}
	ow.UseService(&proxy)
	for _, name := range []string{"oneway-malformed-body", "oneway-error-frame", "oneway-plugin-panic", "oneway-no-answer"} {
		t.Emit(tr.Rec{"ev": "fault", "what": name})
		boom = name == "oneway-plugin-panic"
		done := make(chan error, 1)
		go func() {
			defer func() {
				if pp := recover(); pp != nil {
					done <- fmt.Errorf("CALLER-PANIC %v", pp)
				}
			}()
			done <- proxy.Ok(41)
		}()
		if r, ok := p.Next(300 * time.Millisecond); ok {
			switch name {
			case "oneway-malformed-body":
				p.Respond(r.Conn, r.Index, []byte("Ra99999999999{"))
			case "oneway-error-frame":
				p.RespondError(r.Conn, r.Index, []byte("boom"))
			}
		}
		kind, detail := "hang", ""
		select {
		case err := <-done:
			kind = "error" // the caller of a one-way call learns nothing: any return is fine, a panic is not
			if err != nil {
				detail = err.Error()
				if strings.HasPrefix(detail, "CALLER-PANIC") {
					kind = "callerpanic"
				}
			}
		case <-time.After(4 * time.Second):
		}
		t.Emit(tr.Rec{"ev": "faultret", "what": name, "kind": kind, "detail": detail})
		boom = false
		time.Sleep(350 * time.Millisecond) // the background call has ended one way or the other
		k2, d2 := answer(func(r peers.Request) { p.Respond(r.Conn, r.Index, []byte("R42z")) })
		t.Emit(tr.Rec{"ev": "sentinel", "where": "other-client-after-" + name, "ok": k2 == "ok", "detail": d2})
	}
}

func sortStrings(a []string) {
	for i := range a {
		for j := i + 1; j < len(a); j++ {
			if a[j] < a[i] {
				a[i], a[j] = a[j], a[i]
			}
		}
	}
}

// ---- the parent ----

func callsCases(prop, tier string, seed int64) []callsCase {
	var out []callsCase
	th := tier == "thorough"
	kinds := []string{"mock", "tcp", "udp", "http"}
	if prop == "c12" {
		kinds = append(kinds, "ws", "unix")
	}
	if th || prop == "c13" || prop == "c11" { // the C11 / C13 cases are few and short: every transport in both tiers
		kinds = rpcenv.Kinds
	}
	framed := func(k string) bool { return k == "tcp" || k == "unix" || k == "udp" }
	if prop == "c12" && !th {
		// the concurrent scenario is short: on the transports the quick tier otherwise leaves to the thorough one too
		for _, k := range rpcenv.Kinds {
			listed := false
			for _, x := range kinds {
				listed = listed || x == k
			}
			if !listed {
				out = append(out, callsCase{Prop: prop, Kind: k, Sc: "concurrent", Seed: seed})
			}
		}
	}
	for _, k := range kinds {
		switch prop {
		case "c12":
			out = append(out, callsCase{Prop: prop, Kind: k, Sc: "honest", Seed: seed, Thorough: th},
				callsCase{Prop: prop, Kind: k, Sc: "concurrent", Seed: seed, Thorough: th})
			if framed(k) {
				out = append(out, callsCase{Prop: prop, Kind: k, Sc: "crafted", Seed: seed, Thorough: th})
			}
			if k == "tcp" || k == "udp" || k == "ws" || k == "unix" {
				out = append(out, callsCase{Prop: prop, Kind: k, Sc: "responses", Seed: seed, Thorough: th})
			}
		case "c13":
			limits := []int{8, 1000, -1} // -1: MaxRequestLength = 0
			if th {
				limits = []int{5, 8, 1000, 65499, -1}
			}
			for _, l := range limits {
				out = append(out, callsCase{Prop: prop, Kind: k, Sc: "honest", Limit: l, Seed: seed})
				if k == "http" && l >= 8 && l <= 1000 {
					out = append(out, callsCase{Prop: prop, Kind: k, Sc: "http2", Limit: l, Seed: seed})
				}
				if (k == "http" || k == "fasthttp") && l >= 8 && l <= 1000 {
					out = append(out, callsCase{Prop: prop, Kind: k, Sc: "http-raw", Limit: l, Seed: seed})
				}
				if framed(k) && l >= 8 && l <= 1000 {
					out = append(out, callsCase{Prop: prop, Kind: k, Sc: "raw-frames", Limit: l, Seed: seed})
				}
			}
		case "c11":
			for _, pool := range []bool{false, true} {
				if pool && !framed(k) && k != "ws" {
					continue
				}
				out = append(out, callsCase{Prop: prop, Kind: k, Sc: "service-faults", Pool: pool, Seed: seed},
					callsCase{Prop: prop, Kind: k, Sc: "oversize", Pool: pool, Seed: seed})
				if framed(k) {
					out = append(out, callsCase{Prop: prop, Kind: k, Sc: "frames", Pool: pool, Seed: seed})
				}
			}
			if k == "tcp" || k == "udp" || k == "unix" {
				out = append(out, callsCase{Prop: prop, Kind: k, Sc: "client-faults", Seed: seed})
			}
			if k == "tcp" || k == "mock" {
				out = append(out, callsCase{Prop: prop, Kind: k, Sc: "reverse-faults", Seed: seed})
			}
		}
	}
	if prop == "c11" {
		out = append(out, callsCase{Prop: prop, Kind: "ws", Sc: "client-faults", Seed: seed})
	}
	return out
}

func runCalls(a Args, prop string) tr.Summary {
	t := tr.New(a.Out)
	defer t.Close()
	var sum tr.Summary
	if a.Extra == "child" {
		var c callsCase
		if err := json.Unmarshal([]byte(a.Only), &c); err != nil {
			panic(err)
		}
		callsChild(t, c)
		return sum
	}
	var cases []callsCase
	if a.Only != "" && strings.Contains(a.Only, "\"seq\"") {
		// replay of one case of the Framing model's message space
		var fc struct {
			Kind string  `json:"kind"`
			Seq  []frMsg `json:"seq"`
		}
		if err := json.Unmarshal([]byte(a.Only), &fc); err != nil {
			panic(err)
		}
		ft := tr.New(a.Out + ".framing")
		frRun(ft, 1, fc.Kind, fc.Seq)
		ft.Close()
		return sum
	}
	if a.Only != "" {
		var c callsCase
		if err := json.Unmarshal([]byte(a.Only), &c); err != nil {
			panic(err)
		}
		cases = []callsCase{c}
	} else {
		cases = callsCases(prop, a.Tier, a.Seed)
	}
	for i, c := range cases {
		Watch(i+1, tr.Rec{"kind": c.Kind, "sc": c.Sc}, c)
		lim := c.Limit
		if lim < 0 {
			lim = 0
		}
		t.Reset(i+1, tr.Rec{"prop": c.Prop, "kind": c.Kind, "sc": c.Sc, "limit": lim, "pool": c.Pool, "stream": c.Kind != "udp", "input": c})
		isolated(t, prop, c, 120*time.Second)
		t.Emit(tr.Rec{"ev": "end"})
		if len(sum.Samples) < 5 {
			sum.Samples = append(sum.Samples, c)
		}
	}
	sum.Cases = len(cases)
	sum.Events = t.Lines
	sum.Nontrivial = len(cases)
	if a.Only == "" && (prop == "c12" || prop == "c13") {
		n := runFraming(a, []string{"dgram", "stream", "http"})
		sum.Extra = tr.Rec{"framing_model_cases": n}
		sum.Cases += n
		sum.Nontrivial += n
	}
	return sum
}
