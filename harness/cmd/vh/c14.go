package main

import (
	"bytes"
	"encoding/hex"
	"encoding/json"
	"fmt"
	"math/big"
	"reflect"
	"strings"
	"sync"
	"time"

	hio "github.com/hprose/hprose-golang/v3/io"

	"verif/harness/fmtx"
	"verif/harness/gate"
	"verif/harness/gen"
	"verif/harness/tr"
)

// C14: coders under concurrency and pooling. (1) first use of a named struct type from two
// goroutines, with the constructing goroutine parked at the yield point right after it has
// published the still incomplete coder, while another goroutine encodes / decodes a value whose
// type embeds it; (2) free-running simultaneous first use of fresh types from many goroutines;
// (3) every sequence of up to three uses of pooled encoders and decoders (simple / reference mode,
// decoder options, failing inputs) compared with fresh coders; (4) overwriting the input buffer
// after decoding. Every observation is (got, want) - the bytes or value produced concurrently /
// with a pooled coder versus alone / with a fresh coder; Coders!C14Why (TLA+) judges.

func init() { drivers["c14"] = runC14 }

type c14Case struct {
	What string `json:"what"`
	I    int    `json:"i"`
	Seq  []int  `json:"seq,omitempty"`
	Dir  string `json:"dir,omitempty"`
	Seed int64  `json:"seed,omitempty"`
}

func c14Outer(i int) (inner, outer reflect.Value) {
	ts := gen.C14Types[i]
	in := reflect.New(ts[0]).Elem()
	in.Field(0).SetInt(int64(i + 1))
	in.Field(1).SetString("x")
	out := reflect.New(ts[1]).Elem()
	out.Field(0).Set(in)
	out.Field(1).SetInt(7)
	return in, out
}

func c14Node(i int) reflect.Value {
	ts := gen.C14Types[i]
	n := reflect.New(ts[2])
	p := reflect.New(ts[3])
	n.Elem().Field(0).SetInt(int64(i))
	n.Elem().Field(1).Set(n)
	n.Elem().Field(2).Set(p)
	p.Elem().Field(0).SetString("w")
	p.Elem().Field(1).Set(n)
	return n
}

func marshalHex(v interface{}, simple bool) string {
	b, e1, e2 := safeMarshal(v, simple)
	if e1 != "" || e2 != "" {
		return "ERR:" + e1 + e2
	}
	return hex.EncodeToString(b)
}

func emit14(t *tr.Writer, id int, c c14Case, what string, got, want interface{}) {
	// shape of the observation: hex strings (bytes), value graphs, or decode outcomes {v, err}
	shape := func(x interface{}) string {
		switch x.(type) {
		case string:
			return "bytes"
		case fmtx.Graph:
			return "graph"
		}
		return "decoded"
	}
	t.Emit(tr.Rec{"ev": "one", "case": id, "kind": "c14", "what": what, "got": got, "want": want, "gshape": shape(got), "wshape": shape(want), "input": c})
}

// gated first use: type i's inner coder is parked right after publication while the outer value is coded
func c14Gated(t *tr.Writer, id int, c c14Case) {
	g := gate.New()
	defer g.Close()
	g.HoldTimeout = 2 * time.Second
	ts := gen.C14Types[c.I]
	inner, outer := c14Outer(c.I)
	point := "io.structEncoderPublished"
	if c.Dir == "decode" {
		point = "io.structDecoderPublished"
	}
	g.HoldAt(point, func(args []interface{}) bool { return len(args) > 0 && args[0] == ts[0] })
	// the bytes for decoding are produced with other, warm types of the same shape? no: class names differ;
	// they are written by hand (the encoder of these types must stay unused in the decode direction)
	innerBytes := []byte(fmt.Sprintf("c%d\"%s\"2{uaub}o0{%dux}", len(ts[0].Name()), ts[0].Name(), c.I+1))
	outerBytes := []byte(fmt.Sprintf("c%d\"%s\"2{uiux}c%d\"%s\"2{uaub}o0{o1{%dux}7}", len(ts[1].Name()), ts[1].Name(), len(ts[0].Name()), ts[0].Name(), c.I+1))
	var got1, got2 interface{}
	var wg sync.WaitGroup
	wg.Add(1)
	go func() { // G1: first user of the inner type; parks inside the constructor
		defer wg.Done()
		if c.Dir == "decode" {
			out := reflect.New(ts[0])
			e, p := safeUnmarshal(innerBytes, out.Interface(), hio.Formatter{Simple: false})
			got1 = tr.Rec{"err": e + p, "v": fmtx.AbsValue(out.Elem())}
		} else {
			got1 = marshalHex(inner.Interface(), false)
		}
	}()
	var h *gate.Hold
	select {
	case h = <-g.Parked:
	case <-time.After(2 * time.Second):
	}
	g.HoldAt(point, nil)
	done2 := make(chan struct{})
	go func() { // G2: uses a value whose type embeds the inner type, while its coder is incomplete
		defer close(done2)
		if c.Dir == "decode" {
			out := reflect.New(ts[1])
			e, p := safeUnmarshal(outerBytes, out.Interface(), hio.Formatter{Simple: false})
			got2 = tr.Rec{"err": e + p, "v": fmtx.AbsValue(out.Elem())}
		} else {
			got2 = marshalHex(outer.Interface(), false)
		}
	}()
	// G2 either finishes at once (using the incomplete coder, or not needing it) or waits for G1
	select {
	case <-done2:
	case <-time.After(30 * time.Millisecond):
	}
	if h != nil {
		h.Release()
	}
	wg.Wait()
	select {
	case <-done2:
	case <-time.After(3 * time.Second):
		emit14(t, id, c, "gated-"+c.Dir+"-hang", "hang", "return")
		return
	}
	// the same calls again, alone and warm
	var want1, want2 interface{}
	if c.Dir == "decode" {
		o1 := reflect.New(ts[0])
		e, p := safeUnmarshal(innerBytes, o1.Interface(), hio.Formatter{Simple: false})
		want1 = tr.Rec{"err": e + p, "v": fmtx.AbsValue(o1.Elem())}
		o2 := reflect.New(ts[1])
		e, p = safeUnmarshal(outerBytes, o2.Interface(), hio.Formatter{Simple: false})
		want2 = tr.Rec{"err": e + p, "v": fmtx.AbsValue(o2.Elem())}
	} else {
		want1 = marshalHex(inner.Interface(), false)
		want2 = marshalHex(outer.Interface(), false)
	}
	emit14(t, id, c, "gated-"+c.Dir+"-constructor", got1, want1)
	emit14(t, id, c, "gated-"+c.Dir+"-embedding-user", got2, want2)
}

// free-running simultaneous first use
func c14Free(t *tr.Writer, id int, c c14Case) {
	const G = 8
	_, outer := c14Outer(c.I)
	node := c14Node(c.I)
	got := make([][2]string, G)
	var wg sync.WaitGroup
	start := make(chan struct{})
	for k := 0; k < G; k++ {
		wg.Add(1)
		go func(k int) {
			defer wg.Done()
			<-start
			if k%2 == 0 {
				got[k][0] = marshalHex(outer.Interface(), false)
				got[k][1] = marshalHex(node.Interface(), false)
			} else {
				got[k][1] = marshalHex(node.Interface(), false)
				got[k][0] = marshalHex(outer.Interface(), false)
			}
		}(k)
	}
	close(start)
	wg.Wait()
	w0, w1 := marshalHex(outer.Interface(), false), marshalHex(node.Interface(), false)
	for k := 0; k < G; k++ {
		emit14(t, id, c, "free-first-use-outer", got[k][0], w0)
		emit14(t, id, c, "free-first-use-cyclic", got[k][1], w1)
	}
	// decode the bytes concurrently into fresh variables of these types
	b0, _ := hex.DecodeString(w0)
	b1, _ := hex.DecodeString(w1)
	dgot := make([][2]fmtx.Graph, G)
	start2 := make(chan struct{})
	for k := 0; k < G; k++ {
		wg.Add(1)
		go func(k int) {
			defer wg.Done()
			<-start2
			o0 := reflect.New(gen.C14Types[c.I][1])
			safeUnmarshal(b0, o0.Interface(), hio.Formatter{Simple: false})
			o1 := reflect.New(gen.C14Types[c.I][2])
			safeUnmarshal(b1, o1.Interface(), hio.Formatter{Simple: false})
			dgot[k] = [2]fmtx.Graph{fmtx.AbsValue(o0.Elem()), fmtx.AbsValue(o1.Elem())}
		}(k)
	}
	close(start2)
	wg.Wait()
	for k := 0; k < G; k++ {
		emit14(t, id, c, "free-first-decode-outer", dgot[k][0], fmtx.AbsValue(outer))
		emit14(t, id, c, "free-first-decode-cyclic", dgot[k][1], fmtx.AbsValue(node))
	}
}

// ---- pooled coders ----

type c14Use struct {
	name string
	enc  func(e *hio.Encoder) string
	dec  func(d *hio.Decoder) interface{}
}

func c14Uses() []c14Use {
	shared := []interface{}{"hello", "hello", &gen.Plain{A: 1, B: "hello"}}
	decodeInto := func(d *hio.Decoder, b []byte, simple bool, set func(d *hio.Decoder)) interface{} {
		d.ResetBytes(b)
		d.Simple(simple)
		if set != nil {
			set(d)
		}
		var v interface{}
		d.Decode(&v)
		e := "none"
		if d.Error != nil {
			e = d.Error.Error()
		}
		return tr.Rec{"err": e, "v": fmtx.Abs(v)}
	}
	return []c14Use{
		{"ref-shared", func(e *hio.Encoder) string { e.Simple(false); e.Encode(shared); return hex.EncodeToString(e.Bytes()) },
			func(d *hio.Decoder) interface{} {
				return decodeInto(d, []byte("a3{s5\"hello\"r1;c5\"Plain\"3{uaubuc}o0{1r1;0}}"), false, nil)
			}},
		{"simple-shared", func(e *hio.Encoder) string { e.Simple(true); e.Encode(shared); return hex.EncodeToString(e.Bytes()) },
			func(d *hio.Decoder) interface{} {
				return decodeInto(d, []byte("a2{s5\"hello\"s5\"hello\"}"), true, nil)
			}},
		{"struct-then-nothing", func(e *hio.Encoder) string {
			e.Simple(false)
			e.Encode(gen.Plain{A: 2, B: "b"})
			return hex.EncodeToString(e.Bytes())
		}, func(d *hio.Decoder) interface{} {
			return decodeInto(d, []byte("c5\"Plain\"3{uaubuc}o0{2ub0}"), false, nil)
		}},
		{"failing", func(e *hio.Encoder) string {
			e.Simple(false)
			e.Encode(make(chan int))
			s := hex.EncodeToString(e.Bytes())
			if e.Error != nil {
				s += "|ERR"
			}
			return s
		}, func(d *hio.Decoder) interface{} { return decodeInto(d, []byte("a2{s5\"hel"), false, nil) }},
		{"options", func(e *hio.Encoder) string {
			e.Simple(false)
			e.Encode(int64(1) << 40)
			return hex.EncodeToString(e.Bytes())
		},
			func(d *hio.Decoder) interface{} {
				return decodeInto(d, []byte("a5{l5;d1.5;m1{ua1}c5\"Plain\"3{uaubuc}o0{1ub0}a2{12}}"), false, func(d *hio.Decoder) {
					d.LongType = hio.LongTypeBigInt
					d.RealType = hio.RealTypeFloat32
					d.MapType = hio.MapTypeSIMap
					d.StructType = hio.StructTypeValue
					d.ListType = hio.ListTypeSlice
				})
			}},
		{"defaults", func(e *hio.Encoder) string { e.Encode("plain"); return hex.EncodeToString(e.Bytes()) },
			func(d *hio.Decoder) interface{} {
				// every decoder option decides the Go type of one of the elements
				d.ResetBytes([]byte("a5{l5;d1.5;m1{ua1}c5\"Plain\"3{uaubuc}o0{1ub0}a2{12}}"))
				var v interface{}
				d.Decode(&v)
				e := "none"
				if d.Error != nil {
					e = d.Error.Error()
				}
				types := fmt.Sprintf("%T", v)
				if l, ok := v.([]interface{}); ok {
					for _, x := range l {
						types += fmt.Sprintf(" %T", x)
					}
				}
				return tr.Rec{"err": e, "v": fmtx.Abs(v), "types": types}
			}},
		{"ref-back-to-earlier-use", func(e *hio.Encoder) string { e.Encode([]interface{}{"hello"}); return hex.EncodeToString(e.Bytes()) },
			func(d *hio.Decoder) interface{} { return decodeInto(d, []byte("a1{r1;}"), false, nil) }},
		// a user that relies on the coder's defaults (reference mode) and whose data has back-references
		{"defaults-with-refs", func(e *hio.Encoder) string { e.Encode(shared); return hex.EncodeToString(e.Bytes()) },
			func(d *hio.Decoder) interface{} {
				d.ResetBytes([]byte("a3{s5\"hello\"r1;c5\"Plain\"3{uaubuc}o0{1r1;0}}"))
				var v interface{}
				d.Decode(&v)
				e := "none"
				if d.Error != nil {
					e = d.Error.Error()
				}
				return tr.Rec{"err": e, "v": fmtx.Abs(v)}
			}},
	}
}

func c14Pool(t *tr.Writer, id int, c c14Case) {
	uses := c14Uses()
	// pooled: the sequence is run with Get / use / Free each time; the last use is compared with a fresh coder
	for _, dir := range []string{"enc", "dec"} {
		var got interface{}
		for _, u := range c.Seq {
			if dir == "enc" {
				e := hio.GetEncoder()
				stale := e.Error // what the pool handed out must not carry an earlier use's error
				r := uses[u].enc(e)
				if stale != nil {
					r += "|STALE-ERROR:" + stale.Error()
				}
				got = r
				hio.FreeEncoder(e)
			} else {
				d := hio.GetDecoder()
				got = uses[u].dec(d)
				hio.FreeDecoder(d)
			}
		}
		last := uses[c.Seq[len(c.Seq)-1]]
		var want interface{}
		if dir == "enc" {
			want = last.enc(new(hio.Encoder))
		} else {
			want = last.dec(new(hio.Decoder)) // what the pool hands out when it is empty
		}
		names := ""
		for _, u := range c.Seq {
			names += uses[u].name + ","
		}
		emit14(t, id, c, "pool-"+dir+":"+names, got, want)
	}
}

// decoded values must not alias the input buffer or a recycled decoder
func c14Alias(t *tr.Writer, id int, c c14Case) {
	inputs := [][]byte{
		[]byte("s5\"hello\""), []byte("b5\"bytes\""), []byte("a2{s5\"hello\"b3\"abc\"}"), []byte("m1{s3\"key\"s5\"value\"}"),
		[]byte("c5\"Plain\"3{uaubuc}o0{1s5\"field\"0}"), []byte("a2{s5\"hello\"r1;}"), []byte("ux"), []byte("s3\"1.5\""), []byte("g{01234567-89ab-cdef-0123-456789abcdef}"),
		// numbers, dates and other non-text items read into text and byte destinations
		[]byte("i12345;"), []byte("l1234567890123;"), []byte("d3.14159;"), []byte("a3{i123;d1.5;l99999999999;}"), []byte("D20210102T030405Z"),
		[]byte("a2{i777;i888;}"), []byte("m1{i12345;d2.5;}"), []byte("t"), []byte("5"),
	}
	dests := []func() interface{}{
		func() interface{} { var v interface{}; return &v }, func() interface{} { var v string; return &v }, func() interface{} { var v []byte; return &v },
		func() interface{} { var v []string; return &v }, func() interface{} { var v map[string]string; return &v }, func() interface{} { var v gen.Plain; return &v },
		func() interface{} { var v []interface{}; return &v }, func() interface{} { var v [][]byte; return &v },
	}
	for ii, in := range inputs {
		for di, mk := range dests {
			for _, mode := range []string{"slice", "reader", "pooled", "simple-slice", "simple-reader"} {
				if strings.HasPrefix(mode, "simple") && bytes.Contains(in, []byte("r1;")) {
					continue // (no references in simple mode)
				}
				buf := append([]byte(nil), in...)
				p := mk()
				var dec *hio.Decoder
				switch mode {
				case "slice", "simple-slice":
					dec = hio.NewDecoder(buf)
				case "simple-reader":
					dec = hio.NewDecoderFromReader(&chunkReader{b: buf, plan: []int{3, 4, 5, 6}})
				case "reader":
					dec = hio.NewDecoderFromReader(&chunkReader{b: buf, plan: []int{3, 4, 5, 6}})
				default:
					dec = hio.GetDecoder().ResetBytes(buf)
				}
				dec.Simple(strings.HasPrefix(mode, "simple"))
				func() {
					defer func() { recover() }()
					dec.Decode(p)
				}()
				if dec.Error != nil {
					continue
				}
				before := fmtx.AbsValue(reflect.ValueOf(p).Elem())
				for i := range buf {
					buf[i] = '#'
				}
				if mode == "pooled" {
					hio.FreeDecoder(dec)
					d2 := hio.GetDecoder().ResetBytes([]byte("s9\"OVERWRITE\""))
					var s string
					d2.Decode(&s)
					hio.FreeDecoder(d2)
				}
				after := fmtx.AbsValue(reflect.ValueOf(p).Elem())
				emit14(t, id, c, fmt.Sprintf("alias-%s-input%d-dest%d", mode, ii, di), after, before)
			}
		}
	}
}

// concurrent coding of plain values: G goroutines encode and decode their own distinct values over and
// over (negative and positive integers of every width, floats, strings, times, big numbers, byte slices,
// small lists and maps); every result is compared with what the same value gives alone (computed before
// the goroutines start). State shared between coders - a scratch buffer, a cache filled on the fly -
// shows as one goroutine's digits in another's output.
func c14Conc(t *tr.Writer, id int, c c14Case) {
	rng := tr.NewRng(c.Seed)
	type job struct {
		v    interface{}
		want string
	}
	G, rounds := 8, 400
	jobs := make([][]job, G)
	for g := range jobs {
		for k := 0; k < 12; k++ {
			var v interface{}
			x := int64(rng.U64()>>uint(rng.Intn(60))) + 1
			switch k % 12 {
			case 0:
				v = -x
			case 1:
				v = x
			case 2:
				v = int32(-(x % 2000000000))
			case 3:
				v = int8(-(x % 120))
			case 4:
				v = uint64(x) << 1
			case 5:
				v = -float64(x) / 7
			case 6:
				v = float32(x%100000) / 3
			case 7:
				v = fmt.Sprintf("s%d-%d", g, x)
			case 8:
				v = time.Unix(x%4000000000, (x%1000)*1000000).UTC()
			case 9:
				v = big.NewInt(-x)
			case 10:
				v = []int64{-x, x, -x / 3}
			default:
				v = map[string]int64{fmt.Sprintf("k%d", g): -x}
			}
			jobs[g] = append(jobs[g], job{v, marshalHex(v, k%2 == 0)})
		}
	}
	var mu sync.Mutex
	bad := map[string][2]string{}
	var wg sync.WaitGroup
	for g := 0; g < G; g++ {
		wg.Add(1)
		go func(g int) {
			defer wg.Done()
			for r := 0; r < rounds; r++ {
				for k, j := range jobs[g] {
					got := marshalHex(j.v, k%2 == 0)
					if got != j.want {
						mu.Lock()
						if len(bad) < 8 {
							bad[fmt.Sprintf("%T", j.v)] = [2]string{got, j.want}
						}
						mu.Unlock()
					}
				}
			}
		}(g)
	}
	wg.Wait()
	if len(bad) == 0 {
		emit14(t, id, c, "concurrent-encode", "same", "same")
		return
	}
	for ty, gw := range bad {
		emit14(t, id, c, "concurrent-encode:"+ty, gw[0], gw[1])
	}
}

func runC14(a Args) tr.Summary {
	t := tr.New(a.Out)
	defer t.Close()
	var sum tr.Summary
	run := func(id int, c c14Case) {
		Watch(id, tr.Rec{"what": c.What}, c)
		switch c.What {
		case "gated":
			c14Gated(t, id, c)
		case "free":
			c14Free(t, id, c)
		case "pool":
			c14Pool(t, id, c)
		case "alias":
			c14Alias(t, id, c)
		case "conc":
			c14Conc(t, id, c)
		}
	}
	if a.Only != "" {
		var c c14Case
		if err := json.Unmarshal([]byte(a.Only), &c); err != nil {
			panic(err)
		}
		run(1, c)
		sum.Cases, sum.Events = 1, t.Lines
		return sum
	}
	id := 0
	// fresh types are a per-process resource: indices are used once
	nG := 6
	if a.Tier == "thorough" {
		nG = 14
	}
	next := int(a.Seed) % 4
	for k := 0; k < nG; k++ {
		for _, dir := range []string{"encode", "decode"} {
			id++
			run(id, c14Case{What: "gated", I: next, Dir: dir})
			next++
		}
	}
	for next < len(gen.C14Types) {
		id++
		run(id, c14Case{What: "free", I: next})
		next++
	}
	n := len(c14Uses())
	maxLen := 2
	if a.Tier == "thorough" {
		maxLen = 3
	}
	var rec func(p []int)
	rec = func(p []int) {
		if len(p) > 0 {
			id++
			run(id, c14Case{What: "pool", Seq: append([]int(nil), p...)})
		}
		if len(p) == maxLen {
			return
		}
		for u := 0; u < n; u++ {
			rec(append(p, u))
		}
	}
	rec(nil)
	id++
	run(id, c14Case{What: "alias"})
	for k := 0; k < 3; k++ {
		id++
		run(id, c14Case{What: "conc", Seed: a.Seed*97 + int64(k)})
	}
	sum.Cases = id
	sum.Events = t.Lines
	sum.Nontrivial = id
	sum.Samples = []interface{}{c14Case{What: "gated", I: 0, Dir: "encode"}, c14Case{What: "pool", Seq: []int{3, 0}}, c14Case{What: "free", I: 20}}
	sum.Extra = tr.Rec{"gated": nG * 2, "fresh_types": len(gen.C14Types), "pool_seq_len": maxLen}
	return sum
}
