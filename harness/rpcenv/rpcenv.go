// Package rpcenv starts real hprose servers of every transport on ephemeral ports / temporary
// socket paths inside the harness process and registers every handler and transport once.
package rpcenv

import (
	"fmt"
	"net"
	"net/http"
	"os"
	"sync"
	"sync/atomic"
	"time"

	"github.com/hprose/hprose-golang/v3/rpc/core"
	rpchttp "github.com/hprose/hprose-golang/v3/rpc/http"
	rpcfast "github.com/hprose/hprose-golang/v3/rpc/http/fasthttp"
	"github.com/hprose/hprose-golang/v3/rpc/mock"
	"github.com/hprose/hprose-golang/v3/rpc/socket"
	"github.com/hprose/hprose-golang/v3/rpc/udp"
	"github.com/hprose/hprose-golang/v3/rpc/websocket"
	"github.com/valyala/fasthttp"
)

// Kinds lists the transports.
var Kinds = []string{"mock", "http", "fasthttp", "tcp", "unix", "ws", "wsfast", "udp"}

var once sync.Once

// Register registers every handler and transport exactly once.
func Register() {
	once.Do(func() {
		mock.RegisterHandler()
		mock.RegisterTransport()
		rpchttp.RegisterHandler()
		rpchttp.RegisterTransport()
		socket.RegisterHandler()
		socket.RegisterTransport()
		udp.RegisterHandler()
		udp.RegisterTransport()
		websocket.RegisterHandler()
		websocket.RegisterTransport()
	})
}

func init() { Register() }

var mockSeq int64

// Pool is a small worker pool.
type Pool struct{ ch chan func() }

// NewPool starts n workers.
func NewPool(n int) *Pool {
	p := &Pool{ch: make(chan func(), 1024)}
	for i := 0; i < n; i++ {
		go func() {
			for f := range p.ch {
				f()
			}
		}()
	}
	return p
}

// Submit implements core.WorkerPool.
func (p *Pool) Submit(f func()) { p.ch <- f }

// Env is one running server.
type Env struct {
	Kind  string
	URL   string
	close func()
}

// Close stops the server.
func (e *Env) Close() {
	if e.close != nil {
		e.close()
	}
}

// Start serves service over the given transport. With pool, the handlers that support a worker pool use one.
func Start(kind string, service *core.Service, pool bool) (*Env, error) {
	Register()
	e := &Env{Kind: kind}
	var wp core.WorkerPool
	if pool {
		wp = NewPool(4)
	}
	switch kind {
	case "mock":
		addr := fmt.Sprintf("rpcenv-%d", atomic.AddInt64(&mockSeq, 1))
		srv := mock.Server{Address: addr}
		if err := service.Bind(srv); err != nil {
			return nil, err
		}
		e.URL = "mock://" + addr
		e.close = srv.Close
	case "tcp", "unix":
		var ln net.Listener
		var err error
		path := ""
		if kind == "tcp" {
			ln, err = net.Listen("tcp", "127.0.0.1:0")
		} else {
			f, _ := os.CreateTemp("", "rpcenv*.sock")
			path = f.Name()
			f.Close()
			os.Remove(path)
			ln, err = net.Listen("unix", path)
		}
		if err != nil {
			return nil, err
		}
		if h, ok := service.GetHandler("socket").(*socket.Handler); ok {
			h.Pool = wp
		}
		if err := service.Bind(ln); err != nil {
			return nil, err
		}
		if kind == "tcp" {
			e.URL = "tcp://" + ln.Addr().String()
		} else {
			e.URL = "unix://" + path
		}
		e.close = func() {
			ln.Close()
			if path != "" {
				os.Remove(path)
			}
		}
	case "udp":
		addr, _ := net.ResolveUDPAddr("udp", "127.0.0.1:0")
		conn, err := net.ListenUDP("udp", addr)
		if err != nil {
			return nil, err
		}
		if h, ok := service.GetHandler("udp").(*udp.Handler); ok {
			h.Pool = wp
		}
		if err := service.Bind(conn); err != nil {
			return nil, err
		}
		e.URL = "udp://" + conn.LocalAddr().String()
		e.close = func() { conn.Close() }
	case "http", "ws":
		ln, err := net.Listen("tcp", "127.0.0.1:0")
		if err != nil {
			return nil, err
		}
		srv := &http.Server{}
		if h, ok := service.GetHandler("websocket").(*websocket.Handler); ok && kind == "ws" {
			h.Pool = wp
		}
		if err := service.Bind(srv); err != nil {
			return nil, err
		}
		go srv.Serve(ln)
		if kind == "http" {
			rpchttp.RegisterTransport() // scheme http -> net/http client
			e.URL = "http://" + ln.Addr().String() + "/"
		} else {
			e.URL = "ws://" + ln.Addr().String() + "/"
		}
		e.close = func() { srv.Close(); ln.Close() }
	case "fasthttp", "wsfast":
		ln, err := net.Listen("tcp", "127.0.0.1:0")
		if err != nil {
			return nil, err
		}
		srv := &fasthttp.Server{}
		if err := service.Bind(srv); err != nil {
			return nil, err
		}
		go srv.Serve(ln)
		if kind == "fasthttp" {
			rpcfast.RegisterTransport() // scheme http -> fasthttp client
			e.URL = "http://" + ln.Addr().String() + "/"
		} else {
			e.URL = "ws://" + ln.Addr().String() + "/"
		}
		e.close = func() { srv.Shutdown(); ln.Close() }
	default:
		return nil, fmt.Errorf("unknown transport %s", kind)
	}
	time.Sleep(2 * time.Millisecond)
	return e, nil
}
